"""Replays for C19: the real index_lambda_to_high_level_op run natively on a
concrete instance of the producer / near-miss lambda; the returned operation
is evaluated with NumPy and compared with a pointwise evaluation of the
lambda itself (pyvc.replaylib.eval_array)."""
from __future__ import annotations

import sys

sys.path.append("/verif/.deps")

import numpy as np  # noqa: E402

from .replaylib import eval_array, not_reproduced, reproduced  # noqa: E402


class ConcreteHarness:
    """Stands in for the contract harness: symbolic lengths become small
    concrete ones (distinct per name, so that transposed operands differ)."""
    canary = None

    def __init__(self, sizes=(3, 4, 2), model=None):
        self.sizes = list(sizes)
        self.model = model or {}
        self.given: dict[str, int] = {}

    def nonneg(self, name):
        if name not in self.given:
            try:
                self.given[name] = max(0, int(self.model[name]))
            except (KeyError, ValueError, TypeError):
                self.given[name] = self.sizes[
                    len(self.given) % len(self.sizes)]
        return self.given[name]

    def int(self, name):
        return 2

    def assume(self, c):
        pass


def np_value(o, data, shape):
    from pytato.array import Array
    if isinstance(o, Array):
        return np.broadcast_to(eval_array(o, data), shape)
    return np.broadcast_to(np.asarray(o), shape)


def eval_op(op, il, data):
    from pytato import raising as R
    shape = tuple(int(s) for s in il.shape)
    B = R.BinaryOpType
    val = lambda o: np_value(o, data, shape)   # noqa: E731
    if isinstance(op, R.FullOp):
        return np.full(shape, op.fill_value)
    if isinstance(op, R.BinaryOp):
        f = {B.ADD: np.add, B.SUB: np.subtract, B.MULT: np.multiply,
             B.TRUEDIV: np.true_divide, B.FLOORDIV: np.floor_divide,
             B.MOD: np.mod, B.POWER: np.power, B.EQUAL: np.equal,
             B.NOT_EQUAL: np.not_equal, B.LESS: np.less,
             B.LESS_EQUAL: np.less_equal, B.GREATER: np.greater,
             B.GREATER_EQUAL: np.greater_equal,
             B.LOGICAL_AND: np.logical_and, B.LOGICAL_OR: np.logical_or,
             B.BITWISE_AND: np.bitwise_and, B.BITWISE_OR: np.bitwise_or,
             B.BITWISE_XOR: np.bitwise_xor}[op.binary_op]
        return f(val(op.x1), val(op.x2))
    if isinstance(op, R.C99CallOp):
        name = {"acos": "arccos", "asin": "arcsin", "atan": "arctan",
                "atan2": "arctan2", "fabs": "abs"}.get(op.function,
                                                       op.function)
        return getattr(np, name)(*[val(a) for a in op.args])
    if isinstance(op, R.WhereOp):
        return np.where(val(op.condition) != 0, val(op.then), val(op.else_))
    if isinstance(op, R.BroadcastOp):
        return val(op.x)
    if isinstance(op, R.LogicalNotOp):
        return np.logical_not(val(op.x))
    if isinstance(op, R.ZerosLikeOp):
        return np.zeros(shape)
    if isinstance(op, R.ReduceOp):
        x = eval_array(op.x, data)
        f = {"SumReductionOperation": np.sum,
             "ProductReductionOperation": np.prod,
             "MaxReductionOperation": np.max, "MinReductionOperation": np.min,
             "AllReductionOperation": np.all,
             "AnyReductionOperation": np.any}[type(op.op).__name__]
        return f(x, axis=tuple(sorted(op.axes)))
    raise NotImplementedError(type(op).__name__)


def inputs_of(il, seed=0):
    from pytato.array import Placeholder
    from pytato.transform import InputGatherer
    rng = np.random.default_rng(seed)
    data = {}
    for inp in InputGatherer()(il):
        if isinstance(inp, Placeholder):
            shp = tuple(int(s) for s in inp.shape)
            if inp.dtype.kind == "b":
                data[inp.name] = rng.integers(0, 2, shp).astype(bool)
            elif inp.dtype.kind in "iu":
                v = rng.integers(1, 5, shp).astype(inp.dtype)
                if v.size and inp.dtype.itemsize >= 4:
                    # (a value a narrower integer type cannot hold)
                    v.flat[0] = 70000 + 300
                data[inp.name] = v
            else:
                # (halves plus a tenth: not representable in a narrower
                # float, so a dropped narrowing cast is visible)
                data[inp.name] = (rng.integers(1, 9, shp) / 2 + 0.1).astype(
                    inp.dtype)
    return data


class _NotReproduced(Exception):
    pass


def check(il, expect, what):
    try:
        _check(il, expect, what)
    except _NotReproduced:
        return


def _check(il, expect, what):
    from pytato.raising import (UnknownIndexLambdaExpr,
                                index_lambda_to_high_level_op)
    try:
        op = index_lambda_to_high_level_op(il)
    except UnknownIndexLambdaExpr:
        if expect is not None:
            reproduced(f"{what}: the lambda produced by the public API is "
                       "reported as unknown")
        raise _NotReproduced from None
    except NotImplementedError:
        raise _NotReproduced from None
    except Exception as e:  # noqa: BLE001
        reproduced(f"{what}: {type(e).__name__}: {e}")
    if expect is not None and not expect(op):
        reproduced(f"{what}: raised to {op!r:.200}, not the operation that "
                   "built it")
    data = inputs_of(il)
    with np.errstate(all="ignore"):
        want = eval_array(il, data)
        try:
            got = eval_op(op, il, data)
        except Exception as e:  # noqa: BLE001
            reproduced(f"{what}: raised to {op!r:.160}, which NumPy cannot "
                       f"apply: {type(e).__name__}: {e}")
    got = np.asarray(got)
    if got.shape != want.shape or not np.allclose(
            got.astype(np.complex128), want.astype(np.complex128),
            rtol=1e-12, atol=0, equal_nan=True):
        reproduced(f"{what}: raised to {op!r:.200}, whose NumPy value differs "
                   f"from the lambda's: {got.tolist()!r:.200} vs "
                   f"{want.tolist()!r:.200}")


SIZE_CHOICES = [(3, 4, 2), (1, 4, 2), (3, 1, 2), (1, 1, 1), (2, 2, 2),
                (0, 3, 2)]


def replay_producer(which, model=None):
    from contracts.c19_raising import producers
    tries = ([dict(model=model)] if model else []) + [
        dict(sizes=s) for s in SIZE_CHOICES]
    for kw in tries:
        h = ConcreteHarness(**kw)
        try:
            il, expect = producers("thorough")[which](h)
        except ValueError:
            continue
        check(il, expect, f"producer {which} (lengths {h.given})")
    not_reproduced(f"producer {which}: raised operation agrees with the "
                   "lambda for all tried lengths")


def replay_near_miss(inst):
    from constantdict import constantdict

    import contracts.c19_raising as C
    from pytato.array import IndexLambda, _get_default_axes
    captured = {}

    def fake_raise_and_check(h_, clause, il, arrays, expect=None):
        captured["il"] = il
    C.raise_and_check = fake_raise_and_check
    c = C.RaiseNearMisses()
    # square shapes first: permuted operands fit
    for sizes in [(3, 3, 2), (1, 1, 1), (2, 2, 2), (1, 3, 2), (3, 1, 2)]:
        captured.clear()
        h = ConcreteHarness(sizes=sizes)
        try:
            c.run(h, inst)
        except Exception:  # noqa: BLE001
            continue
        if "il" in captured:
            try:
                check(captured["il"], None,
                      f"near miss {inst['label']} (lengths {h.given})")
            except (ValueError, IndexError, TypeError):
                # (a hand-built lambda NumPy cannot even evaluate for these
                # dtypes, e.g. ^ on floats, is not a misreading)
                continue
    not_reproduced(f"near miss {inst['label']}: no misreading for the tried "
                   "lengths")
