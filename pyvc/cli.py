"""Command line: ./check <property> [--tier quick|thorough] | --replay <file>

Exit codes: 0 all obligations discharged (or only listed known findings fail);
1 a refuted obligation that is not a listed known finding (VIOLATION line);
2 undecided (solver unknown, code outside the subset, zero obligations);
3 checker fault (engine self-check failed, canary not refuted, traceback).
"""
from __future__ import annotations

import argparse
import json
import os
import subprocess
import sys
import time

VERIF = os.path.dirname(os.path.dirname(os.path.abspath(__file__)))


def _setup_paths():
    repo = os.environ.get("VERIF_REPO")
    if repo:
        sys.path.insert(0, repo)
    if VERIF not in sys.path:
        sys.path.insert(0, VERIF)
    deps = os.path.join(VERIF, ".deps")
    if deps not in sys.path:
        sys.path.append(deps)


def repo_root():
    import pytato
    return os.path.dirname(os.path.dirname(os.path.abspath(pytato.__file__)))


def main(argv=None):
    _setup_paths()
    ap = argparse.ArgumentParser()
    ap.add_argument("prop", nargs="?")
    ap.add_argument("--tier", default=os.environ.get("VERIF_TIER", "quick"))
    ap.add_argument("--replay")
    ap.add_argument("--jobs", type=int, default=None)
    ap.add_argument("--only", help="substring filter on contract name")
    ap.add_argument("--verbose", "-v", action="store_true")
    ap.add_argument("--no-evidence", action="store_true")
    args = ap.parse_args(argv)
    if args.tier not in ("quick", "thorough"):
        args.tier = "quick"

    if args.replay:
        return subprocess.call([sys.executable, args.replay])
    if not args.prop:
        ap.error("property id required")

    from . import report
    return report.run_property(args.prop, args.tier, jobs=args.jobs,
                               only=args.only, verbose=args.verbose,
                               write_evidence=not args.no_evidence)


if __name__ == "__main__":
    sys.exit(main())
