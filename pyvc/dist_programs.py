"""Multi-rank programs, single-fault injection and an independent
well-formedness checker for distributed partitions (C09, C10).  No z3 here:
the replays import this module under the plain interpreter."""
from __future__ import annotations

import numpy as np

import pytato as pt

SHAPE = (4,)


def _mk_rank_tag():
    from dataclasses import dataclass

    from pytools.tag import Tag

    @dataclass(frozen=True)
    class OnRank(Tag):
        """Makes the same-named inputs of different ranks structurally
        different arrays (mappers cache by structural equality)."""
        rank: int
    return OnRank


OnRank = _mk_rank_tag()


class Fault:
    """One fault at one communication operation (global index = order in
    which the program text creates the operation on rank *rank*)."""

    def __init__(self, kind, rank, index):
        self.kind, self.rank, self.index = kind, rank, index

    def __repr__(self):
        return f"{self.kind}@rank{self.rank}#{self.index}"


FAULT_KINDS = ("drop-send", "dup-send", "retag-send", "redirect-send",
               "drop-recv", "dup-recv", "retag-recv", "redirect-recv")


class RankCtx:
    def __init__(self, rank, size, fault=None, staple="chain"):
        self.rank, self.size = rank, size
        faults = [] if fault is None else (
            list(fault) if isinstance(fault, (list, tuple)) else [fault])
        self.faults = [f for f in faults if f.rank == rank]
        self.fault = None
        self.nsend = self.nrecv = 0
        self.sends: list[tuple] = []      # (data, dest, tag)
        self.recvs: list[tuple] = []      # (src, tag)
        self.staple = staple
        self.x = pt.make_placeholder("x", SHAPE, np.float64).tagged(
            OnRank(rank))

    def user_inputs(self):
        """name -> this rank's Placeholder objects (after finish())."""
        from pytato.transform import InputGatherer
        return {i.name: i for i in InputGatherer()(self.outputs)
                if isinstance(i, pt.Placeholder)}

    def _other(self, r):
        for c in range(self.size):
            if c not in (r, self.rank):
                return c
        return None

    def recv(self, src, tag):
        i = self.nrecv
        self.nrecv += 1
        f = next((g for g in self.faults
                  if g.index == i and g.kind.endswith("-recv")), None)
        if f is not None:
            if f.kind == "drop-recv":
                return pt.zeros(SHAPE, np.float64) + self.x
            if f.kind == "retag-recv":
                tag = ("faulty", tag)
            if f.kind == "redirect-recv":
                o = self._other(src)
                if o is None:
                    raise NotApplicable("no third rank to redirect to")
                src = o
            if f.kind == "dup-recv":
                # a second, different receive node for the same message (an
                # equal node would be the same node after de-duplication)
                self.recvs.append((src, tag))
                self.recvs.append((src, tag))
                return (pt.make_distributed_recv(src, tag, SHAPE, np.float64)
                        + 2 * pt.make_distributed_recv(
                            src, tag, SHAPE, np.float64,
                            tags=frozenset({pt.tags.ImplStored()})))
        self.recvs.append((src, tag))
        return pt.make_distributed_recv(src, tag, SHAPE, np.float64)

    def send(self, data, dest, tag):
        i = self.nsend
        self.nsend += 1
        f = next((g for g in self.faults
                  if g.index == i and g.kind.endswith("-send")), None)
        if f is not None:
            if f.kind == "drop-send":
                return
            if f.kind == "retag-send":
                tag = ("faulty", tag)
            if f.kind == "redirect-send":
                o = self._other(dest)
                if o is None:
                    raise NotApplicable("no third rank to redirect to")
                dest = o
            if f.kind == "dup-send":
                # a second send for the same (source, destination, tag) with
                # a payload of its own (an *equal* send node is the same node
                # once the DAG is de-duplicated)
                self.sends.append((data + 0, dest, tag))
        self.sends.append((data, dest, tag))

    def finish(self, outputs):
        names = list(outputs)
        first = outputs[names[0]]
        if self.staple == "chain":
            for data, dest, tag in self.sends:
                first = pt.staple_distributed_send(data, dest, tag,
                                                   stapled_to=first)
        elif self.staple == "siblings":
            acc = None
            zero = pt.zeros(SHAPE, np.float64)   # one object: DAGs handed to
            # the partitioner are expected to be free of duplicates
            for data, dest, tag in self.sends:
                hld = pt.staple_distributed_send(
                    data, dest, tag, stapled_to=zero)
                acc = hld if acc is None else acc + hld
            if acc is not None:
                first = first + acc
        outputs = dict(outputs)
        outputs[names[0]] = first
        # (DAGs handed to the partitioner are expected to be de-duplicated)
        self.outputs = pt.transform.deduplicate(
            pt.make_dict_of_named_arrays(outputs))
        return self.outputs


class NotApplicable(Exception):
    pass


# {{{ program family: functions (ctx) -> dict name -> Array

def p_pingpong(c):
    if c.rank == 0:
        c.send(2 * c.x, 1, "ping")
        return {"out": c.x + c.recv(1, "pong")}
    if c.rank == 1:
        got = c.recv(0, "ping")
        c.send(got + c.x, 0, "pong")
        return {"out": got * 3}
    return {"out": c.x + 1}


def p_ring(c):
    left, right = (c.rank - 1) % c.size, (c.rank + 1) % c.size
    c.send(c.x * 5, right, ("ring", c.rank))
    return {"out": c.x + c.recv(left, ("ring", left))}


def p_halo2(c):
    left, right = (c.rank - 1) % c.size, (c.rank + 1) % c.size
    c.send(3 * c.x, left, "to_left")
    c.send(5 * c.x, right, "to_right")
    y = c.x + c.recv(left, "to_right") + c.recv(right, "to_left")
    c.send(13 * y, right, "corr")
    return {"out": y * c.recv(left, "corr"), "aux": y + 1}


def p_multisend(c):
    # the same array is sent several times
    if c.rank == 0:
        y = 2 * c.x
        c.send(y, 1, "to_1")
        c.send(y, c.size - 1, "to_last")
        c.send(y, 1, ("again", 1))
        return {"out": y + 1}
    out = c.x
    if c.rank == 1:
        out = out + c.recv(0, "to_1") + c.recv(0, ("again", 1))
    if c.rank == c.size - 1:
        out = out + c.recv(0, "to_last")
    return {"out": out}


def p_recv_as_output(c):
    if c.rank == 0:
        c.send(c.x + 1, 1, "a")
        return {"out": c.x * 2}
    if c.rank == 1:
        return {"copy": c.recv(0, "a"), "out": c.x - 1}
    return {"out": c.x}


def p_recv_reused_later(c):
    # something received in round 1 is used again after round 2
    if c.rank == 0:
        c.send(c.x + 1, 1, "a")
        b = c.recv(1, "b")
        c.send(b * 2, 1, "c")
        return {"out": b + c.x}
    if c.rank == 1:
        a = c.recv(0, "a")
        c.send(a + c.x, 0, "b")
        return {"out": a * c.recv(0, "c"), "a_copy": a}
    return {"out": c.x}


def p_forwarding(c):
    # a received array is sent on unchanged
    last = c.size - 1
    if c.rank == 0:
        c.send(c.x + 1, 1, "hop1")
        return {"out": c.x + c.recv(last, "hop2")} if last != 0 else \
            {"out": c.x}
    if c.rank == 1:
        got = c.recv(0, "hop1")
        c.send(got, 0 if c.size == 2 else 2, "hop2" if c.size == 2
               else "fwd")
        return {"out": c.x * 2}
    if c.rank == 2:
        got = c.recv(1, "fwd")
        if last == 2:
            c.send(got + 1, 0, "hop2")
        return {"out": got + c.x}
    return {"out": c.x}


def p_sent_reused_later(c):
    if c.rank == 0:
        y = (c.x * 7).tagged(pt.tags.ImplStored())
        c.send(y, 1, "y")
        z = c.recv(1, "z")
        return {"out": y + z, "y": y}
    if c.rank == 1:
        yy = c.recv(0, "y")
        c.send(yy + c.x, 0, "z")
        return {"out": yy - 1}
    return {"out": c.x}


def p_stored_chain(c):
    s = (c.x + 1).tagged(pt.tags.ImplStored())
    t = (s * 2).tagged(pt.tags.ImplStored())
    if c.rank == 0:
        c.send(t, 1, "t")
        u = c.recv(1, "u")
        return {"out": u + s, "t": t}
    if c.rank == 1:
        tt = c.recv(0, "t")
        w = (tt + t).tagged(pt.tags.ImplStored())
        c.send(w, 0, "u")
        return {"out": w * s}
    return {"out": t}


def p_sizeparam(c):
    # arrays of parametric size next to the communicated (static) ones
    n = pt.make_size_param("n")
    z = pt.make_placeholder("z", (n,), np.float64)
    other = (c.rank + 1) % c.size
    c.send(c.x * 2, other, ("sp", c.rank))
    prev = (c.rank - 1) % c.size
    return {"out": c.x + c.recv(prev, ("sp", prev)), "big": z * 3}


def p_nested_holder(c):
    # a later-round send stapled *inside the data* of an earlier-round send
    # (the holder's value is its passthrough data, so the earlier send does
    # not depend on the later receive)
    if c.rank == 0:
        b = c.recv(1, "b")
        inner = pt.staple_distributed_send(b + c.x, 1, "c",
                                           stapled_to=c.x * 5)
        c.send(inner * 2, 1, "a")
        return {"out": c.x + 1}
    if c.rank == 1:
        a = c.recv(0, "a")
        c.send(a + c.x, 0, "b")
        return {"out": a * c.recv(0, "c")}
    return {"out": c.x}


def p_nocomm(c):
    return {"out": c.x + 1, "aux": pt.sin(c.x)}


def p_cycle2(c):
    # invalid: each of two messages needs the other one first
    if c.rank == 0:
        c.send(c.recv(1, "b") + c.x, 1, "a")
        return {"out": c.x}
    if c.rank == 1:
        c.send(c.recv(0, "a") + c.x, 0, "b")
        return {"out": c.x}
    return {"out": c.x}


def p_cycle3(c):
    # invalid: a cycle through all ranks
    left, right = (c.rank - 1) % c.size, (c.rank + 1) % c.size
    c.send(c.recv(left, ("m", left)) * 2, right, ("m", c.rank))
    return {"out": c.x}


def p_selfsend(c):
    if c.rank == 0:
        c.send(c.x, 0, "self")
        return {"out": c.x + c.recv(0, "self")}
    return {"out": c.x}


INVALID_PROGRAMS = {"cycle2": p_cycle2, "cycle3": p_cycle3,
                    "selfsend": p_selfsend}

PROGRAMS = {
    "pingpong": p_pingpong, "ring": p_ring, "halo2": p_halo2,
    "multisend": p_multisend, "recv_as_output": p_recv_as_output,
    "recv_reused_later": p_recv_reused_later, "forwarding": p_forwarding,
    "sent_reused_later": p_sent_reused_later, "stored_chain": p_stored_chain,
    "nocomm": p_nocomm, "sizeparam": p_sizeparam,
}
#: valid programs the pinned tree is known to reject (known_findings.json);
#: kept out of the family the fault-injection / executor contracts build on
EXTRA_VALID_PROGRAMS = {"nested_holder": p_nested_holder}

# }}}


def build_rank(prog, rank, size, fault=None, staple="chain"):
    ctx = RankCtx(rank, size, fault, staple)
    if prog.startswith("random") and prog not in PROGRAMS_RANDOM:
        PROGRAMS_RANDOM[prog] = p_random(int(prog[len("random"):]))
    outs = (PROGRAMS.get(prog) or EXTRA_VALID_PROGRAMS.get(prog)
            or PROGRAMS_RANDOM.get(prog) or INVALID_PROGRAMS[prog])(ctx)
    return ctx, ctx.finish(outs)


def live_ops(outputs):
    """(sends, recvs) actually present in the DAG the partitioner works on
    (dead code -- e.g. a receive nobody uses -- is eliminated first)."""
    from pytato.distributed.nodes import (DistributedRecv,
                                          DistributedSendRefHolder)
    from pytato.transform import CachedWalkMapper
    from pytato.transform.dead_code_elimination import eliminate_dead_code
    sends, recvs = [], []

    class W(CachedWalkMapper):
        def get_cache_key(self, expr):
            return id(expr)

        def post_visit(self, expr):
            if isinstance(expr, DistributedSendRefHolder):
                sends.append((expr.send.dest_rank, expr.send.comm_tag))
            elif isinstance(expr, DistributedRecv):
                recvs.append((expr.src_rank, expr.comm_tag))
    W()(eliminate_dead_code(outputs))
    return sends, recvs


def count_ops(prog, size):
    """[(rank, nsend, nrecv)] of the fault-free program."""
    out = []
    for r in range(size):
        ctx, _ = build_rank(prog, r, size)
        out.append((r, ctx.nsend, ctx.nrecv))
    return out


# {{{ well-formedness (the clauses of C09), independent of pytato's verify

def part_reads(partition, part):
    from pytato.transform import InputGatherer
    names = set()
    for name in part.output_names:
        for inp in InputGatherer()(partition.name_to_output[name]):
            if isinstance(inp, pt.Placeholder):
                names.add(inp.name)
    return names


def contains_comm_nodes(expr):
    from pytato.analysis import get_num_nodes  # noqa: F401
    from pytato.distributed.nodes import (DistributedRecv,
                                          DistributedSendRefHolder)
    from pytato.transform import CachedWalkMapper

    found = []

    class W(CachedWalkMapper):
        def get_cache_key(self, expr):
            return id(expr)

        def post_visit(self, expr):
            if isinstance(expr, (DistributedRecv, DistributedSendRefHolder)):
                found.append(type(expr).__name__)
    W()(expr)
    return found


def check_wellformed(rank, ctx, partition):
    """Violations of C09's per-rank clauses for *partition* (of *rank*)."""
    bad = []
    parts = partition.parts
    order = list(parts)
    # acyclic part order; "earlier" = transitive needed_pids
    earlier: dict = {}

    def anc(pid, stack=()):
        if pid in stack:
            bad.append(f"cyclic part order through part {pid}")
            return set()
        if pid not in earlier:
            s = set()
            for q in parts[pid].needed_pids:
                if q not in parts:
                    bad.append(f"part {pid} needs unknown part {q}")
                    continue
                s.add(q)
                s |= anc(q, (*stack, pid))
            earlier[pid] = s
        return earlier[pid]
    for pid in order:
        anc(pid)
    # producers
    producers: dict = {}
    for pid, part in parts.items():
        for name in part.output_names:
            producers.setdefault(name, []).append(pid)
    for name in partition.overall_output_names:
        if len(producers.get(name, [])) != 1:
            bad.append(f"overall output '{name}' is produced by "
                       f"{len(producers.get(name, []))} parts")
    for name, pids in producers.items():
        if len(pids) != 1:
            bad.append(f"name '{name}' is an output of parts {pids}")
        if name not in partition.name_to_output:
            bad.append(f"output name '{name}' has no expression")
    # sends: each send of the program sits in exactly one part
    want_sends = sorted(((d, repr(t)) for _dt, d, t in ctx.sends))
    got_sends = []
    for pid, part in parts.items():
        for name, sends in part.name_to_send_nodes.items():
            if name not in part.output_names:
                bad.append(f"part {pid}: sent name '{name}' is not an output "
                           "of the part")
            for s in sends:
                got_sends.append((s.dest_rank, repr(s.comm_tag)))
                if contains_comm_nodes(s.data):
                    bad.append(f"part {pid}: data of send '{name}' contains "
                               "communication nodes")
    if sorted(got_sends) != want_sends:
        bad.append(f"sends in parts {sorted(got_sends)} != sends of the "
                   f"program {want_sends}")
    want_recvs = sorted((s, repr(t)) for s, t in ctx.recvs)
    got_recvs = []
    recv_names: dict = {}
    for pid, part in parts.items():
        for name, rv in part.name_to_recv_node.items():
            got_recvs.append((rv.src_rank, repr(rv.comm_tag)))
            recv_names.setdefault(name, []).append(pid)
    if sorted(set(got_recvs)) != sorted(set(want_recvs)) or \
            len(got_recvs) != len(set(got_recvs)):
        bad.append(f"receives in parts {sorted(got_recvs)} != receives of "
                   f"the program {sorted(set(want_recvs))}")
    for name, pids in recv_names.items():
        if name in producers:
            bad.append(f"received name '{name}' (part {pids}) is also an "
                       f"output of part {producers[name]}")
        if len(pids) != 1:
            bad.append(f"name '{name}' received by parts {pids}")
    # reads
    from pytato.transform import InputGatherer
    user_names = {i.name for i in InputGatherer()(ctx.outputs)
                  if isinstance(i, (pt.Placeholder, pt.SizeParam))}
    for pid, part in parts.items():
        reads = part_reads(partition, part)
        for nm in reads:
            ok = nm in part.user_input_names and nm in user_names
            ok = ok or nm in part.name_to_recv_node
            ok = ok or any(nm in parts[q].name_to_recv_node
                           or nm in parts[q].output_names
                           for q in earlier[pid])
            if not ok:
                bad.append(f"part {pid} reads '{nm}', which is neither a "
                           "user input nor received/produced by this or an "
                           "earlier part")
        declared = set(part.user_input_names) | set(
            part.partition_input_names)
        if reads - declared - set(part.name_to_recv_node):
            bad.append(f"part {pid} reads undeclared names "
                       f"{sorted(reads - declared)}")
        for name in part.output_names:
            if name in partition.name_to_output and contains_comm_nodes(
                    partition.name_to_output[name]):
                bad.append(f"part {pid}: expression of '{name}' contains "
                           "communication nodes")
    return bad


def check_global(partitions):
    """Cross-rank clauses: one-to-one messages, global part DAG acyclic (no
    deadlock)."""
    bad = []
    send_part, recv_part = {}, {}
    for r, p in enumerate(partitions):
        for pid, part in p.parts.items():
            for sends in part.name_to_send_nodes.values():
                for s in sends:
                    k = (r, s.dest_rank, repr(s.comm_tag))
                    if k in send_part:
                        bad.append(f"two sends for {k}")
                    send_part[k] = (r, pid)
            for rv in part.name_to_recv_node.values():
                k = (rv.src_rank, r, repr(rv.comm_tag))
                if k in recv_part:
                    bad.append(f"two receives for {k}")
                recv_part[k] = (r, pid)
    for k in send_part:
        if k not in recv_part:
            bad.append(f"send {k} has no receive")
    for k in recv_part:
        if k not in send_part:
            bad.append(f"receive {k} has no send")
    # global DAG
    needs = {}
    for r, p in enumerate(partitions):
        for pid, part in p.parts.items():
            needs[(r, pid)] = {(r, q) for q in part.needed_pids}
    for k, rp in recv_part.items():
        if k in send_part:
            needs[rp].add(send_part[k])
    state = {}

    def dfs(n):
        if state.get(n) == 1:
            return True
        if state.get(n) == 2:
            return False
        state[n] = 1
        cyc = any(dfs(m) for m in needs.get(n, ()) if m != n)
        state[n] = 2
        return cyc
    if any(dfs(n) for n in list(needs)):
        bad.append("the global part graph (local order + messages) is cyclic: "
                   "execution would deadlock")
    return bad


def check_numbering(sym_parts, num_parts, base_tag, next_tags):
    bad = []
    m = {}
    for sym, num in zip(sym_parts, num_parts, strict=True):
        for pid, part in sym.parts.items():
            npart = num.parts[pid]
            for name, rv in part.name_to_recv_node.items():
                n = npart.name_to_recv_node[name].comm_tag
                m.setdefault(repr(rv.comm_tag), set()).add(n)
            for name, sends in part.name_to_send_nodes.items():
                for s, ns in zip(sends, npart.name_to_send_nodes[name],
                                 strict=True):
                    m.setdefault(repr(s.comm_tag), set()).add(ns.comm_tag)
    for t, ns in m.items():
        if len(ns) != 1:
            bad.append(f"symbolic tag {t} numbered {sorted(ns)} (both ends "
                       "must agree)")
        for n in ns:
            if not isinstance(n, int) or n < base_tag:
                bad.append(f"tag {t} numbered {n!r} below base {base_tag}")
    inv = {}
    for t, ns in m.items():
        for n in ns:
            inv.setdefault(n, set()).add(t)
    for n, ts in inv.items():
        if len(ts) > 1:
            bad.append(f"distinct tags {sorted(ts)} share the integer {n}")
    if len(set(next_tags)) != 1:
        bad.append(f"ranks disagree on next_tag: {next_tags}")
    elif any(n >= next_tags[0] for ns in m.values() for n in ns
             if isinstance(n, int)):
        bad.append("an assigned tag is >= next_tag")
    return bad

# }}}


# {{{ global data flow: what a partition / the unpartitioned graph computes

def _subst_mapper(fn):
    """CopyMapper that replaces placeholders / receives / send holders via
    *fn(kind, node)* (returning an array or None to keep)."""
    from pytato.transform import CopyMapper

    class M(CopyMapper):
        def map_placeholder(self, expr):
            r = fn("placeholder", expr)
            return expr if r is None else r

        def map_distributed_recv(self, expr):
            r = fn("recv", expr)
            if r is None:
                raise ValueError("receive left in place")
            return r

        def map_distributed_send_ref_holder(self, expr):
            return self.rec(expr.passthrough_data)
    return M()


def global_original(outputs_by_rank):
    """rank -> {output name: expression over the ranks' inputs only}: every
    receive is replaced by the data of the matching send on the source rank
    (the unpartitioned global data-flow graph)."""
    from pytato.distributed.nodes import DistributedSendRefHolder
    from pytato.transform import CachedWalkMapper
    sends = {}       # (src, dest, repr(tag)) -> data expression

    for r, outs in enumerate(outputs_by_rank):
        found = []

        class W(CachedWalkMapper):
            def get_cache_key(self, expr):
                return id(expr)

            def post_visit(self, expr):
                if isinstance(expr, DistributedSendRefHolder):
                    found.append(expr.send)
        W()(outs)
        for s in found:
            sends[(r, s.dest_rank, repr(s.comm_tag))] = s.data
    memo = {}

    def inline(r, expr, depth=0):
        if depth > 50:
            raise ValueError("cyclic global data flow")
        key = (r, id(expr))
        if key not in memo:
            def fn(kind, node):
                if kind == "recv":
                    k = (node.src_rank, r, repr(node.comm_tag))
                    return inline(node.src_rank, sends[k], depth + 1)
                return None
            memo[key] = (expr, _subst_mapper(fn)(expr))
        return memo[key][1]
    return [{name: inline(r, outs[name].expr) for name in outs}
            for r, outs in enumerate(outputs_by_rank)]


def global_partitioned(partitions, inputs_by_rank):
    """rank -> {overall output name: expression over the ranks' inputs}: the
    value the parts compute when every received name carries the data the
    matching send posts and every part-output name its expression."""
    send_data = {}
    for r, p in enumerate(partitions):
        for part in p.parts.values():
            for sends in part.name_to_send_nodes.values():
                for s in sends:
                    send_data[(r, s.dest_rank, repr(s.comm_tag))] = s.data
    memo = {}

    def inline(r, expr, depth=0):
        if depth > 80:
            raise ValueError("cyclic partitioned data flow")
        key = (r, id(expr))
        if key in memo:
            return memo[key][1]
        p = partitions[r]
        recvs = {}
        for part in p.parts.values():
            recvs.update(part.name_to_recv_node)

        def fn(kind, node):
            if kind == "recv":
                raise ValueError("communication node inside a part")
            name = node.name
            if name in recvs:
                rv = recvs[name]
                return inline(rv.src_rank,
                              send_data[(rv.src_rank, r, repr(rv.comm_tag))],
                              depth + 1)
            if name in p.name_to_output:
                return inline(r, p.name_to_output[name], depth + 1)
            if name in inputs_by_rank[r]:
                return inputs_by_rank[r][name]
            raise ValueError(f"rank {r}: name '{name}' is defined nowhere")
        memo[key] = (expr, _subst_mapper(fn)(expr))
        return memo[key][1]
    return [{name: inline(r, p.name_to_output[name])
             for name in p.overall_output_names}
            for r, p in enumerate(partitions)]

# }}}


# {{{ seeded random multi-rank programs (acyclic by construction)

def random_messages(seed, size):
    """A global sequence of 0..6 messages [(src, dst, tag)], at most 3
    received per rank (keeps the schedule space of the executor small)."""
    import random
    rnd = random.Random(seed)
    k = rnd.randint(0, 6)
    msgs, recvd = [], {r: 0 for r in range(size)}
    for i in range(k):
        src = rnd.randrange(size)
        dst = rnd.choice([r for r in range(size) if r != src])
        if recvd[dst] >= 3:
            continue
        recvd[dst] += 1
        tag = rnd.choice([("m", i), f"t{i}", i + 1000])
        msgs.append((src, dst, tag))
    return msgs, rnd.random()


def p_random(seed):
    def prog(c):
        import random
        msgs, _ = random_messages(seed, c.size)
        rnd = random.Random(seed * 31 + c.rank)     # rank-local choices
        cur = c.x
        extra = {}
        shared = None
        for i, (src, dst, tag) in enumerate(msgs):
            if src == c.rank:
                mode = rnd.choice(["fresh", "fresh", "same", "stored"])
                if mode == "same" and shared is not None:
                    data = shared                   # one array sent twice
                elif mode == "stored":
                    data = (cur * (i + 2)).tagged(pt.tags.ImplStored())
                else:
                    data = cur * (i + 2) + 1
                shared = data
                c.send(data, dst, tag)
            if dst == c.rank:
                got = c.recv(src, tag)
                mode = rnd.choice(["use", "use", "output", "forward-later"])
                if mode == "output" and f"got{i}" not in extra:
                    extra[f"got{i}"] = got          # received data as output
                cur = cur + got if mode != "forward-later" else cur * 2 + got
                if rnd.random() < 0.3:
                    cur = cur.tagged(pt.tags.ImplStored())
        outs = {"out": cur + 1}
        outs.update(extra)
        return outs
    return prog


def install_random_programs(seeds, sizes=(2, 3, 4)):
    names = []
    for s in seeds:
        nm = f"random{s}"
        PROGRAMS_RANDOM[nm] = p_random(s)
        names.append(nm)
    return names


PROGRAMS_RANDOM: dict = {}

# }}}


def fault_owners(ctxs, size):
    """Ranks owning an endpoint of a message that does not have exactly one
    live send and one live receive (after dead-code elimination)."""
    nsend, nrecv = {}, {}
    for r, c in ctxs.items():
        live_s, live_r = live_ops(c.outputs)
        for dest, tag in live_s:
            k = (r, dest, repr(tag))
            nsend[k] = nsend.get(k, 0) + 1
        for src, tag in live_r:
            k = (src, r, repr(tag))
            nrecv[k] = nrecv.get(k, 0) + 1
    owners = set()
    for k in set(nsend) | set(nrecv):
        if nsend.get(k, 0) != 1:
            owners.add(k[0])
        if nrecv.get(k, 0) != 1:
            owners.add(k[1])
    return owners & set(range(size))
