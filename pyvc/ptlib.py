"""pytato-specific helpers shared by the contracts."""
from __future__ import annotations

import itertools

import numpy as np
import z3

import pytato as pt
from pytato.array import (Array, Axis, DataWrapper, IndexLambda, Placeholder,
                          SizeParam, _get_default_axes)

from .den import ArrayModel, Den, Reduction, as_int
from .sym import EngineFault, OutsideSubset, SymInt, z_of


def dim(h, name):
    """An axis length: a symbolic non-negative integer, or -- in a harness
    switched to ``dim_mode == "param"`` (C16) -- a real affine expression in
    fresh size parameters (forms rotate: p, 2*p + 1, p + q)."""
    if getattr(h, "dim_mode", None) != "param":
        return h.nonneg(name)
    made = h.__dict__.setdefault("_param_dims", [])
    pname = "p_" + "".join(c if c.isalnum() else "_" for c in name)
    p = pt.make_size_param(pname)
    h.assume(z3.Int(f"sp_{pname}") >= 0)
    form = len(made) % 3
    if form == 0 or not made:
        d = p
    elif form == 1:
        d = 2 * p + 1
    else:
        d = p + made[0][0]
    made.append((p, d))
    return d


def mk_placeholder(h, name, rank=None, *, shape=None, dtype=np.float64,
                   tags=frozenset()):
    """A real Placeholder with symbolic non-negative axis lengths."""
    if shape is None:
        shape = tuple(dim(h, f"{name}_n{d}") for d in range(rank))
    return Placeholder(name=name, shape=tuple(shape), dtype=np.dtype(dtype),
                       axes=_get_default_axes(len(shape)), tags=tags)


def _mk_tags():
    from dataclasses import dataclass

    from pytools.tag import Tag, UniqueTag

    @dataclass(frozen=True)
    class VerifTag(Tag):
        k: int = 0

    @dataclass(frozen=True)
    class VerifAxisTag(UniqueTag):
        k: int = 0

    return VerifTag, VerifAxisTag


VerifTag, VerifAxisTag = _mk_tags()


def shape_term(comp, sp_model=None):
    """z3 Int term of a shape component (int, SymInt, or affine array expr)."""
    z = z_of(comp)
    if z is not None:
        return z
    if isinstance(comp, SizeParam):
        return z3.Int(f"sp_{comp.name}")
    if isinstance(comp, IndexLambda) and comp.shape == ():
        arrays = ArrayModel()
        d = Den(arrays, comp.bindings, lambda a: a.shape,
                size_param=size_param_term)
        return as_int(d.rec(comp.expr, {}))
    raise OutsideSubset(f"shape component {type(comp).__name__}")


def size_param_term(arr):
    if isinstance(arr, SizeParam):
        return z3.Int(f"sp_{arr.name}")
    if isinstance(arr, IndexLambda) and arr.shape == () and all(
            size_param_term(b) is not None for b in arr.bindings.values()) \
            and arr.bindings:
        return shape_term(arr)
    return None


def in_box(ivars, shape):
    cs = []
    for i, n in zip(ivars, shape, strict=True):
        cs.append(z3.And(i >= 0, i < shape_term(n)))
    return z3.And(cs) if cs else z3.BoolVal(True)


def contains_array_app(t, arrays: ArrayModel):
    """Does z3 term *t* contain an application of an array function?"""
    fns = set()
    for f, rank in arrays.by_id.values():
        if rank == 0:
            fns.add(f.decl().name())
        else:
            fns.add(f.name())
    seen = set()
    stack = [t]
    while stack:
        x = stack.pop()
        if x.get_id() in seen:
            continue
        seen.add(x.get_id())
        if z3.is_app(x):
            if x.decl().name() in fns and x.decl().kind() == \
                    z3.Z3_OP_UNINTERPRETED:
                return True
            stack.extend(x.children())
    return False


def check_index_lambda(h, il, node, spec, arrays: ArrayModel, *,
                       clause_prefix, value_props=("C02", "C01", "C05"),
                       bounds_props=("C11",), meta_props=("C02",),
                       check_meta=True, spec_shape=None,
                       shape_props=("C02", "C03"), premise=None,
                       cast_identity=False):
    """Obligations for one lowered node.

    :arg il: the IndexLambda returned by the code under verification
    :arg node: the original node (its shape/dtype/axes/tags are the reference)
    :arg spec: callable(ivars) -> z3 term | Reduction  (NumPy's definition)
    """
    if not isinstance(il, IndexLambda):
        h.fail(f"{clause_prefix}.returns-index-lambda",
               f"got {type(il).__name__}", props=meta_props)
        return
    node_shape = h.interp.getattr(node, "shape")
    if spec_shape is not None:
        # the node's own (eagerly inferred) shape is NumPy's
        if len(spec_shape) != len(node_shape):
            h.fail(f"{clause_prefix}.node-shape", "rank differs from NumPy's",
                   props=shape_props)
            return
        for d, (a, b) in enumerate(zip(node_shape, spec_shape, strict=True)):
            h.oblige(f"{clause_prefix}.node-shape[{d}]",
                     shape_term(a) == (b if z3.is_expr(b) else shape_term(b)),
                     props=shape_props)
    # (i) metadata
    if check_meta:
        if len(il.shape) != len(node_shape):
            h.fail(f"{clause_prefix}.shape", "rank differs", props=meta_props)
            return
        for d, (a, b) in enumerate(zip(il.shape, node_shape, strict=True)):
            h.oblige(f"{clause_prefix}.shape[{d}]",
                     shape_term(a) == shape_term(b), props=meta_props)
        h.oblige(f"{clause_prefix}.dtype",
                 z3.BoolVal(il.dtype == h.interp.getattr(node, "dtype")),
                 props=meta_props)
        h.oblige(f"{clause_prefix}.axes", z3.BoolVal(il.axes == node.axes),
                 props=meta_props)
        h.oblige(f"{clause_prefix}.tags", z3.BoolVal(il.tags == node.tags),
                 props=meta_props)
    # (ii)/(iii) value
    ivars = [z3.Int(f"i{d}") for d in range(len(node_shape))]
    box = in_box(ivars, node_shape)
    if premise is not None:
        # documented precondition on the *data* (e.g. index arrays hold valid
        # indices); part of the antecedent of the value obligation only
        vbox = z3.And(box, premise(ivars))
    else:
        vbox = box
    D = Den(arrays, il.bindings, lambda a: h.interp.getattr(a, "shape"),
            size_param=size_param_term, cast_identity=cast_identity)
    env = {f"_{d}": v for d, v in enumerate(ivars)}
    got = D.top(il.expr, env)
    want = spec(ivars)
    oblige_equal_den(h, f"{clause_prefix}.value", vbox, got, want,
                     props=value_props)
    # C11: every affine access within bounds under its guards
    for k, acc in enumerate(D.accesses):
        shp = h.interp.getattr(acc.array, "shape")
        for d, (idx, n) in enumerate(zip(acc.indices, shp, strict=True)):
            if D.is_data_dependent(idx):
                # data-dependent component: caller's responsibility
                continue
            hi = shape_term(n)
            if h.canary == "tight-bounds":
                hi = hi - 1
            h.oblige(f"{clause_prefix}.in-bounds[{acc.name}#{k}.{d}]",
                     z3.Implies(z3.And(box, acc.guard),
                                z3.And(idx >= 0, idx < hi)),
                     props=bounds_props)


def oblige_equal_den(h, clause, box, got, want, *, props):
    if isinstance(want, Reduction) != isinstance(got, Reduction):
        # one side shows the reduction at top level, the other inside a term
        # (e.g. behind a copy): compare as terms
        h.oblige(clause, z3.Implies(box, as_int(got) == as_int(want)),
                 props=props)
        return
    if not isinstance(got, Reduction):
        h.oblige(clause, z3.Implies(box, as_int(got) == as_int(want)),
                 props=props)
        return
    if type(got.op) is not type(want.op) or \
            len(got.bounds) != len(want.bounds):
        h.fail(clause, "reduction operator/arity differs", props=props)
        return
    # match reduction variables: try every bijection, the obligation is the
    # disjunction over bijections of (bounds equal /\ body equal in the box)
    alts = []
    gnames = [n for n, _, _ in got.bounds]
    for perm in itertools.permutations(range(len(want.bounds))):
        subs = []
        conj = []
        for gi, wi in enumerate(perm):
            gn, glo, ghi = got.bounds[gi]
            wn, wlo, whi = want.bounds[wi]
            subs.append((want.rvars[wn], got.rvars[gn]))
            conj.append(z3.And(glo == wlo, ghi == whi))
        wbody = z3.substitute(as_int(want.body), *subs) if subs \
            else as_int(want.body)
        rbox = z3.And([z3.And(lo <= got.rvars[n], got.rvars[n] < hi)
                       for n, lo, hi in got.bounds])
        alts.append(z3.And(*conj, z3.Implies(
            rbox, as_int(got.body) == wbody)))
    del gnames
    h.oblige_any(clause, [z3.Implies(box, a) for a in alts], props=props)
