"""Assumed contract of the part of islpy that pytato's symbolic-shape
reasoning uses (islpy is an external C library: its bodies are out of reach).

An affine expression on a parameter space is modelled as an integer
coefficient vector plus constant (possibly symbolic integers):

  Aff.var_on_domain(space, dt, pos)        unit vector
  a + b, a - b, -a, a * k, k * a           component-wise; a * b needs one
                                           constant factor (isl raises
                                           otherwise, as the model does)
  a.is_cst()                               every parameter coefficient is 0
  a.get_constant_val().is_zero()           constant == 0
  a.ge_set(b)                              {p : a(p) >= b(p)}
  BasicSet.universe / add_constraint / Constraint.ineq_from_names / to_set
  S >= T  (superset)                       exact inclusion over integer points
                                           (isl decides Presburger formulas)

The only non-trivial decision, "non-negative orthant  subseteq  {p: a(p)>=0}",
is answered by the closed form  const >= 0 and every coefficient >= 0; that
closed form is itself proved by z3 against the quantified definition (lemma
obligations in contracts/c16_symshapes.py), not assumed.
"""
from __future__ import annotations

import z3

from .sym import OutsideSubset, SymInt, mk_bool, z_of

_INT = (int, SymInt)


class IslModelError(Exception):
    """What islpy raises as isl.Error."""


class SpaceM:
    def __init__(self, params):
        self.names = list(params)

    def params(self):
        return self

    def get_var_dict(self):
        return {n: ("param", i) for i, n in enumerate(self.names)}


class ValM:
    def __init__(self, v):
        self.v = v

    def is_zero(self):
        return self.v == 0


class AffM:
    def __init__(self, space, coeffs, const):
        self.space = space
        self.coeffs = dict(coeffs)
        self.const = const

    # -- queries
    def is_cst(self):
        return _and([c == 0 for c in self.coeffs.values()])

    def get_constant_val(self):
        return ValM(self.const)

    def ge_set(self, other):
        d = self - other
        return SetM(self.space, [d])

    # -- arithmetic
    def _lift(self, o):
        if isinstance(o, AffM):
            return o
        if type(o) in (int, SymInt) or (isinstance(o, int)
                                         and type(o) is not bool):
            return AffM(self.space, {}, o)
        return None

    def __add__(self, o):
        o = self._lift(o)
        if o is None:
            return NotImplemented
        names = list(dict.fromkeys([*self.coeffs, *o.coeffs]))
        return AffM(self.space,
                    {n: self.coeffs.get(n, 0) + o.coeffs.get(n, 0)
                     for n in names}, self.const + o.const)
    __radd__ = __add__

    def __neg__(self):
        return AffM(self.space, {n: -c for n, c in self.coeffs.items()},
                    -self.const)

    def __sub__(self, o):
        o = self._lift(o)
        if o is None:
            return NotImplemented
        return self + (-o)

    def __rsub__(self, o):
        o = self._lift(o)
        if o is None:
            return NotImplemented
        return o + (-self)

    def __mul__(self, o):
        o = self._lift(o)
        if o is None:
            return NotImplemented
        if bool(o.is_cst()):
            k = o.const
            return AffM(self.space, {n: c * k for n, c in self.coeffs.items()},
                        self.const * k)
        if bool(self.is_cst()):
            return o * self
        raise IslModelError("isl_aff_mul: at least one affine expression "
                            "should be constant")
    __rmul__ = __mul__

    def __floordiv__(self, o):
        raise OutsideSubset("isl floor division (quasi-affine) not modelled")
    __mod__ = __rfloordiv__ = __truediv__ = __floordiv__


def _and(bs):
    r = True
    for b in bs:
        if type(b) is bool:
            if not b:
                return False
        else:
            r = b if r is True else (r & b)
    return r


class ConstraintM:
    def __init__(self, aff):
        self.aff = aff


def _zr(x):
    z = z_of(x)
    if z is None:
        raise OutsideSubset(f"islmodel: coefficient {x!r}")
    return z3.ToReal(z) if z.sort() == z3.IntSort() else z


class SetM:
    """Conjunction of constraints  aff(p) >= 0  over integer parameters."""
    _fresh = 0

    def __init__(self, space, affs):
        self.space = space
        self.affs = list(affs)

    def get_var_dict(self):
        return self.space.get_var_dict()

    def add_constraint(self, c):
        return SetM(self.space, [*self.affs, c.aff])

    def to_set(self):
        return self

    def is_orthant(self):
        """Exactly {p : p_i >= 0 for every parameter}?"""
        want = set(self.space.names)
        seen = set()
        for a in self.affs:
            nz = {n: c for n, c in a.coeffs.items()
                  if not (type(c) is int and c == 0)}
            if len(nz) != 1:
                return False
            (n, c), = nz.items()
            if not (type(c) is int and c == 1 and type(a.const) is int
                    and a.const == 0):
                return False
            seen.add(n)
        return seen == want

    def __ge__(self, other):
        # self  superseteq  other
        if not isinstance(other, SetM):
            return NotImplemented
        if other.is_orthant():
            # closed form of  forall p >= 0: aff(p) >= 0  (lemma-checked)
            out = []
            for a in self.affs:
                out.append(a.const >= 0)
                for n in self.space.names:
                    out.append(a.coeffs.get(n, 0) >= 0)
            return _and(out)
        # general case (not reached by the pinned code, which only ever asks
        # about the orthant): affine Farkas lemma -- {B_i(p) >= 0} is included
        # in {a(p) >= 0} iff a = sum lambda_i B_i + mu with lambda, mu >= 0.
        # Decided over the rationals: exact for the unit-coefficient
        # constraint systems that can be written with ineq_from_names.
        if not other.affs:
            out = []
            for a in self.affs:
                out.append(a.const >= 0)
                for n in self.space.names:
                    out.append(a.coeffs.get(n, 0) == 0)
            return _and(out)
        SetM._fresh += 1
        conj = []
        lams_all = []
        for ai, a in enumerate(self.affs):
            lams = [z3.Real(f"farkas{SetM._fresh}_{ai}_{i}")
                    for i in range(len(other.affs))]
            lams_all += lams
            cs = [lam >= 0 for lam in lams]
            for n in self.space.names:
                lhs = _zr(a.coeffs.get(n, 0))
                rhs = sum((lam * _zr(b.coeffs.get(n, 0))
                           for lam, b in zip(lams, other.affs, strict=True)),
                          z3.RealVal(0))
                cs.append(lhs == rhs)
            rhs0 = sum((lam * _zr(b.const)
                        for lam, b in zip(lams, other.affs, strict=True)),
                       z3.RealVal(0))
            cs.append(_zr(a.const) >= rhs0)
            conj.append(z3.And(cs))
        body = z3.And(conj)
        # multipliers of concrete constraints times symbolic coefficients of
        # *self* only: linear in (lambda, symbols)
        return mk_bool(z3.Exists(lams_all, body))


def install(interp):
    """Replace the islpy entry points pytato uses by the model."""
    import islpy as isl

    def create_from_names(it, args, kwargs):
        return SpaceM(kwargs.get("params", ()))

    def var_on_domain(it, args, kwargs):
        space, _dt, pos = args
        return AffM(space, {space.names[pos]: 1}, 0)

    def universe(it, args, kwargs):
        return SetM(args[0], [])

    def ineq_from_names(it, args, kwargs):
        space, d = args
        coeffs = {n: c for n, c in d.items() if n != 1}
        return ConstraintM(AffM(space, coeffs, d.get(1, 0)))

    interp.intercepts[isl.Space.create_from_names] = create_from_names
    interp.intercepts[isl.Aff.var_on_domain] = var_on_domain
    interp.intercepts[isl.BasicSet.universe] = universe
    interp.intercepts[isl.Constraint.ineq_from_names] = ineq_from_names
