"""Import every contract module (side effect: fills core.REGISTRY)."""
import importlib
import pkgutil

import contracts

for _m in sorted(pkgutil.iter_modules(contracts.__path__), key=lambda m: m.name):
    importlib.import_module(f"contracts.{_m.name}")
