"""Run-time helpers for replay files: a reference evaluator of pytato graphs.

Independent of the verifier: evaluates IndexLambda expressions point by point
over NumPy arrays (Python semantics for // and %), lowering every other node
kind through the real ``to_index_lambda`` of the tree under test.  A replay
file builds a concrete input from the solver's model with the public API,
evaluates it with this evaluator and compares with NumPy.

Exit status of a replay: 1 = the violation reproduces on the real code,
0 = the real code behaves as the contract demands on this input, 2 = no
executable input could be built.
"""
from __future__ import annotations

import math
import operator
import re
import sys

import numpy as np


def M_from(model):
    """Solver model (str->str) -> dict name -> python int where possible."""
    out = {}
    for k, v in (model or {}).items():
        try:
            out[k] = int(str(v).replace("(- ", "-").replace(")", "").replace(
                " ", ""))
        except ValueError:
            out[k] = v
    return out


def mint(M, name, default=0):
    v = M.get(name, default)
    return v if isinstance(v, int) else default


def rnd(shape, dtype=np.float64, seed=0):
    rng = np.random.default_rng(seed + 17 * len(shape))
    n = int(np.prod(shape)) if len(shape) else 1
    # distinct values so that any index mix-up is visible
    vals = rng.permutation(np.arange(1, n + 1)).astype(dtype)
    return vals.reshape(shape)


# {{{ reference evaluator

_C99 = {
    "abs": np.abs, "sqrt": np.sqrt, "sin": np.sin, "cos": np.cos,
    "tan": np.tan, "arcsin": np.arcsin, "arccos": np.arccos,
    "arctan": np.arctan, "sinh": np.sinh, "cosh": np.cosh, "tanh": np.tanh,
    "exp": np.exp, "log": np.log, "log10": np.log10, "isnan": np.isnan,
    "real": np.real, "imag": np.imag, "conj": np.conj, "arctan2": np.arctan2,
    "asin": np.arcsin, "acos": np.arccos, "atan": np.arctan,
    "atan2": np.arctan2, "floor": np.floor, "ceil": np.ceil,
    "fabs": np.abs, "asinh": np.arcsinh, "acosh": np.arccosh,
    "atanh": np.arctanh, "pow": np.power,
}


class PointEval:
    def __init__(self, bindings_values, idx):
        self.b = bindings_values
        self.env = dict(idx)

    def __call__(self, e):
        import pymbolic.primitives as p
        from pytato.scalar_expr import Reduce, TypeCast
        if isinstance(e, (int, float, complex, np.generic, bool)):
            return e
        if isinstance(e, p.Variable):
            if e.name in self.env:
                return self.env[e.name]
            v = self.b[e.name]
            return v[()] if isinstance(v, np.ndarray) else v
        if isinstance(e, p.Subscript):
            idx = tuple(int(self(i)) for i in (
                e.index if isinstance(e.index, tuple) else (e.index,)))
            arr = self.b[e.aggregate.name]
            for i, n in zip(idx, arr.shape, strict=True):
                if not (0 <= i < n):
                    raise IndexError(
                        f"out-of-bounds access {e.aggregate.name}{list(idx)} "
                        f"into shape {arr.shape}")
            return arr[idx]
        if isinstance(e, p.Sum):
            r = self(e.children[0])
            for c in e.children[1:]:
                r = r + self(c)
            return r
        if isinstance(e, p.Product):
            r = self(e.children[0])
            for c in e.children[1:]:
                r = r * self(c)
            return r
        if isinstance(e, p.Quotient):
            return self(e.numerator) / self(e.denominator)
        if isinstance(e, p.FloorDiv):
            return self(e.numerator) // self(e.denominator)
        if isinstance(e, p.Remainder):
            return self(e.numerator) % self(e.denominator)
        if isinstance(e, p.Power):
            return self(e.base) ** self(e.exponent)
        if isinstance(e, p.Comparison):
            ops = {"==": operator.eq, "!=": operator.ne, "<": operator.lt,
                   "<=": operator.le, ">": operator.gt, ">=": operator.ge}
            return ops[e.operator](self(e.left), self(e.right))
        if isinstance(e, p.If):
            return self(e.then) if self(e.condition) else self(e.else_)
        if isinstance(e, p.LogicalAnd):
            return all(bool(self(c)) for c in e.children)
        if isinstance(e, p.LogicalOr):
            return any(bool(self(c)) for c in e.children)
        if isinstance(e, p.LogicalNot):
            return not bool(self(e.child))
        if isinstance(e, p.BitwiseAnd):
            r = self(e.children[0])
            for c in e.children[1:]:
                r = r & self(c)
            return r
        if isinstance(e, p.BitwiseOr):
            r = self(e.children[0])
            for c in e.children[1:]:
                r = r | self(c)
            return r
        if isinstance(e, p.BitwiseXor):
            r = self(e.children[0])
            for c in e.children[1:]:
                r = r ^ self(c)
            return r
        if isinstance(e, p.Min):
            return min(self(c) for c in e.children)
        if isinstance(e, p.Max):
            return max(self(c) for c in e.children)
        if isinstance(e, p.NaN):
            return np.nan
        if isinstance(e, p.Call):
            name = e.function.name
            if name == "pytato.zero":
                # (zeros_like: the value of the argument is irrelevant)
                return 0
            m = re.fullmatch(r"pytato\.c99\.(\w+)", name)
            if not m or m.group(1) not in _C99:
                raise NotImplementedError(f"call {name}")
            return _C99[m.group(1)](*[self(a) for a in e.parameters])
        if isinstance(e, TypeCast):
            return np.dtype(e.dtype).type(self(e.inner_expr))
        if isinstance(e, Reduce):
            from pytato import reductions as R
            names = list(e.bounds)
            ranges = []
            for n in names:
                lo, hi = e.bounds[n]
                ranges.append(range(int(self(lo)), int(self(hi))))
            vals = []
            import itertools
            saved = dict(self.env)
            for combo in itertools.product(*ranges):
                self.env.update(zip(names, combo, strict=True))
                vals.append(self(e.inner_expr))
            self.env = saved
            op = e.op
            if isinstance(op, R.SumReductionOperation):
                return sum(vals) if vals else 0
            if isinstance(op, R.ProductReductionOperation):
                return math.prod(vals) if vals else 1
            if isinstance(op, R.MaxReductionOperation):
                return max(vals)
            if isinstance(op, R.MinReductionOperation):
                return min(vals)
            if isinstance(op, R.AllReductionOperation):
                return all(vals)
            if isinstance(op, R.AnyReductionOperation):
                return any(vals)
            raise NotImplementedError(type(op))
        raise NotImplementedError(f"PointEval: {type(e).__name__}")


def shape_value(shape, data):
    out = []
    for s in shape:
        if isinstance(s, (int, np.integer)):
            out.append(int(s))
        else:
            out.append(int(eval_array(s, data)))
    return tuple(out)


def eval_array(expr, data, _cache=None):
    """Evaluate a pytato array expression on NumPy *data* (name -> array)."""
    import pytato as pt
    from pytato.array import (DataWrapper, IndexLambda, NamedArray,
                              Placeholder, SizeParam)
    from pytato.transform.lower_to_index_lambda import to_index_lambda
    cache = {} if _cache is None else _cache
    key = id(expr)
    if key in cache:
        return cache[key][1]

    def done(v):
        cache[key] = (expr, v)
        return v

    if isinstance(expr, (Placeholder, SizeParam)):
        # (data may also be keyed by object identity: same-named inputs of
        # different ranks in the distributed replays)
        if id(expr) in data:
            return done(np.asarray(data[id(expr)]))
        return done(np.asarray(data[expr.name]))
    if isinstance(expr, DataWrapper):
        return done(np.asarray(expr.data))
    if isinstance(expr, NamedArray) and isinstance(
            expr._container, pt.DictOfNamedArrays):
        return done(eval_array(expr._container._data[expr.name], data, cache))
    il = expr if isinstance(expr, IndexLambda) else to_index_lambda(expr)
    bvals = {n: eval_array(b, data, cache) for n, b in il.bindings.items()}
    shape = shape_value(il.shape, data)
    out = np.empty(shape, dtype=il.dtype)
    for idx in np.ndindex(*shape):
        pe = PointEval(bvals, {f"_{d}": i for d, i in enumerate(idx)})
        out[idx] = pe(il.expr)
    return done(out)

# }}}


def compare(node, data, expect, *, exact=True, what="value"):
    """Evaluate *node* with the reference evaluator, compare with *expect*.
    Exits 1 on mismatch/exception (violation reproduced), 0 otherwise."""
    try:
        got = eval_array(node, data)
    except Exception as e:  # noqa: BLE001
        print(f"REPRODUCED: evaluating the real lowering raised "
              f"{type(e).__name__}: {e}")
        sys.exit(1)
    expect = np.asarray(expect)
    ok = (got.shape == expect.shape
          and (np.array_equal(got, expect, equal_nan=True) if exact
               else np.allclose(got, expect, equal_nan=True)))
    if ok and hasattr(node, "shape"):
        ok = tuple(int(s) for s in shape_value(node.shape, data)) == \
            expect.shape
    if not ok:
        print(f"REPRODUCED: {what} differs from NumPy")
        print("  inputs :", {k: np.asarray(v).tolist() for k, v in data.items()})
        print("  pytato :", got.shape, got.tolist())
        print("  numpy  :", expect.shape, expect.tolist())
        sys.exit(1)
    print("not reproduced: real code agrees with NumPy on this input")
    sys.exit(0)


def reproduced(msg):
    print("REPRODUCED:", msg)
    sys.exit(1)


def not_reproduced(msg=""):
    print("not reproduced:", msg)
    sys.exit(0)
