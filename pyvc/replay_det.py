"""Replay for C17: run the real generator / partitioner natively in child
processes with different PYTHONHASHSEED values and allocation histories and
compare what they print byte for byte."""
from __future__ import annotations

import json
import os
import subprocess
import sys

SEEDS = [str(s) for s in range(8)]


def child(what, arg):
    sys.path.insert(0, "/verif")
    import numpy as np  # noqa: F401

    import pytato as pt
    from pyvc import fakempi
    from pyvc.det_programs import (describe_partition, ordered, prog_outputs,
                                   rank_program)
    if what in ("preprocess", "loopy", "numpy"):
        outs = pt.make_dict_of_named_arrays(prog_outputs(arg))
    if what == "preprocess":
        from pytato.codegen import preprocess
        from pytato.target.loopy import LoopyPyOpenCLTarget
        r = preprocess(outs, LoopyPyOpenCLTarget())
        obs = (list(r.compute_order), list(r.outputs._data),
               list(r.bound_arguments))
    elif what == "loopy":
        bp = pt.generate_loopy(outs)
        from pyvc.det_programs import observe_kernel
        obs = observe_kernel(bp)
    elif what == "numpy":
        from pytato.target.python import (BoundPythonProgram,
                                          NumpyLikePythonTarget)
        from pytato.target.python.numpy_like import generate_numpy_like

        class T(NumpyLikePythonTarget):
            numpy_like_module_name = "numpy"
            numpy_like_module_name_shorthand = "xp"

            def bind_program(self, program, entrypoint, expected_arguments,
                             bound_arguments):
                return BoundPythonProgram(
                    target=self, program=program, entrypoint=entrypoint,
                    expected_arguments=expected_arguments,
                    bound_arguments=bound_arguments)
        bp = generate_numpy_like(outs, T(), "f", False, (), ())
        obs = (bp.program, list(bp.bound_arguments))
    elif what == "union":
        from orderedsets import FrozenOrderedSet as F
        from pytato.distributed.partition import _set_dict_union_mpi
        A = {f"a{i}": F([f"x{i}", f"y{i}"]) for i in range(6)}
        B = {f"b{i}": F([f"z{i}"]) for i in range(6)}
        B["a3"] = F(["w"])
        obs = ordered(_set_dict_union_mpi(A, B, None))
    elif what == "partition":
        nranks, variant = arg.split(";")
        fakempi.install_fake_mpi4py()
        build = rank_program(int(nranks), variant)

        def program(comm):
            sym = pt.find_distributed_partition(comm, build(comm.rank))
            num, nxt = pt.number_distributed_tags(comm, sym, base_tag=100)
            return describe_partition(sym, num, nxt)
        _world, res = fakempi.run_spmd(int(nranks), program)
        obs = res
    else:
        raise ValueError(what)
    print(json.dumps(obs, default=repr, indent=0))


def main(what, arg):
    outs = {}
    for seed in SEEDS:
        env = dict(os.environ, PYTHONHASHSEED=seed)
        p = subprocess.run([sys.executable, "-m", "pyvc.replay_det", "--child",
                            what, arg], env=env, capture_output=True,
                           text=True, cwd="/verif", check=False)
        if p.returncode != 0:
            print("child failed:", p.stderr[-2000:])
            print("not reproduced: child process failed")
            sys.exit(0)
        outs[seed] = p.stdout
    ref = outs[SEEDS[0]]
    for seed, o in outs.items():
        if o != ref:
            a, b = ref.splitlines(), o.splitlines()
            k = next((i for i, (x, y) in enumerate(zip(a, b, strict=False))
                      if x != y), min(len(a), len(b)))
            print(f"REPRODUCED: output of PYTHONHASHSEED={seed} differs from "
                  f"PYTHONHASHSEED={SEEDS[0]} at line {k}:")
            print("  ", a[k] if k < len(a) else "<end>")
            print("  ", b[k] if k < len(b) else "<end>")
            sys.exit(1)
    print(f"not reproduced: identical output for PYTHONHASHSEED in {SEEDS}")
    sys.exit(0)


if __name__ == "__main__":
    if sys.argv[1] == "--child":
        child(sys.argv[2], sys.argv[3])
    else:
        main(sys.argv[1], sys.argv[2])
