"""A deterministic stand-in for mpi4py (absent from the sandbox): just the
collectives pytato's partitioner, tag numbering and executor call.

SPMD programs are simulated without threads by *replay*: every rank's program
is (re-)run from the start; a collective whose other contributions are not
known yet aborts the run (``NeedOthers``), the next round finds them.  All
contributions are kept in the world, so that afterwards a single rank can be
re-run on its own against the recorded contributions of the others.

Assumed MPI contract (what real MPI guarantees and the code relies on):
  allreduce(x, op)  every rank gets  op(..op(op(x0, x1), x2).., x{n-1})  -- the
                    operator is applied in rank order (MPI allows any
                    association/order for a commutative op; see C17 where the
                    operator itself is checked to be order-insensitive)
  bcast(x, root)    every rank gets root's x
  gather(x, root)   root gets [x0, .., x{n-1}], the others None
  barrier()         no data
"""
from __future__ import annotations

import sys
import types


class NeedOthers(Exception):
    pass


class FakeOp:
    def __init__(self, fn, commute):
        self.fn = fn
        self.commute = commute

    @classmethod
    def Create(cls, fn, commute=False):  # noqa: N802
        return cls(fn, commute)

    def Free(self):  # noqa: N802
        pass


def install_fake_mpi4py():
    if "mpi4py" in sys.modules and getattr(
            sys.modules["mpi4py"], "_pyvc_fake", False):
        return
    fake = types.ModuleType("mpi4py")
    fake._pyvc_fake = True
    mpi = types.ModuleType("mpi4py.MPI")
    mpi.Op = FakeOp
    mpi.Comm = object
    fake.MPI = mpi
    sys.modules["mpi4py"] = fake
    sys.modules["mpi4py.MPI"] = mpi


class World:
    def __init__(self, size):
        self.size = size
        self.contrib: dict[int, dict[int, object]] = {}
        self.kinds: dict[int, str] = {}


class Comm:
    def __init__(self, world, rank, *, call=None, record_only_own=False):
        self._w = world
        self.rank = rank
        self.size = world.size
        self._k = 0
        self._call = call or (lambda f, *a: f(*a))
        #: this run's own contributions, in order
        self.made: list[tuple[str, object]] = []
        self._own_only = record_only_own

    def _collect(self, kind, obj):
        k = self._k
        self._k += 1
        self.made.append((kind, obj))
        slot = self._w.contrib.setdefault(k, {})
        if self._own_only:
            slot = dict(slot)
        slot[self.rank] = obj
        self._w.kinds.setdefault(k, kind)
        if len(slot) < self.size:
            raise NeedOthers(k)
        return [slot[r] for r in range(self.size)]

    def allreduce(self, obj, op):
        vals = self._collect("allreduce", obj)
        acc = vals[0]
        for v in vals[1:]:
            acc = self._call(op.fn, acc, v, None)
        return acc

    def bcast(self, obj, root=0):
        return self._collect("bcast", obj)[root]

    def gather(self, obj, root=0):
        vals = self._collect("gather", obj)
        return vals if self.rank == root else None

    def barrier(self):
        self._collect("barrier", None)


class RankRaised:
    """Outcome of a rank whose program raised (it takes no further part in
    collectives)."""

    def __init__(self, exc):
        self.exc = exc


class RankBlocked:
    """Outcome of a rank left waiting in a collective that can never
    complete (a peer raised before reaching it): in real MPI it hangs."""

    def __init__(self, collective):
        self.collective = collective


def run_spmd(size, program, *, call=None, max_rounds=12,
             record_exceptions=False, passthrough=()):
    """Run ``program(comm)`` on every rank; returns (world, results).

    With *record_exceptions* a rank that raises gets a ``RankRaised`` outcome
    and the others go on; those that then wait for it for ever get
    ``RankBlocked``."""
    world = World(size)
    results: dict[int, object] = {}
    waiting: dict[int, object] = {}
    for _round in range(max_rounds):
        progress = False
        for r in range(size):
            if r in results:
                continue
            before = sum(len(v) for v in world.contrib.values())
            try:
                results[r] = program(Comm(world, r, call=call))
                progress = True
            except NeedOthers as e:
                waiting[r] = e.args[0] if e.args else None
                if sum(len(v) for v in world.contrib.values()) != before:
                    progress = True
            except passthrough:
                raise
            except Exception as e:  # noqa: BLE001
                if not record_exceptions:
                    raise
                results[r] = RankRaised(e)
                progress = True
        if len(results) == size:
            return world, [results[r] for r in range(size)]
        if not progress and record_exceptions:
            for r in range(size):
                if r not in results:
                    results[r] = RankBlocked(waiting.get(r))
            return world, [results[r] for r in range(size)]
    raise RuntimeError("SPMD simulation did not converge (mismatched "
                       "collectives between ranks?)")
