"""Real sample nodes (public API) per node class, and single-field variants.
Used by replay files of the graph-structure properties (C04, C13, C20)."""
from __future__ import annotations

import dataclasses

import numpy as np


def _tags():
    return frozenset({ReplayTag(1)})


def _mk_tag():
    from pytools.tag import Tag

    @dataclasses.dataclass(frozen=True)
    class ReplayTag(Tag):
        k: int = 0
    return ReplayTag


ReplayTag = _mk_tag()


def sample_node(cls_name):
    """Yield real nodes of class *cls_name*."""
    import pytato as pt
    from constantdict import constantdict
    a = pt.make_placeholder("a", (4, 3), np.float64)
    b = pt.make_placeholder("b", (4, 3), np.float64)
    i = pt.make_placeholder("i", (4,), np.int64)
    j = pt.make_placeholder("j", (4,), np.int64)
    n = pt.make_size_param("n")
    out = {
        "Placeholder": [a],
        "SizeParam": [n],
        "DataWrapper": [pt.make_data_wrapper(np.zeros((4, 3)))],
        "IndexLambda": [a + b, pt.sum(a, axis=1)],
        "Stack": [pt.stack([a, b], 1)],
        "Concatenate": [pt.concatenate([a, b], 1)],
        "Roll": [pt.roll(a, 2, 1)],
        "AxisPermutation": [pt.transpose(a, (1, 0))],
        "Reshape": [pt.reshape(a, (3, 4), "C"), pt.reshape(a, (2, 6), "C")],
        "BasicIndex": [a[1:3, 0]],
        "AdvancedIndexInContiguousAxes": [a[i, 1:]],
        "AdvancedIndexInNoncontiguousAxes": [
            pt.make_placeholder("c", (4, 3, 4))[i, :, j]],
        "Einsum": [pt.einsum("ij,ij->i", a, b)],
        "DictOfNamedArrays": [pt.make_dict_of_named_arrays({"x": a, "y": b})],
        "NamedArray": [pt.make_dict_of_named_arrays({"x": a, "y": b})["x"]],
    }
    vals = pt.make_placeholder("vals", (5,), np.float64)
    cols = pt.make_placeholder("cols", (5,), np.int32)
    rs = pt.make_placeholder("rs", (5,), np.int32)
    mat = pt.make_csr_matrix((4, 4), vals, cols, rs)
    out["CSRMatmul"] = [pt.sparse_matmul(mat, a)]
    from pytato.distributed.nodes import (make_distributed_recv,
                                          staple_distributed_send)
    out["DistributedRecv"] = [make_distributed_recv(1, "t", (4, 3),
                                                    np.float64)]
    out["DistributedSendRefHolder"] = [staple_distributed_send(a, 1, "t", b)]

    def f(x, y):
        return {"u": x + y, "v": x * y}
    res = pt.trace_call(f, a, b)
    out["NamedCallResult"] = [res["u"]]
    out["Call"] = [res["u"]._container]
    out["FunctionDefinition"] = [res["u"]._container.function]
    return out.get(cls_name, [])


def _alternatives(value):
    """Values of the same type as *value* but different."""
    import pytato as pt
    from constantdict import constantdict

    from pytato.array import Array, Axis, ReductionDescriptor
    if isinstance(value, bool):
        return [not value]
    if isinstance(value, (int, np.integer)):
        return [value + 1]
    if isinstance(value, str):
        return ["F" if value == "C" else value + "_x"]
    if isinstance(value, np.dtype):
        return [np.dtype(np.float32) if value != np.float32
                else np.dtype(np.float64), np.dtype(np.int64)]
    if isinstance(value, frozenset):
        if all(isinstance(v, str) for v in value) and value:
            return [value | {"zz"}]
        return [value | _tags()]
    if isinstance(value, ReductionDescriptor):
        return [ReductionDescriptor(value.tags | _tags())]
    if isinstance(value, tuple) and value and all(
            isinstance(v, Axis) for v in value):
        return [(Axis(value[0].tags | _tags()), *value[1:])]
    if isinstance(value, tuple) and value and all(
            isinstance(v, (int, np.integer)) for v in value):
        return [value[::-1], tuple(v + 1 for v in value)]
    from pytato.distributed.nodes import DistributedSend
    if isinstance(value, DistributedSend):
        return [dataclasses.replace(value, dest_rank=value.dest_rank + 1),
                dataclasses.replace(value, comm_tag=(value.comm_tag, "x")),
                dataclasses.replace(value, data=pt.make_placeholder(
                    "other_payload", value.data.shape, value.data.dtype))]
    if isinstance(value, Array):
        return [pt.make_placeholder("other", value.shape, value.dtype)]
    if isinstance(value, (constantdict, dict)) and value:
        k = next(iter(value))
        alts = _alternatives(value[k])
        return [constantdict({**value, k: alt}) for alt in alts[:1]]
    return []


def variants(base, field):
    """Copies of *base* differing only in (possibly nested) *field*."""
    parts = field.split(".")
    obj = base
    chain = []
    for p in parts[:-1]:
        chain.append((obj, p))
        obj = getattr(obj, p)
    cur = getattr(obj, parts[-1])
    for alt in _alternatives(cur):
        try:
            new = dataclasses.replace(obj, **{parts[-1]: alt})
            for parent, p in reversed(chain):
                new = dataclasses.replace(parent, **{p: new})
        except Exception:  # noqa: BLE001
            continue
        yield new


def symbolic_sample_node(cls_name):
    """Real nodes of class *cls_name* over operands with size-parameter
    (array-valued) axis lengths, where the public API admits them."""
    import pytato as pt
    n = pt.make_size_param("n")
    a = pt.make_placeholder("a", (n, 3), np.float64)
    b = pt.make_placeholder("b", (n, 3), np.float64)
    i = pt.make_placeholder("i", (n,), np.int64)
    j = pt.make_placeholder("j", (n,), np.int64)
    c = pt.make_placeholder("c", (4, 3, 4), np.float64)
    out = {
        "Placeholder": [a],
        "IndexLambda": [a + b],
        "Stack": [pt.stack([a, b], 0)],
        "Concatenate": [pt.concatenate([a, b], 0)],
        "Roll": [pt.roll(a, 2, 1)],
        "AxisPermutation": [pt.transpose(a, (1, 0))],
        "Reshape": [pt.expand_dims(a, 0)],
        "BasicIndex": [a[:, 0]],
        "AdvancedIndexInContiguousAxes": [c[i, 1:]],
        "AdvancedIndexInNoncontiguousAxes": [c[i, :, j]],
        "Einsum": [pt.einsum("ij,ij->i", a, b)],
        "DictOfNamedArrays": [pt.make_dict_of_named_arrays({"x": a, "y": b})],
        "NamedArray": [pt.make_dict_of_named_arrays({"x": a, "y": b})["x"]],
    }
    if cls_name in out:
        return out[cls_name]
    return sample_node(cls_name)


def _children_of_field(node, field):
    """Array-valued entries of (possibly nested) *field* of a real node."""
    from pytato.array import AbstractResultWithNamedArrays, Array
    obj = node
    for part in field.split("."):
        obj = getattr(obj, part)
    vals = []
    if isinstance(obj, (Array, AbstractResultWithNamedArrays)):
        vals = [obj]
    elif isinstance(obj, tuple):
        vals = [v for v in obj if isinstance(v, Array)]
    elif hasattr(obj, "values"):
        vals = [v for v in obj.values() if isinstance(v, Array)]
    return vals


def reach_only_through(mapper_name, cls_name, path):
    """Does the real mapper, run on a real node of *cls_name*, fail to reach an
    array held in the field named by *path*?  Returns a message or None."""
    import re
    import sys
    sys.path.append("/verif/.deps")
    from pyvc import mapperlib as ml
    field = re.sub(r"\[[^\]]*\]$", "", path)
    M = ml.mapper_by_name(mapper_name)
    for node in [*sample_node(cls_name), *symbolic_sample_node(cls_name)]:
        try:
            kids = _children_of_field(node, field)
        except AttributeError:
            continue
        if not kids:
            continue
        seen = []

        class Rec(M):
            def rec(self, expr, *a, **k):
                seen.append(expr)
                return super().rec(expr, *a, **k)

            # the base mappers are abstract in their leaves (no
            # map_placeholder/map_size_param in CombineMapper, ...): a node
            # kind the mapper has no method for ends the descent here; it is
            # not a failure to reach the *direct* child looked for
            def handle_unsupported_array(self, expr, *a, **k):
                return 0 if mapper_name == "TagCountMapper" else None

            if mapper_name == "CachedWalkMapper":
                # (abstract in the base class)
                def get_cache_key(self, expr, *a, **k):
                    return id(expr)

                def get_function_definition_cache_key(self, expr, *a, **k):
                    return id(expr)
        try:
            m = ml._factories().get(mapper_name, lambda C: C())(Rec)
            if mapper_name == "CombineMapper":
                m.combine = lambda *a: None
            res = m(node)
            if mapper_name == "ListOfDirectPredecessorsGetter":
                # no recursion: the returned list *is* what it reaches
                seen.extend(res or [])
        except Exception as e:  # noqa: BLE001
            return (f"{mapper_name} on a real {cls_name} node raised "
                    f"{type(e).__name__}: {e}")
        for kid in kids:
            if not any(s is kid for s in seen):
                return (f"{mapper_name} run on a real {cls_name} node never "
                        f"reaches the array held in '{field}': {kid!r}")
    return None
