"""pyvc -- a small deductive verifier for a subset of Python, built for /verif.

It re-reads the real source of the repository under verification on every run,
executes the functions under contract symbolically (integers are z3 terms,
structure is concrete), turns every contract clause and every live ``assert``
into a verification condition and discharges it with z3.

See /verif/DESIGN.md for what is assumed about Python's semantics.
"""
