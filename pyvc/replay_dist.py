"""Replays for C09/C10: the real partitioner, verifier and tag numbering run
natively on every rank of a listed program (fake MPI by replay)."""
from __future__ import annotations

import sys

import pytato as pt

from . import dist_programs as D
from . import fakempi
from .replaylib import not_reproduced, reproduced


def run_native(prog, size, staple="chain", fault=None, verify=True):
    fakempi.install_fake_mpi4py()
    ctxs, raised = {}, {}

    class Raised(Exception):
        pass

    def program(comm):
        ctx, outs = D.build_rank(prog, comm.rank, size, fault, staple)
        ctxs[comm.rank] = ctx
        try:
            sym = pt.find_distributed_partition(comm, outs)
            if verify:
                pt.verify_distributed_partition(comm, sym)
            num, nxt = pt.number_distributed_tags(comm, sym, base_tag=100)
        except fakempi.NeedOthers:
            raise
        except Exception as e:  # noqa: BLE001
            raised[comm.rank] = e
            raise Raised from e
        return sym, num, nxt
    try:
        _w, res = fakempi.run_spmd(size, program)
    except Raised:
        return ctxs, None, raised
    return ctxs, res, raised


def replay_valid(prog, size, staple):
    ctxs, res, raised = run_native(prog, size, staple)
    if res is None:
        r, e = next(iter(raised.items()))
        reproduced(f"valid program '{prog}' on {size} ranks rejected: rank {r} "
                   f"raised {type(e).__name__}: {e}")
    bad = []
    for r, (sym, _n, _x) in enumerate(res):
        bad += [f"rank {r}: {b}" for b in D.check_wellformed(r, ctxs[r], sym)]
    bad += D.check_global([s for s, _, _ in res])
    bad += D.check_numbering([s for s, _, _ in res], [n for _, n, _ in res],
                             100, [x for _, _, x in res])
    if bad:
        reproduced(f"program '{prog}' on {size} ranks ({staple}): "
                   + "; ".join(bad[:5]))
    not_reproduced("partition well-formed on every rank")


def replay_value(prog, size, staple):
    """C08 value part: evaluate the wired-together partition and the
    unpartitioned global graph with NumPy on random inputs."""
    import numpy as np

    from .replaylib import eval_array
    ctxs, res, raised = run_native(prog, size, staple)
    if res is None:
        not_reproduced(f"partitioning raised: {raised}")
    parts = [s for s, _, _ in res]
    try:
        orig = D.global_original([ctxs[r].outputs for r in range(size)])
        part = D.global_partitioned(parts, [ctxs[r].user_inputs()
                                            for r in range(size)])
    except (ValueError, KeyError) as e:
        reproduced(f"the partition's data flow is not defined: {e}")
    rng = np.random.default_rng(1)
    data = {"n": 3}
    for r in range(size):
        for nm, obj in ctxs[r].user_inputs().items():
            shp = tuple(3 if not isinstance(s_, int) else s_
                        for s_ in obj.shape)
            data[id(obj)] = rng.integers(-4, 5, shp).astype(np.float64)
    for r in range(size):
        for name, e0 in orig[r].items():
            want = eval_array(e0, data)
            got = eval_array(part[r][name], data)
            if got.shape != want.shape or not np.allclose(got, want):
                reproduced(f"program '{prog}' on {size} ranks: output "
                           f"'{name}' of rank {r} computed by the partition "
                           f"is {got.tolist()}, the unpartitioned graph "
                           f"gives {want.tolist()}")
    not_reproduced("partition and unpartitioned graph agree")


def replay_fault(prog, size, staple, kind, rank, index, pair=None):
    if kind == "pair":
        fault = [D.Fault(*f) for f in pair]
    else:
        fault = D.Fault(kind, rank, index) if kind not in (None, "none") \
            else None
    try:
        ctxs, res, raised = run_native(prog, size, staple, fault)
    except D.NotApplicable:
        not_reproduced("fault not applicable")
    if kind == "pair":
        # two faults may cancel (every message has one send and one receive
        # again): then the program is valid, or cyclic
        allctx = {r: D.build_rank(prog, r, size, fault, staple)[0]
                  for r in range(size)}
        owners = D.fault_owners(allctx, size)
        if not owners:
            if res is None:
                from pytools.graph import CycleError

                from pytato.distributed.verify import \
                    PartitionInducedCycleError
                if all(isinstance(e, (CycleError, PartitionInducedCycleError))
                       for e in raised.values()):
                    not_reproduced(f"the faults cancel, the program is "
                                   f"cyclic: {raised}")
                reproduced(f"faults {fault} in '{prog}' on {size} ranks "
                           f"cancel (every message matched) but the program "
                           f"was rejected: {raised}")
            bad = D.check_global([s for s, _, _ in res])
            if bad:
                reproduced(f"faults {fault} in '{prog}' cancel; partition "
                           f"unsound: {bad[:3]}")
            not_reproduced("the faults cancel; partition sound")
    if res is not None:
        reproduced(f"fault {fault} in program '{prog}' on {size} ranks was "
                   "not diagnosed: find_distributed_partition and "
                   "verify_distributed_partition returned on every rank")
    not_reproduced(f"diagnosed: {raised}")


if __name__ == "__main__":
    sys.exit(0)
