"""C17: which native callables reveal the iteration order of a set argument.

``reveals``      the result depends on the order in which the set yields its
                 elements (list(s), tuple(s), sorted(s, key=..) on ties,
                 enumerate, zip, iter, dict.fromkeys, str.join, OrderedSet(s),
                 list.extend, ...): the interpreter hands the callable the
                 elements in the order its adversarial hook picks.
``insensitive``  the result is the same for every order (len, membership,
                 set algebra producing sets, any/all, min/max of totally
                 ordered distinct elements, frozenset/set constructors).
anything else    is logged (``unordered-to-unclassified-native``) and treated
                 as insensitive -- reported as an assumption in the evidence.
"""
from __future__ import annotations

import builtins
import functools
import itertools

REVEALS = {
    builtins.list, builtins.tuple, builtins.sorted, builtins.enumerate,
    builtins.zip, builtins.iter, builtins.next, builtins.reversed,
    builtins.min, builtins.max, builtins.sum, builtins.dict,
    itertools.chain, itertools.chain.from_iterable, itertools.product,
    itertools.islice, itertools.zip_longest, functools.reduce,
}
REVEALING_METHODS = {"extend", "join", "fromkeys", "update", "__or__",
                     "__ior__", "union", "index"}
INSENSITIVE = {
    builtins.len, builtins.frozenset, builtins.set, builtins.bool,
    builtins.any, builtins.all, builtins.isinstance, builtins.repr,
    builtins.hash, builtins.print, builtins.id, builtins.type,
}


#: library callables that only add the elements to a set of their own /
#: return the argument unchanged
INSENSITIVE_BY_NAME = {
    "typing.cast",
    "pytools.UniqueNameGenerator",
    "pytools.UniqueNameGenerator.add_names",
    "pytools.UniqueNameGenerator.__init__",
}


def _ordered_owner(owner):
    if owner is None:
        return False
    tp = owner if isinstance(owner, type) else type(owner)
    if tp in (set, frozenset):
        return False
    return True


def classify(fn, owner):
    try:
        if fn in REVEALS:
            return "reveals"
        if fn in INSENSITIVE:
            return "insensitive"
    except TypeError:
        pass
    name = getattr(fn, "__name__", "")
    qn = f"{getattr(fn, '__module__', '')}.{getattr(fn, '__qualname__', name)}"
    if qn in INSENSITIVE_BY_NAME:
        return "insensitive"
    if owner is not None:
        tp = owner if isinstance(owner, type) else type(owner)
        if tp in (set, frozenset):
            return "insensitive"        # set algebra: result is a set again
        if name in REVEALING_METHODS:
            return "reveals"
        if name in ("__contains__", "get", "__getitem__", "add", "discard"):
            return "insensitive"
    if isinstance(fn, type):
        mod = getattr(fn, "__module__", "") or ""
        if mod.startswith("orderedsets") or fn.__name__ in (
                "OrderedSet", "FrozenOrderedSet", "deque", "OrderedDict"):
            return "reveals"
    return "unclassified"


class OneSiteAtATime:
    """Adversarial order chooser.

    Along one path at most one *dynamic* unordered-iteration site is permuted
    (all permutations of up to ``full_upto`` elements, beyond that rotations,
    the reversal and adjacent transpositions); every other site iterates in the
    reference order.  Reference order: the elements sorted by a
    process-independent key where one exists (str/int/tuples of them), the
    native order otherwise.
    """

    def __init__(self, ctx, *, full_upto=4, enabled=True):
        self.ctx = ctx
        self.full_upto = full_upto
        self.enabled = enabled
        self.used = False
        self.sites = 0
        self.permuted = None

    @staticmethod
    def reference(xs):
        try:
            return sorted(xs, key=_stable_key)
        except TypeError:
            return xs

    def candidates(self, n):
        ident = tuple(range(n))
        if n <= self.full_upto:
            perms = [p for p in itertools.permutations(range(n)) if p != ident]
        else:
            perms = set()
            for r in range(1, n):
                perms.add(tuple((i + r) % n for i in range(n)))
            perms.add(tuple(reversed(range(n))))
            for i in range(n - 1):
                p = list(range(n))
                p[i], p[i + 1] = p[i + 1], p[i]
                perms.add(tuple(p))
            perms.discard(ident)
            perms = sorted(perms)
        return perms

    def __call__(self, xs):
        xs = self.reference(xs)
        self.sites += 1
        if not self.enabled or self.used or len(xs) < 2:
            return xs
        if not self.ctx.branch(_t(self.ctx.fresh_bool("permute_here"))):
            return xs
        self.used = True
        cands = self.candidates(len(xs))
        pick = len(cands) - 1
        for i in range(len(cands) - 1):
            if self.ctx.branch(_t(self.ctx.fresh_bool(f"perm{i}"))):
                pick = i
                break
        self.permuted = (self.sites, cands[pick])
        return [xs[i] for i in cands[pick]]


def _t(b):
    return getattr(b, "t", b)


def _stable_key(x):
    if isinstance(x, (str, int, float)):
        return (0, type(x).__name__, x)
    if isinstance(x, tuple):
        return (1, "tuple", tuple(_stable_key(y) for y in x))
    name = getattr(x, "name", None)
    if isinstance(name, str):
        return (2, type(x).__name__, name)
    raise TypeError
