"""Replay of C14 obligations: generate the NumPy-like program for a concrete
instance of the program family, run it with real NumPy, compare with the
reference evaluator."""
import sys

sys.path.append("/verif/.deps")

import numpy as np


class ConcreteH:
    """Stands in for the harness: symbols take the model's values."""
    canary = None

    def __init__(self, M):
        self.M = M

    def _v(self, name, default):
        v = self.M.get(name, default)
        return v if isinstance(v, int) else default

    def nonneg(self, name):
        return max(0, self._v(name, 3))

    def int(self, name):
        return self._v(name, 1)


def replay_program(which, model):
    import pytato as pt
    from contracts.c14_numpy import programs
    from pytato.target.python import BoundPythonProgram, NumpyLikePythonTarget
    from pytato.target.python.numpy_like import generate_numpy_like
    from pytato.transform import InputGatherer
    from pyvc.replaylib import M_from, eval_array, rnd

    class T(NumpyLikePythonTarget):
        numpy_like_module_name = "numpy"
        numpy_like_module_name_shorthand = "xp"

        def bind_program(self, program, entrypoint, expected_arguments,
                         bound_arguments):
            return BoundPythonProgram(
                target=self, program=program, entrypoint=entrypoint,
                expected_arguments=expected_arguments,
                bound_arguments=bound_arguments)
    M = M_from(model)
    try:
        E = programs("thorough")[which](ConcreteH(M))
    except Exception as e:  # noqa: BLE001
        print("no executable input: building the program raised", repr(e))
        sys.exit(2)
    data = {}
    for k, inp in enumerate(InputGatherer()(E)):
        if getattr(inp, "name", None):
            shp = tuple(int(s) for s in inp.shape)
            if inp.dtype.kind in "iu":
                data[inp.name] = np.zeros(shp, inp.dtype)
            else:
                data[inp.name] = rnd(shp, seed=k) + 1
    try:
        prg = generate_numpy_like(E, T(), "f", False, (), ())
    except NotImplementedError as e:
        print("not reproduced: not supported", e)
        sys.exit(0)
    try:
        got = prg(**data)
    except Exception as e:  # noqa: BLE001
        print(f"REPRODUCED: the generated code raised {type(e).__name__}: {e}\n"
              f"{prg.program}")
        sys.exit(1)
    want = eval_array(E, data)
    got = np.asarray(got)
    if got.shape != want.shape or not np.allclose(got, want, equal_nan=True):
        print(f"REPRODUCED: program '{which}' with {M}: generated code gives "
              f"{got.shape} {got.tolist()} but the program means "
              f"{want.shape} {want.tolist()}\n{prg.program}")
        sys.exit(1)
    print("not reproduced: generated code agrees on this input")
    sys.exit(0)
