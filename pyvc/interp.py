"""AST interpreter for the functions under verification.

The interpreter executes the *source text* of repository functions (re-read
from disk on every run, located through the running function objects'
``__code__``) on host Python values.  Scalars may be symbolic
(:mod:`pyvc.sym`); branching on them forks the path.  Calls are treated in one
of four declared ways (recorded in ``Interp.call_log``):

``interp``    repository function: its source is interpreted in turn
``contract``  a modular contract stands in for the callee (handler registered
              in ``Interp.contracts``)
``intercept`` a built-in whose behaviour on symbolic values is modelled here
              (``isinstance``, ``int``, ``len`` ...)
``native``    anything else (library code, class constructors) runs natively
              on the host values; symbolic values protect themselves (see sym)

What extraction drops: annotations (never evaluated), nothing else.
Unsupported syntax raises OutsideSubset -> the obligation is undecided.
"""
from __future__ import annotations

import ast
import builtins
import functools
import hashlib
import inspect
import linecache
import operator
import sys
import types

from .sym import (EngineFault, EngineSignal, OutsideSubset, SymBool, SymInt,
                  is_sym, mk_bool, sym_not)

sys.setrecursionlimit(20000)


# {{{ source index

class StepBudgetExceeded(Exception):
    """The code under contract ran longer than the contract allows."""


class SourceIndex:
    """filename -> parsed module, function object -> ast node."""

    def __init__(self):
        self.files: dict[str, tuple[str, ast.Module, dict]] = {}
        self.used: dict[tuple, dict] = {}    # (file, lineno, name) -> info

    def _index(self, key, text):
        tree = ast.parse(text)
        table: dict = {}
        for node in ast.walk(tree):
            if isinstance(node, (ast.FunctionDef, ast.Lambda)):
                name = getattr(node, "name", "<lambda>")
                lines = {node.lineno}
                for d in getattr(node, "decorator_list", []):
                    lines.add(d.lineno)
                for ln in lines:
                    table.setdefault((ln, name), []).append(node)
        self.files[key] = (text, tree, table)
        return self.files[key]

    def lookup(self, fn: types.FunctionType):
        code = fn.__code__
        fname = code.co_filename
        g = fn.__globals__
        if "_MODULE_SOURCE_CODE" in g and fname.startswith("<"):
            key = "aug:" + hashlib.sha256(
                g["_MODULE_SOURCE_CODE"].encode()).hexdigest()[:16]
            if key not in self.files:
                self._index(key, g["_MODULE_SOURCE_CODE"])
            shown = fname
        else:
            key = fname
            if key not in self.files:
                try:
                    with open(fname, encoding="utf-8") as f:
                        text = f.read()
                except OSError as e:
                    raise OutsideSubset(f"no source for {fn!r}: {e}") from None
                self._index(key, text)
            shown = fname
        text, _tree, table = self.files[key]
        cands = table.get((code.co_firstlineno, code.co_name), [])
        if len(cands) != 1:
            raise OutsideSubset(
                f"cannot locate source of {fn.__qualname__} "
                f"({shown}:{code.co_firstlineno}; {len(cands)} candidates)")
        node = cands[0]
        ukey = (shown, node.lineno, fn.__qualname__)
        if ukey not in self.used:
            seg = ast.get_source_segment(text, node) or ""
            self.used[ukey] = dict(
                function=f"{fn.__module__}:{fn.__qualname__}",
                file=shown, line=node.lineno,
                end_line=getattr(node, "end_lineno", node.lineno),
                sha256=hashlib.sha256(seg.encode()).hexdigest()[:16])
        return node


SOURCES = SourceIndex()

# }}}


# {{{ environments / interpreted closures

class _Unbound:
    def __repr__(self):
        return "<unbound>"


UNBOUND = _Unbound()


def _assigned_names(node) -> tuple[set, set, set]:
    """Names bound in a function body (not descending into nested scopes)."""
    local: set = set()
    nonloc: set = set()
    glob: set = set()

    def targets(t):
        if isinstance(t, ast.Name):
            local.add(t.id)
        elif isinstance(t, (ast.Tuple, ast.List)):
            for e in t.elts:
                targets(e)
        elif isinstance(t, ast.Starred):
            targets(t.value)

    def visit(n):
        for ch in ast.iter_child_nodes(n):
            if isinstance(ch, (ast.FunctionDef, ast.AsyncFunctionDef,
                               ast.ClassDef)):
                local.add(ch.name)
                continue
            if isinstance(ch, (ast.Lambda, ast.ListComp, ast.SetComp,
                               ast.DictComp, ast.GeneratorExp)):
                # own scope (walrus is not used in the repository)
                continue
            if isinstance(ch, ast.Assign):
                for t in ch.targets:
                    targets(t)
            elif isinstance(ch, (ast.AugAssign, ast.AnnAssign)):
                targets(ch.target)
            elif isinstance(ch, (ast.For, ast.AsyncFor)):
                targets(ch.target)
            elif isinstance(ch, (ast.With, ast.AsyncWith)):
                for it in ch.items:
                    if it.optional_vars is not None:
                        targets(it.optional_vars)
            elif isinstance(ch, ast.ExceptHandler):
                if ch.name:
                    local.add(ch.name)
            elif isinstance(ch, (ast.Import, ast.ImportFrom)):
                for a in ch.names:
                    local.add((a.asname or a.name).split(".")[0])
            elif isinstance(ch, ast.Nonlocal):
                nonloc.update(ch.names)
            elif isinstance(ch, ast.Global):
                glob.update(ch.names)
            elif isinstance(ch, ast.NamedExpr):
                targets(ch.target)
            elif isinstance(ch, ast.Delete):
                for t in ch.targets:
                    targets(t)
            visit(ch)

    if isinstance(node, ast.Lambda):
        pass
    else:
        for st in node.body:
            # wrap in a dummy to reuse visit on statements
            visit(ast.Module(body=[st], type_ignores=[]))
    a = node.args
    for arg in [*a.posonlyargs, *a.args, *a.kwonlyargs]:
        local.add(arg.arg)
    if a.vararg:
        local.add(a.vararg.arg)
    if a.kwarg:
        local.add(a.kwarg.arg)
    return local - nonloc - glob, nonloc, glob


_SCOPE_CACHE: dict[int, tuple] = {}


def _scope_of(node):
    k = id(node)
    if k not in _SCOPE_CACHE:
        _SCOPE_CACHE[k] = (_assigned_names(node), node)
    return _SCOPE_CACHE[k][0]


class Env:
    __slots__ = ("vars", "parent", "globals", "locals", "nonlocals",
                 "globals_decl", "fn_class", "self_obj", "fn_name")

    def __init__(self, parent, globals_, locals_=frozenset(),
                 nonlocals=frozenset(), globals_decl=frozenset()):
        self.vars: dict = {}
        self.parent = parent
        self.globals = globals_
        self.locals = locals_
        self.nonlocals = nonlocals
        self.globals_decl = globals_decl
        self.fn_class = None
        self.self_obj = UNBOUND
        self.fn_name = "?"

    def lookup(self, name):
        e = self
        while e is not None:
            if name in e.vars:
                return e.vars[name]
            if name in e.locals and name not in e.globals_decl:
                raise UnboundLocalError(
                    f"cannot access local variable '{name}' where it is not "
                    "associated with a value")
            e = e.parent
        g = self.globals
        if name in g:
            return g[name]
        b = g.get("__builtins__", builtins)
        if isinstance(b, dict):
            if name in b:
                return b[name]
        elif hasattr(b, name):
            return getattr(b, name)
        raise NameError(f"name '{name}' is not defined")

    def store(self, name, value):
        if name in self.globals_decl:
            self.globals[name] = value
            return
        if name in self.nonlocals:
            e = self.parent
            while e is not None:
                if name in e.vars or name in e.locals:
                    e.vars[name] = value
                    return
                e = e.parent
            raise EngineFault(f"nonlocal {name} not found")
        self.vars[name] = value

    def delete(self, name):
        if name in self.vars:
            del self.vars[name]
        else:
            raise NameError(name)


class InterpFunction:
    """A closure created by interpreting ``def``/``lambda``."""

    def __init__(self, interp, node, env, defaults, kwdefaults, qualname):
        self.interp = interp
        self.node = node
        self.env = env
        self.defaults = defaults
        self.kwdefaults = kwdefaults
        self.__name__ = getattr(node, "name", "<lambda>")
        self.__qualname__ = qualname
        self.__module__ = env.globals.get("__name__", "?")
        self.__doc__ = None
        self.__wrapped_interp__ = True

    def __call__(self, *args, **kwargs):
        return self.interp.call_interp_function(self, args, kwargs)

    def __get__(self, obj, objtype=None):
        if obj is None:
            return self
        return types.MethodType(self, obj)

    def __repr__(self):
        return f"<interpreted {self.__qualname__}>"

# }}}


class _Return(Exception):
    pass


_NORMAL, _BREAK, _CONTINUE, _RETURN = 0, 1, 2, 3

_BINOPS = {
    ast.Add: operator.add, ast.Sub: operator.sub, ast.Mult: operator.mul,
    ast.Div: operator.truediv, ast.FloorDiv: operator.floordiv,
    ast.Mod: operator.mod, ast.Pow: operator.pow,
    ast.LShift: operator.lshift, ast.RShift: operator.rshift,
    ast.BitOr: operator.or_, ast.BitXor: operator.xor,
    ast.BitAnd: operator.and_, ast.MatMult: operator.matmul,
}
_IBINOPS = {
    ast.Add: operator.iadd, ast.Sub: operator.isub, ast.Mult: operator.imul,
    ast.Div: operator.itruediv, ast.FloorDiv: operator.ifloordiv,
    ast.Mod: operator.imod, ast.Pow: operator.ipow,
    ast.LShift: operator.ilshift, ast.RShift: operator.irshift,
    ast.BitOr: operator.ior, ast.BitXor: operator.ixor,
    ast.BitAnd: operator.iand, ast.MatMult: operator.imatmul,
}
_CMPOPS = {
    ast.Eq: operator.eq, ast.NotEq: operator.ne, ast.Lt: operator.lt,
    ast.LtE: operator.le, ast.Gt: operator.gt, ast.GtE: operator.ge,
}


def _is_memoize_wrapper(fn):
    w = getattr(fn, "__wrapped__", None)
    return (w is not None and isinstance(w, types.FunctionType)
            and getattr(fn, "__module__", "").startswith(("pytools",
                                                          "functools")))


class Interp:
    def __init__(self, *, repo_prefixes=("pytato",), trace_calls=False):
        self.repo_prefixes = tuple(repo_prefixes)
        # callable -> handler(interp, fn, args, kwargs) ; modular contracts
        self.contracts: dict = {}
        # callable -> handler(interp, args, kwargs) ; modelled built-ins
        self.intercepts: dict = dict(_default_intercepts())
        # (type, attrname) -> handler(interp, obj)
        self.attr_hooks: dict = {}
        self.call_log: dict[tuple[str, str], int] = {}
        self.depth = 0
        self.max_depth = 400
        self.native_only: set = set()      # repo functions forced native
        self.on_assert = None              # hook(interp, cond, node, env)
        self.is_hook = None                # hook(a, b) -> value or NotImplemented
        # C17: hook(list of the elements of a set/frozenset) -> list in the
        # iteration order to be used (adversarial hash order)
        self.unordered_hook = None
        #: optional budget of interpreted calls (contracts about termination)
        self.max_steps = None
        self.steps = 0
        self.max_steps = 5_000_000

    # {{{ classification of callables

    def is_repo_function(self, fn):
        if not isinstance(fn, types.FunctionType):
            return False
        mod = getattr(fn, "__module__", None) or ""
        fname = fn.__code__.co_filename
        g = fn.__globals__
        if fname.startswith("<"):
            if "_MODULE_SOURCE_CODE" not in g:
                return False
            # code generated by the repository itself (dataclass augmentation)
            # or from repository source (pymbolic's optimize_mapper): the
            # generated text is kept in _MODULE_SOURCE_CODE and is what runs
            if fname.startswith("<dataclass augmentation") and "cls" in g:
                return True
            if "modified by optimize_mapper" in fname:
                return any(f"/{p}/" in fname for p in self.repo_prefixes)
            return mod.startswith(self.repo_prefixes)
        return mod.startswith(self.repo_prefixes)

    def _log(self, kind, what):
        k = (kind, what)
        self.call_log[k] = self.call_log.get(k, 0) + 1

    # }}}

    # {{{ calling

    def call(self, fn, args=(), kwargs=None):
        kwargs = kwargs or {}
        self.steps += 1
        if self.max_steps is not None and self.steps > self.max_steps:
            raise StepBudgetExceeded(
                f"more than {self.max_steps} calls interpreted")
        # bound methods
        if isinstance(fn, types.MethodType):
            f = fn.__func__
            if f in self.contracts:
                self._log("contract", _qn(f))
                return self.contracts[f](self, f, (fn.__self__, *args), kwargs)
            if isinstance(f, InterpFunction):
                return self.call_interp_function(
                    f, (fn.__self__, *args), kwargs)
            if _is_memoize_wrapper(f) and self.is_repo_function(f.__wrapped__):
                f = f.__wrapped__
            if self.is_repo_function(f) and f not in self.native_only:
                return self.call_repo_function(
                    f, (fn.__self__, *args), kwargs)
            h = self.intercepts.get(f)
            if h is not None:
                self._log("intercept", _qn(f))
                return h(self, (fn.__self__, *args), kwargs)
            self._log("native", _qn(f))
            if self.unordered_hook is not None:
                args = self._order_args(f, fn.__self__, args)
            return fn(*args, **kwargs)
        if isinstance(fn, InterpFunction):
            return self.call_interp_function(fn, args, kwargs)
        try:
            h = self.contracts.get(fn)
        except TypeError:
            h = None
        if h is not None:
            self._log("contract", _qn(fn))
            return h(self, fn, args, kwargs)
        try:
            h = self.intercepts.get(fn)
        except TypeError:
            h = None
        if h is not None:
            self._log("intercept", _qn(fn))
            return h(self, args, kwargs)
        if isinstance(fn, types.FunctionType):
            f = fn
            if _is_memoize_wrapper(f) and self.is_repo_function(f.__wrapped__):
                f = f.__wrapped__
            if self.is_repo_function(f) and f not in self.native_only:
                return self.call_repo_function(f, args, kwargs)
        if isinstance(fn, functools.partial):
            return self.call(fn.func, (*fn.args, *args),
                             {**fn.keywords, **kwargs})
        # repository classes whose __init__ is written in the repository:
        # allocate natively, interpret __init__ (so that what the
        # constructor does -- e.g. creating name generators -- is seen)
        if isinstance(fn, type) and (fn.__module__ or "").startswith(
                self.repo_prefixes) and fn.__new__ is object.__new__ \
                and type(fn).__call__ is type.__call__:
            init = inspect.getattr_static(fn, "__init__", None)
            if isinstance(init, types.FunctionType) and \
                    self.is_repo_function(init) and \
                    init not in self.native_only:
                obj = object.__new__(fn)
                if init in self.contracts:
                    self._log("contract", _qn(init))
                    self.contracts[init](self, init, (obj, *args), kwargs)
                else:
                    self.call_repo_function(init, (obj, *args), kwargs)
                return obj
        # callable instances whose __call__ is a modelled library function
        if not isinstance(fn, (type, types.BuiltinFunctionType)):
            try:
                cf0 = inspect.getattr_static(type(fn), "__call__")
            except AttributeError:
                cf0 = None
            if cf0 is not None:
                try:
                    hh = self.intercepts.get(cf0)
                except TypeError:
                    hh = None
                if hh is not None:
                    self._log("intercept", _qn(cf0))
                    return hh(self, (fn, *args), kwargs)
        # instances of repository classes with a __call__ written in the repo
        tp = type(fn)
        if not isinstance(fn, type) and (tp.__module__ or "").startswith(
                self.repo_prefixes):
            try:
                cf = inspect.getattr_static(tp, "__call__")
            except AttributeError:
                cf = None
            if isinstance(cf, types.FunctionType) and (
                    cf in self.contracts or self.is_repo_function(cf)):
                return self.call(types.MethodType(cf, fn), args, kwargs)
        self._log("native", _qn(fn))
        if self.unordered_hook is not None:
            args = self._order_args(fn, getattr(fn, "__self__", None), args)
        return fn(*args, **kwargs)

    def _order_args(self, fn, owner, args):
        """Native consumers that reveal the iteration order of a set get the
        elements in the order the hook picks."""
        if not any(type(a) in (set, frozenset) and len(a) > 1 for a in args):
            return args
        from . import unordered
        kind = unordered.classify(fn, owner)
        if kind == "reveals":
            return tuple(self.unordered_hook(list(a))
                         if type(a) in (set, frozenset) and len(a) > 1 else a
                         for a in args)
        if kind != "insensitive":
            self._log("unordered-to-unclassified-native", _qn(fn))
        return args

    def trampolines(self, classes=None):
        """Context manager: while active, the methods that repository classes
        *define* and that are reached through a native dispatcher (pymbolic's
        ``Mapper.__call__``/``rec`` -> ``map_*``) re-enter the interpreter
        instead of running natively.  Needed where what happens *inside*
        those methods matters (C17: set iteration order)."""
        import contextlib
        import sys as _sys

        interp = self

        if classes is None:
            import pymbolic.mapper as pm
            classes = []
            for mname, mod in list(_sys.modules.items()):
                if not mname.startswith(self.repo_prefixes) or mod is None:
                    continue
                for obj in list(vars(mod).values()):
                    if isinstance(obj, type) and obj.__module__ == mname \
                            and issubclass(obj, pm.Mapper):
                        classes.append(obj)

        @contextlib.contextmanager
        def cm():
            saved = []
            try:
                for cls in classes:
                    for name, f in list(vars(cls).items()):
                        if not isinstance(f, types.FunctionType) or \
                                not interp.is_repo_function(f) or \
                                f in interp.native_only:
                            continue

                        def tramp(*a, __f=f, **k):
                            return interp.call_repo_function(__f, a, k)
                        tramp.__name__ = f.__name__
                        tramp.__qualname__ = f.__qualname__
                        tramp.__wrapped_repo__ = f
                        saved.append((cls, name, f))
                        setattr(cls, name, tramp)
                yield
            finally:
                for cls, name, f in saved:
                    setattr(cls, name, f)
        return cm()

    def exec_region(self, fn, start_marker, end_marker, variables):
        """Interpret the top-level statements of repository function *fn*
        that lie between two marker comments of its source (a mechanically
        extracted region, re-read on every run), starting from *variables*.
        Returns the environment's variables afterwards."""
        node = SOURCES.lookup(fn)
        src_lines = inspect.getsource(inspect.getmodule(fn)).splitlines()
        lo = hi = None
        for ln in range(node.lineno, node.end_lineno + 1):
            text = src_lines[ln - 1]
            if lo is None and start_marker in text:
                lo = ln
            elif lo is not None and end_marker in text:
                hi = ln
                break
        if lo is None or hi is None:
            # the region can no longer be located: undecided, not a fault
            raise OutsideSubset(f"region markers not found in {_qn(fn)}")
        stmts = [st for st in node.body if lo < st.lineno and
                 st.end_lineno < hi]
        if not stmts:
            raise EngineFault(f"empty region in {_qn(fn)}")
        self._log("interp-region", f"{_qn(fn)}[{lo}:{hi}]")
        (locs, nonloc, glob) = _scope_of(node)
        env = Env(None, fn.__globals__, frozenset(), nonloc, glob)
        env.fn_name = fn.__qualname__
        env.vars.update(variables)
        r = self.exec_block(stmts, env)
        if r[0] == _RETURN:
            raise EngineFault("extracted region returns")
        return env.vars

    def call_repo_function(self, fn, args, kwargs):
        node = SOURCES.lookup(fn)
        self._log("interp", _qn(fn))
        (locs, nonloc, glob) = _scope_of(node)
        env = Env(None, fn.__globals__, locs, nonloc, glob)
        env.fn_name = fn.__qualname__
        # closure cells of real functions (rare: module-level closures)
        if fn.__closure__:
            for name, cell in zip(fn.__code__.co_freevars, fn.__closure__,
                                  strict=True):
                try:
                    env.vars[name] = cell.cell_contents
                except ValueError:
                    pass
        env.fn_class = _defining_class(fn)
        self._bind(node.args, env, args, kwargs, fn.__defaults__ or (),
                   fn.__kwdefaults__ or {}, fn.__qualname__)
        if args:
            env.self_obj = args[0]
        return self._run_body(node, env)

    def call_interp_function(self, f: InterpFunction, args, kwargs):
        node = f.node
        (locs, nonloc, glob) = _scope_of(node)
        env = Env(f.env, f.env.globals, locs, nonloc, glob)
        env.fn_name = f.__qualname__
        env.fn_class = f.env.fn_class
        env.self_obj = f.env.self_obj
        self._bind(node.args, env, args, kwargs, f.defaults, f.kwdefaults,
                   f.__qualname__)
        return self._run_body(node, env)

    def _run_body(self, node, env):
        self.depth += 1
        if self.depth > self.max_depth:
            self.depth -= 1
            raise OutsideSubset("interpreter recursion too deep")
        try:
            if isinstance(node, ast.Lambda):
                return self.eval(node.body, env)
            st, val = self.exec_block(node.body, env)
            return val if st == _RETURN else None
        finally:
            self.depth -= 1

    def _bind(self, a: ast.arguments, env, args, kwargs, defaults, kwdefaults,
              name):
        pos = [*a.posonlyargs, *a.args]
        npos = len(pos)
        args = tuple(args)
        kwargs = dict(kwargs)
        for i, p in enumerate(pos):
            if i < len(args):
                if p.arg in kwargs and p not in a.posonlyargs:
                    raise TypeError(
                        f"{name}() got multiple values for argument '{p.arg}'")
                env.vars[p.arg] = args[i]
            elif p.arg in kwargs and p not in a.posonlyargs:
                env.vars[p.arg] = kwargs.pop(p.arg)
            else:
                di = i - (npos - len(defaults))
                if di >= 0:
                    env.vars[p.arg] = defaults[di]
                else:
                    raise TypeError(
                        f"{name}() missing required positional argument: "
                        f"'{p.arg}'")
        if len(args) > npos:
            if a.vararg:
                env.vars[a.vararg.arg] = tuple(args[npos:])
            else:
                raise TypeError(
                    f"{name}() takes {npos} positional arguments but "
                    f"{len(args)} were given")
        elif a.vararg:
            env.vars[a.vararg.arg] = ()
        for p in a.kwonlyargs:
            if p.arg in kwargs:
                env.vars[p.arg] = kwargs.pop(p.arg)
            elif p.arg in kwdefaults:
                env.vars[p.arg] = kwdefaults[p.arg]
            else:
                raise TypeError(
                    f"{name}() missing required keyword-only argument: "
                    f"'{p.arg}'")
        if a.kwarg:
            env.vars[a.kwarg.arg] = kwargs
        elif kwargs:
            raise TypeError(
                f"{name}() got an unexpected keyword argument "
                f"'{next(iter(kwargs))}'")

    # }}}

    # {{{ attribute access

    def getattr(self, obj, name):
        tp = type(obj)
        hook = self.attr_hooks.get((tp, name))
        if hook is not None:
            return hook(self, obj)
        if isinstance(obj, (type, types.ModuleType)) or is_sym(obj):
            return getattr(obj, name)
        try:
            static = inspect.getattr_static(tp, name)
        except AttributeError:
            return getattr(obj, name)
        if isinstance(static, property):
            fget = static.fget
            if fget in self.contracts:
                self._log("contract", _qn(fget))
                return self.contracts[fget](self, fget, (obj,), {})
            if fget is not None and self.is_repo_function(fget) \
                    and fget not in self.native_only:
                return self.call_repo_function(fget, (obj,), {})
            return getattr(obj, name)
        if isinstance(static, functools.cached_property):
            d = getattr(obj, "__dict__", None)
            if d is not None and name in d:
                return d[name]
            f = static.func
            if f in self.contracts:
                self._log("contract", _qn(f))
                return self.contracts[f](self, f, (obj,), {})
            if self.is_repo_function(f) and f not in self.native_only:
                val = self.call_repo_function(f, (obj,), {})
                if d is not None:
                    d[name] = val
                return val
            return getattr(obj, name)
        return getattr(obj, name)

    # }}}

    # {{{ statements

    def exec_block(self, stmts, env):
        for st in stmts:
            r = self.exec_stmt(st, env)
            if r[0] != _NORMAL:
                return r
        return (_NORMAL, None)

    def exec_stmt(self, st, env):
        self.steps += 1
        if self.steps > self.max_steps:
            raise OutsideSubset("interpreter step limit")
        m = getattr(self, "s_" + type(st).__name__, None)
        if m is None:
            raise OutsideSubset(f"statement {type(st).__name__} "
                                f"(line {st.lineno}) not supported")
        return m(st, env) or (_NORMAL, None)

    def s_Expr(self, st, env):
        self.eval(st.value, env)

    def s_Pass(self, st, env):
        pass

    def s_Return(self, st, env):
        return (_RETURN, None if st.value is None else self.eval(st.value, env))

    def s_Break(self, st, env):
        return (_BREAK, None)

    def s_Continue(self, st, env):
        return (_CONTINUE, None)

    def s_Global(self, st, env):
        pass

    def s_Nonlocal(self, st, env):
        pass

    def s_Assign(self, st, env):
        v = self.eval(st.value, env)
        for t in st.targets:
            self.assign(t, v, env)

    def s_AnnAssign(self, st, env):
        if st.value is not None:
            self.assign(st.target, self.eval(st.value, env), env)

    def s_AugAssign(self, st, env):
        t = st.target
        op = _IBINOPS[type(st.op)]
        if isinstance(t, ast.Name):
            cur = env.lookup(t.id)
            env.store(t.id, op(cur, self.eval(st.value, env)))
        elif isinstance(t, ast.Attribute):
            o = self.eval(t.value, env)
            cur = self.getattr(o, t.attr)
            setattr(o, t.attr, op(cur, self.eval(st.value, env)))
        elif isinstance(t, ast.Subscript):
            o = self.eval(t.value, env)
            k = self.eval_slice(t.slice, env)
            cur = self.subscript(o, k)
            o[k] = op(cur, self.eval(st.value, env))
        else:
            raise OutsideSubset("augmented assignment target")

    def assign(self, t, v, env):
        if isinstance(t, ast.Name):
            env.store(t.id, v)
        elif isinstance(t, (ast.Tuple, ast.List)):
            star = [i for i, e in enumerate(t.elts)
                    if isinstance(e, ast.Starred)]
            vals = list(v)
            if star:
                i = star[0]
                after = len(t.elts) - i - 1
                if len(vals) < len(t.elts) - 1:
                    raise ValueError("not enough values to unpack")
                mid = vals[i:len(vals) - after]
                vals = [*vals[:i], mid, *vals[len(vals) - after:]]
                elts = [e.value if isinstance(e, ast.Starred) else e
                        for e in t.elts]
            else:
                elts = t.elts
                if len(vals) != len(elts):
                    raise ValueError(
                        "too many values to unpack" if len(vals) > len(elts)
                        else "not enough values to unpack "
                        f"(expected {len(elts)}, got {len(vals)})")
            for e, x in zip(elts, vals, strict=True):
                self.assign(e, x, env)
        elif isinstance(t, ast.Attribute):
            setattr(self.eval(t.value, env), t.attr, v)
        elif isinstance(t, ast.Subscript):
            o = self.eval(t.value, env)
            o[self.eval_slice(t.slice, env)] = v
        else:
            raise OutsideSubset(f"assignment target {type(t).__name__}")

    def s_Delete(self, st, env):
        for t in st.targets:
            if isinstance(t, ast.Name):
                env.delete(t.id)
            elif isinstance(t, ast.Subscript):
                o = self.eval(t.value, env)
                del o[self.eval_slice(t.slice, env)]
            elif isinstance(t, ast.Attribute):
                delattr(self.eval(t.value, env), t.attr)
            else:
                raise OutsideSubset("del target")

    def s_If(self, st, env):
        if self.truth(self.eval(st.test, env)):
            return self.exec_block(st.body, env)
        return self.exec_block(st.orelse, env)

    def s_While(self, st, env):
        n = 0
        while self.truth(self.eval(st.test, env)):
            n += 1
            if n > 100000:
                raise OutsideSubset("while loop did not terminate "
                                    "(100000 iterations)")
            r = self.exec_block(st.body, env)
            if r[0] == _BREAK:
                return (_NORMAL, None)
            if r[0] == _RETURN:
                return r
        return self.exec_block(st.orelse, env)

    def s_For(self, st, env):
        it = self.iterate(self.eval(st.iter, env))
        for x in it:
            self.assign(st.target, x, env)
            r = self.exec_block(st.body, env)
            if r[0] == _BREAK:
                return (_NORMAL, None)
            if r[0] == _RETURN:
                return r
        return self.exec_block(st.orelse, env)

    def s_Assert(self, st, env):
        cond = self.eval(st.test, env)
        if self.on_assert is not None:
            r = self.on_assert(self, cond, st, env)
            if r is not NotImplemented:
                return None
        if not self.truth(cond):
            if st.msg is not None:
                raise AssertionError(self.eval(st.msg, env))
            raise AssertionError
        return None

    def s_Raise(self, st, env):
        if st.exc is None:
            raise  # re-raise active exception  # noqa: PLE0704
        exc = self.eval(st.exc, env)
        if isinstance(exc, type):
            exc = self.call(exc)
        if st.cause is not None:
            cause = self.eval(st.cause, env)
            raise exc from cause
        raise exc

    def s_Try(self, st, env):
        try:
            try:
                r = self.exec_block(st.body, env)
            except EngineSignal:
                raise
            except BaseException as e:  # noqa: BLE001
                for h in st.handlers:
                    if h.type is None:
                        match = True
                    else:
                        tp = self.eval(h.type, env)
                        match = isinstance(e, tp)
                    if match:
                        if h.name:
                            env.store(h.name, e)
                        try:
                            r = self.exec_block(h.body, env)
                        finally:
                            if h.name and h.name in env.vars:
                                del env.vars[h.name]
                        break
                else:
                    raise
            else:
                if r[0] == _NORMAL and st.orelse:
                    r = self.exec_block(st.orelse, env)
        finally:
            if st.finalbody:
                fr = self.exec_block(st.finalbody, env)
                if fr[0] != _NORMAL:
                    return fr  # noqa: B012
        return r

    def s_With(self, st, env):
        if len(st.items) != 1:
            raise OutsideSubset("multi-item with")
        it = st.items[0]
        mgr = self.eval(it.context_expr, env)
        val = mgr.__enter__()
        if it.optional_vars is not None:
            self.assign(it.optional_vars, val, env)
        try:
            r = self.exec_block(st.body, env)
        except EngineSignal:
            raise
        except BaseException as e:  # noqa: BLE001
            if not mgr.__exit__(type(e), e, e.__traceback__):
                raise
            return (_NORMAL, None)
        mgr.__exit__(None, None, None)
        return r

    def s_Import(self, st, env):
        for a in st.names:
            mod = __import__(a.name)
            if a.asname:
                for part in a.name.split(".")[1:]:
                    mod = getattr(mod, part)
                env.store(a.asname, mod)
            else:
                env.store(a.name.split(".")[0], mod)

    def s_ImportFrom(self, st, env):
        import importlib
        pkg = env.globals.get("__package__") or \
            env.globals.get("__name__", "").rpartition(".")[0]
        name = ("." * st.level) + (st.module or "")
        mod = importlib.import_module(name, pkg) if st.level else \
            importlib.import_module(st.module)
        for a in st.names:
            if a.name == "*":
                raise OutsideSubset("import *")
            try:
                v = getattr(mod, a.name)
            except AttributeError:
                v = importlib.import_module(f"{mod.__name__}.{a.name}")
            env.store(a.asname or a.name, v)

    def s_FunctionDef(self, st, env):
        f = self.make_function(st, env)
        for d in reversed(st.decorator_list):
            f = self.call(self.eval(d, env), (f,))
        env.store(st.name, f)

    def s_ClassDef(self, st, env):
        # local record types without behaviour (TypedDict / NamedTuple style:
        # annotations and constants only) are created natively
        for b in st.body:
            if isinstance(b, (ast.FunctionDef, ast.AsyncFunctionDef,
                              ast.ClassDef)):
                raise OutsideSubset(
                    f"local class with methods (line {st.lineno})")
        ns = dict(env.globals)
        e = env
        chain = []
        while e is not None:
            chain.append(e)
            e = e.parent
        for e in reversed(chain):
            ns.update(e.vars)
        mod = ast.Module(body=[st], type_ignores=[])
        ast.fix_missing_locations(mod)
        if not any(isinstance(b, ast.ImportFrom) and b.module == "__future__"
                   for b in []):
            # annotations in the repository are strings (PEP 563)
            src = ast.Module(body=[ast.ImportFrom(
                module="__future__", names=[ast.alias(name="annotations")],
                level=0), st], type_ignores=[])
            ast.fix_missing_locations(src)
            mod = src
        exec(compile(mod, f"<local class {st.name}>", "exec"), ns)  # noqa: S102
        env.store(st.name, ns[st.name])

    def make_function(self, node, env):
        a = node.args
        defaults = tuple(self.eval(d, env) for d in a.defaults)
        kwdefaults = {p.arg: self.eval(d, env)
                      for p, d in zip(a.kwonlyargs, a.kw_defaults, strict=True)
                      if d is not None}
        qn = f"{env.fn_name}.<locals>.{getattr(node, 'name', '<lambda>')}"
        return InterpFunction(self, node, env, defaults, kwdefaults, qn)

    # }}}

    # {{{ expressions

    def truth(self, v):
        if v is True or v is False:
            return v
        return bool(v)

    def iterate(self, v):
        if type(v) in (set, frozenset) and len(v) > 1:
            self._log("unordered-iteration", type(v).__name__)
            if self.unordered_hook is not None:
                return iter(self.unordered_hook(list(v)))
        return iter(v)

    def eval(self, e, env):
        m = getattr(self, "e_" + type(e).__name__, None)
        if m is None:
            raise OutsideSubset(f"expression {type(e).__name__} "
                                f"(line {getattr(e, 'lineno', '?')}) "
                                "not supported")
        return m(e, env)

    def e_Constant(self, e, env):
        return e.value

    def e_Name(self, e, env):
        return env.lookup(e.id)

    def e_Tuple(self, e, env):
        return tuple(self._elts(e.elts, env))

    def e_List(self, e, env):
        return list(self._elts(e.elts, env))

    def e_Set(self, e, env):
        return set(self._elts(e.elts, env))

    def _elts(self, elts, env):
        out = []
        for x in elts:
            if isinstance(x, ast.Starred):
                out.extend(self.iterate(self.eval(x.value, env)))
            else:
                out.append(self.eval(x, env))
        return out

    def e_Dict(self, e, env):
        d = {}
        for k, v in zip(e.keys, e.values, strict=True):
            if k is None:
                d.update(self.eval(v, env))
            else:
                kk = self.eval(k, env)
                d[kk] = self.eval(v, env)
        return d

    def e_BoolOp(self, e, env):
        is_and = isinstance(e.op, ast.And)
        v = None
        for x in e.values:
            v = self.eval(x, env)
            t = self.truth(v)
            if is_and and not t:
                return v
            if (not is_and) and t:
                return v
        return v

    def e_UnaryOp(self, e, env):
        v = self.eval(e.operand, env)
        if isinstance(e.op, ast.Not):
            if type(v) is SymBool:
                return sym_not(v)
            return not self.truth(v)
        if isinstance(e.op, ast.USub):
            return -v
        if isinstance(e.op, ast.UAdd):
            return +v
        return ~v

    def e_BinOp(self, e, env):
        a = self.eval(e.left, env)
        b = self.eval(e.right, env)
        return self.binop(type(e.op), a, b)

    def binop(self, optype, a, b):
        # user-defined operators of repository classes: interpret them
        name = _DUNDER.get(optype)
        if name is not None and not is_sym(a):
            r = self._repo_dunder(a, b, name[0])
            if r is not NotImplemented:
                return r
            if not is_sym(b):
                r = self._repo_dunder(b, a, name[1], only_if_defined=True)
                if r is not NotImplemented:
                    return r
        elif name is not None and not is_sym(b):
            # symbolic scalar (op) repository object: int.__op__ declines,
            # Python then calls the object's reflected operator
            r = self._repo_dunder(b, a, name[1], only_if_defined=True)
            if r is not NotImplemented:
                return r
        return _BINOPS[optype](a, b)

    def _repo_dunder(self, a, b, name, only_if_defined=False):
        tp = type(a)
        if tp.__module__ is None or not tp.__module__.startswith(
                self.repo_prefixes):
            return NotImplemented
        try:
            f = inspect.getattr_static(tp, name)
        except AttributeError:
            return NotImplemented
        if isinstance(f, types.FunctionType) and self.is_repo_function(f):
            return self.call(types.MethodType(f, a), (b,))
        return NotImplemented

    def e_Compare(self, e, env):
        left = self.eval(e.left, env)
        result = True
        for op, rn in zip(e.ops, e.comparators, strict=True):
            right = self.eval(rn, env)
            r = self.compare(type(op), left, right)
            if len(e.ops) == 1:
                return r
            if not self.truth(r):
                return r
            result = r
            left = right
        return result

    def compare(self, optype, a, b):
        if optype is ast.Is or optype is ast.IsNot:
            r = NotImplemented
            if self.is_hook is not None:
                r = self.is_hook(a, b)
            if r is NotImplemented:
                r = a is b
            return r if optype is ast.Is else sym_not(r)
        if optype is ast.In or optype is ast.NotIn:
            r = self.contains(b, a)
            return r if optype is ast.In else sym_not(r)
        if optype in (ast.Eq, ast.NotEq) and not is_sym(a):
            r = self._repo_dunder(a, b, "__eq__")
            if r is not NotImplemented:
                return r if optype is ast.Eq else sym_not(r)
        return _CMPOPS[optype](a, b)

    def contains(self, container, item):
        if isinstance(container, (tuple, list)) and any(
                is_sym(x) for x in container) or is_sym(item) and isinstance(
                    container, (tuple, list, range)):
            if isinstance(container, range):
                raise OutsideSubset("symbolic membership in range")
            acc = False
            for x in container:
                r = (x is item) or (x == item)
                if r is True:
                    return True
                if r is False or r is NotImplemented:
                    continue
                acc = r if acc is False else (acc | r)
            return acc
        return item in container

    def e_IfExp(self, e, env):
        if self.truth(self.eval(e.test, env)):
            return self.eval(e.body, env)
        return self.eval(e.orelse, env)

    def e_Lambda(self, e, env):
        return self.make_function(e, env)

    def e_Attribute(self, e, env):
        return self.getattr(self.eval(e.value, env), e.attr)

    def eval_slice(self, s, env):
        if isinstance(s, ast.Slice):
            return slice(
                None if s.lower is None else self.eval(s.lower, env),
                None if s.upper is None else self.eval(s.upper, env),
                None if s.step is None else self.eval(s.step, env))
        if isinstance(s, ast.Tuple):
            out = []
            for x in s.elts:
                if isinstance(x, ast.Starred):
                    out.extend(self.iterate(self.eval(x.value, env)))
                else:
                    out.append(self.eval_slice(x, env))
            return tuple(out)
        return self.eval(s, env)

    def e_Subscript(self, e, env):
        o = self.eval(e.value, env)
        k = self.eval_slice(e.slice, env)
        return self.subscript(o, k)

    def subscript(self, o, k):
        tp = type(o)
        if tp.__module__ and tp.__module__.startswith(self.repo_prefixes):
            try:
                f = inspect.getattr_static(tp, "__getitem__")
            except AttributeError:
                f = None
            if f is not None:
                if _is_memoize_wrapper(f):
                    # memoised __getitem__ (DictOfNamedArrays, Call): keep the
                    # memoisation (identity of results matters), run natively
                    return o[k]
                if isinstance(f, types.FunctionType) and \
                        self.is_repo_function(f):
                    return self.call(types.MethodType(f, o), (k,))
        return o[k]

    def e_Slice(self, e, env):
        return self.eval_slice(e, env)

    def e_Starred(self, e, env):
        raise OutsideSubset("starred expression outside call/display")

    def e_JoinedStr(self, e, env):
        parts = []
        for v in e.values:
            if isinstance(v, ast.Constant):
                parts.append(v.value)
            else:
                parts.append(self.e_FormattedValue(v, env))
        return "".join(parts)

    def e_FormattedValue(self, e, env):
        v = self.eval(e.value, env)
        if e.conversion == ord("r"):
            v = repr(v)
        elif e.conversion == ord("s"):
            v = str(v)
        elif e.conversion == ord("a"):
            v = ascii(v)
        spec = ""
        if e.format_spec is not None:
            spec = self.eval(e.format_spec, env)
        try:
            return format(v, spec)
        except EngineSignal:
            raise
        except Exception:  # noqa: BLE001
            # formatting of repository objects may call their __repr__
            # natively; message text is never semantically relevant here
            return f"<unformattable {type(v).__name__}>"

    def e_NamedExpr(self, e, env):
        v = self.eval(e.value, env)
        self.assign(e.target, v, env)
        return v

    def e_Call(self, e, env):
        f = e.func
        # zero-argument super()
        if isinstance(f, ast.Name) and f.id == "super" and not e.args \
                and not e.keywords:
            try:
                sup = env.lookup("super")
            except NameError:
                sup = builtins.super
            if sup is builtins.super:
                ee = env
                while ee is not None and ee.fn_class is None:
                    ee = ee.parent
                if ee is None or ee.self_obj is UNBOUND:
                    raise OutsideSubset("super() outside a method")
                return builtins.super(ee.fn_class, ee.self_obj)
        fn = self.eval(f, env)
        args = []
        for a in e.args:
            if isinstance(a, ast.Starred):
                args.extend(self.iterate(self.eval(a.value, env)))
            else:
                args.append(self.eval(a, env))
        kwargs = {}
        for k in e.keywords:
            if k.arg is None:
                kwargs.update(self.eval(k.value, env))
            else:
                kwargs[k.arg] = self.eval(k.value, env)
        return self.call(fn, args, kwargs)

    # comprehensions: real generators so that laziness (any/all short-circuit)
    # is preserved
    def _comp_iter(self, gens, env, leaf):
        def rec(i, cenv):
            if i == len(gens):
                yield leaf(cenv)
                return
            g = gens[i]
            src = self.eval(g.iter, cenv if i else env)
            for x in self.iterate(src):
                self.assign(g.target, x, cenv)
                ok = True
                for c in g.ifs:
                    if not self.truth(self.eval(c, cenv)):
                        ok = False
                        break
                if ok:
                    yield from rec(i + 1, cenv)
        cenv = Env(env, env.globals)
        cenv.fn_name = env.fn_name
        return rec(0, cenv)

    def e_ListComp(self, e, env):
        return list(self._comp_iter(e.generators, env,
                                    lambda ce: self.eval(e.elt, ce)))

    def e_SetComp(self, e, env):
        return set(self._comp_iter(e.generators, env,
                                   lambda ce: self.eval(e.elt, ce)))

    def e_GeneratorExp(self, e, env):
        return self._comp_iter(e.generators, env,
                               lambda ce: self.eval(e.elt, ce))

    def e_DictComp(self, e, env):
        d = {}
        for k, v in self._comp_iter(
                e.generators, env,
                lambda ce: (self.eval(e.key, ce), self.eval(e.value, ce))):
            d[k] = v
        return d

    # }}}


_DUNDER = {
    ast.Add: ("__add__", "__radd__"), ast.Sub: ("__sub__", "__rsub__"),
    ast.Mult: ("__mul__", "__rmul__"),
    ast.Div: ("__truediv__", "__rtruediv__"),
    ast.FloorDiv: ("__floordiv__", "__rfloordiv__"),
    ast.Mod: ("__mod__", "__rmod__"), ast.Pow: ("__pow__", "__rpow__"),
    ast.MatMult: ("__matmul__", "__rmatmul__"),
    ast.BitAnd: ("__and__", "__rand__"), ast.BitOr: ("__or__", "__ror__"),
    ast.BitXor: ("__xor__", "__rxor__"),
}


def _qn(fn):
    mod = getattr(fn, "__module__", None) or ""
    qn = getattr(fn, "__qualname__", None) or getattr(fn, "__name__", None) \
        or type(fn).__name__
    return f"{mod}:{qn}" if mod else qn


def _defining_class(fn):
    qn = fn.__qualname__
    if "." not in qn or "<locals>" in qn:
        g = fn.__globals__
        if "_MODULE_SOURCE_CODE" in g and "cls" in g:
            return g["cls"]
        return None
    mod = sys.modules.get(fn.__module__) if fn.__module__ else None
    if mod is None:
        # classes rebuilt by optimize_mapper live in their exec namespace
        obj = fn.__globals__.get(qn.split(".")[0])
        return obj if isinstance(obj, type) and len(qn.split(".")) == 2 \
            else None
    obj = mod
    try:
        for part in qn.split(".")[:-1]:
            obj = getattr(obj, part)
    except AttributeError:
        return None
    return obj if isinstance(obj, type) else None


# {{{ modelled built-ins

def _i_isinstance(interp, args, kwargs):
    obj, cls = args
    return isinstance(obj, cls)


def _i_int(interp, args, kwargs):
    if len(args) == 1 and not kwargs and type(args[0]) is SymInt:
        return args[0]
    if len(args) == 1 and not kwargs and type(args[0]) is SymBool:
        from .sym import mk_int, z_of
        return mk_int(z_of(args[0]))
    return int(*args, **kwargs)


def _i_bool(interp, args, kwargs):
    if len(args) == 1 and type(args[0]) is SymBool:
        return args[0]
    if len(args) == 1 and type(args[0]) is SymInt:
        return mk_bool(args[0].t != 0)
    return bool(*args)


def _i_id(interp, args, kwargs):
    return id(args[0])


def _i_sorted(interp, args, kwargs):
    key = kwargs.get("key")
    if key is not None and not callable(key):
        raise TypeError("key must be callable")
    return sorted(*args, **kwargs)


def _i_type(interp, args, kwargs):
    if len(args) == 1:
        o = args[0]
        if type(o) is SymInt:
            return int
        if type(o) is SymBool:
            return bool
        return type(o)
    return type(*args, **kwargs)


def _i_getattr(interp, args, kwargs):
    if len(args) == 2:
        return interp.getattr(args[0], args[1])
    try:
        return interp.getattr(args[0], args[1])
    except AttributeError:
        return args[2]


def _i_hasattr(interp, args, kwargs):
    try:
        interp.getattr(args[0], args[1])
    except AttributeError:
        return False
    return True


def _i_map(interp, args, kwargs):
    f, *its = args
    its = [interp.iterate(i) for i in its]
    return (interp.call(f, xs) for xs in zip(*its, strict=False))


def _i_filter(interp, args, kwargs):
    f, it = args
    it = interp.iterate(it)
    if f is None:
        return (x for x in it if interp.truth(x))
    return (x for x in it if interp.truth(interp.call(f, (x,))))


def _i_filterfalse(interp, args, kwargs):
    f, it = args
    it = interp.iterate(it)
    if f is None:
        return (x for x in it if not interp.truth(x))
    return (x for x in it if not interp.truth(interp.call(f, (x,))))


def _i_reduce(interp, args, kwargs):
    f, it, *init = args
    it = interp.iterate(it)
    if init:
        acc = init[0]
    else:
        try:
            acc = next(it)
        except StopIteration:
            raise TypeError(
                "reduce() of empty iterable with no initial value") from None
    for x in it:
        acc = interp.call(f, (acc, x))
    return acc


def _mk_binop_intercept(optype):
    def h(interp, args, kwargs):
        return interp.binop(optype, *args)
    return h


def _default_intercepts():
    import itertools
    d = {
        builtins.isinstance: _i_isinstance,
        builtins.int: _i_int,
        builtins.bool: _i_bool,
        builtins.id: _i_id,
        builtins.type: _i_type,
        builtins.getattr: _i_getattr,
        builtins.hasattr: _i_hasattr,
        builtins.map: _i_map,
        builtins.filter: _i_filter,
        itertools.filterfalse: _i_filterfalse,
        functools.reduce: _i_reduce,
    }
    for optype, f in _BINOPS.items():
        d[f] = _mk_binop_intercept(optype)
    d.update(_numpy_intercepts())
    return d


def _numpy_intercepts():
    """numpy entry points that would otherwise try to concretise a symbolic
    integer.  Modelled: a symbolic int behaves like a Python int (weak scalar,
    value-independent promotion under NEP 50); numpy scalar-type constructors
    applied to it are the identity (assumption: no wrap-around / rounding)."""
    import numpy as np

    def desym(x):
        if type(x) is SymInt:
            return 0
        if type(x) is SymBool:
            return False
        return x

    def mk_desym(fn):
        def h(interp, args, kwargs):
            return fn(*[desym(a) for a in args],
                      **{k: desym(v) for k, v in kwargs.items()})
        return h

    def mk_ctor(tp):
        def h(interp, args, kwargs):
            if len(args) == 1 and not kwargs and is_sym(args[0]):
                return args[0]
            return tp(*args, **kwargs)
        return h

    def isnan(interp, args, kwargs):
        if len(args) == 1 and is_sym(args[0]):
            return False
        return np.isnan(*args, **kwargs)

    def isscalar(interp, args, kwargs):
        if is_sym(args[0]):
            return True
        return np.isscalar(*args, **kwargs)

    d = {np.result_type: mk_desym(np.result_type),
         np.promote_types: mk_desym(np.promote_types),
         np.isnan: isnan, np.isscalar: isscalar}
    for tp in (np.int8, np.int16, np.int32, np.int64, np.uint8, np.uint16,
               np.uint32, np.uint64, np.intp, np.float32, np.float64,
               np.complex64, np.complex128):
        d[tp] = mk_ctor(tp)
    return d

# }}}


def clear_linecache():
    linecache.clearcache()
