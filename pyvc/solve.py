"""Discharge of verification conditions: z3 first, cvc5 (CLI) for unknowns."""
from __future__ import annotations

import os
import shutil
import subprocess
import tempfile
import time

import z3

PROVED, REFUTED, UNKNOWN = "proved", "refuted", "unknown"


def _model_dict(m: z3.ModelRef, limit=60):
    out = {}
    for d in m.decls()[:limit]:
        try:
            v = m[d]
            if d.arity() == 0:
                out[d.name()] = str(v)
            else:
                out[d.name()] = str(v).replace("\n", " ")[:400]
        except z3.Z3Exception:  # pragma: no cover
            pass
    return out


def smt2_of(pc, formula):
    s = z3.Solver()
    for c in pc:
        s.add(c)
    s.add(z3.Not(formula))
    return s.to_smt2()


def check_valid(pc, formula, *, timeout_ms=60000, want_smt2=False,
                use_cvc5=True):
    """Is ``/\\ pc => formula`` valid?  Returns a dict with status, backend,
    seconds, model (for refutations)."""
    t0 = time.time()
    f = z3.simplify(formula) if z3.is_expr(formula) else z3.BoolVal(bool(formula))
    res = dict(status=UNKNOWN, backend="z3-" + z3.get_version_string(),
               seconds=0.0, model=None, reason=None)
    if z3.is_true(f):
        res.update(status=PROVED, backend="simplifier", seconds=time.time() - t0)
        if want_smt2:
            res["smt2"] = smt2_of(pc, formula)
        return res
    s = z3.Solver()
    s.set("timeout", timeout_ms)
    for c in pc:
        s.add(c)
    s.add(z3.Not(f))
    r = s.check()
    if r == z3.unsat:
        res["status"] = PROVED
    elif r == z3.sat:
        res["status"] = REFUTED
        res["model"] = _model_dict(s.model())
        res["_z3model"] = s.model()
    else:
        res["reason"] = s.reason_unknown()
        # second attempt: different arithmetic configuration
        s2 = z3.SolverFor("QF_UFNIA") if False else z3.Solver()
        s2.set("timeout", timeout_ms)
        s2.set("smt.arith.solver", 2)
        for c in pc:
            s2.add(c)
        s2.add(z3.Not(f))
        r2 = s2.check()
        if r2 == z3.unsat:
            res.update(status=PROVED, backend=res["backend"] + "(arith.solver=2)")
        elif r2 == z3.sat:
            res.update(status=REFUTED, model=_model_dict(s2.model()),
                       backend=res["backend"] + "(arith.solver=2)")
            res["_z3model"] = s2.model()
        elif use_cvc5:
            c5 = cvc5_check(s.to_smt2(), timeout_ms)
            if c5 == "unsat":
                res.update(status=PROVED, backend="cvc5-cli")
            elif c5 == "sat":
                # no model extraction through the CLI: keep it undecided rather
                # than report a refutation without a counterexample
                res.update(status=UNKNOWN, backend="cvc5-cli",
                           reason="cvc5 says sat, z3 unknown")
    res["seconds"] = time.time() - t0
    if want_smt2:
        res["smt2"] = s.to_smt2()
    return res


def cvc5_check(smt2: str, timeout_ms: int) -> str:
    exe = shutil.which("cvc5")
    if exe is None:
        return "unavailable"
    with tempfile.NamedTemporaryFile("w", suffix=".smt2", delete=False,
                                     dir=os.environ.get("XDG_RUNTIME_DIR")
                                     or None) as f:
        f.write("(set-logic ALL)\n" + smt2)
        path = f.name
    try:
        p = subprocess.run(
            [exe, "--lang", "smt2", f"--tlimit={timeout_ms}", path],
            capture_output=True, text=True, timeout=timeout_ms / 1000 + 10,
            check=False)
        out = p.stdout.strip().splitlines()
        return out[0] if out else "unknown"
    except (subprocess.TimeoutExpired, OSError):
        return "unknown"
    finally:
        try:
            os.unlink(path)
        except OSError:
            pass
