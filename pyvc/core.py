"""Contracts, harness, obligation bookkeeping and the (parallel) driver."""
from __future__ import annotations

import hashlib
import os
import time
import traceback

import z3

from . import solve
from .interp import SOURCES, Interp
from .sym import (EngineFault, EngineSignal, OutsideSubset, PathLimit, Stats,
                  SymBool, SymInt, explore, zb_of)

REGISTRY: dict[str, "Contract"] = {}


def contract(cls):
    inst = cls()
    if inst.name in REGISTRY:
        raise RuntimeError(f"duplicate contract {inst.name}")
    REGISTRY[inst.name] = inst
    return cls


class Contract:
    """One function (or small family of functions) under contract.

    Subclasses define ``name``, ``functions`` (qualified names of the
    repository functions whose bodies are verified against this contract),
    ``properties`` and implement ``instances``/``run``.
    """
    name = "?"
    functions: tuple[str, ...] = ()
    properties: tuple[str, ...] = ()
    # clause -> reason, for clauses that are bounded/assumed (reported)
    notes: tuple[str, ...] = ()
    max_paths = 3000

    def instances(self, tier):  # -> list of JSON-able dicts with "label"
        raise NotImplementedError

    def run(self, h: "Harness", inst):
        raise NotImplementedError

    def canaries(self, tier):
        """[(inst, canary_name, clause_prefix_expected_to_fail[, props])]
        A canary is a deliberately wrong variant of the *specification*; the
        run must refute it (guards against a vacuous/unsound verifier).
        Without *props* it belongs to the contract's first property."""
        return []

    def replay(self, inst, clause, model, info):
        """Python source replaying a refutation on the real code, or None."""
        return None


class Harness:
    """Per-path services for a contract's ``run``."""

    def __init__(self, pctx, prop, canary=None):
        self.ctx = pctx
        self.prop = prop
        self.canary = canary
        self.interp = Interp()
        self.interp.on_assert = self._on_assert
        self.assert_clause_props = None
        self.undecided: list[str] = []

    # -- symbols
    def int(self, name):
        return self.ctx.fresh_int(name)

    def nonneg(self, name):
        v = self.ctx.fresh_int(name)
        self.ctx.assume(v.t >= 0)
        return v

    def assume(self, cond):
        self.ctx.assume(cond)

    # -- calls
    def call(self, fn, *args, **kwargs):
        return self.interp.call(fn, args, kwargs)

    # -- obligations
    def oblige(self, clause, formula, *, props=None, info=None):
        """*formula* must hold under the current path condition."""
        if not z3.is_expr(formula):
            zb = zb_of(formula)
            if zb is None:
                raise EngineFault(f"obligation {clause}: not a formula: "
                                  f"{formula!r}")
            formula = zb
        self.ctx.add_obligation(clause, formula, kind="ensures",
                                info=dict(props=props, info=info))

    def oblige_any(self, clause, formulas, *, props=None, info=None):
        """At least one of *formulas* must be valid under the current pc
        (exists-forall: e.g. some matching of reduction variables works)."""
        if len(formulas) == 1:
            return self.oblige(clause, formulas[0], props=props, info=info)
        self.ctx.add_obligation(clause, list(formulas), kind="ensures-any",
                                info=dict(props=props, info=info))
        return None

    def fail(self, clause, why, *, props=None):
        """The current path itself is a violation (e.g. unexpected raise)."""
        self.ctx.add_obligation(clause, z3.BoolVal(False), kind="ensures",
                                info=dict(props=props, info=why))

    def _on_assert(self, interp, cond, node, env):
        """Live ``assert`` in interpreted repository code: an obligation."""
        if self.assert_clause_props is None:
            return NotImplemented
        if type(cond) is SymBool:
            self.ctx.add_obligation(
                f"assert@{env.fn_name}:{node.lineno}", cond.t, kind="assert",
                info=dict(props=self.assert_clause_props, info=None))
            self.ctx.assume(cond.t)   # continue on the passing side
            return None
        return NotImplemented


def _inst_label(inst):
    return inst.get("label") or ",".join(
        f"{k}={v}" for k, v in sorted(inst.items()) if k != "label")


def run_task(task):
    """Worker entry: explore one (contract, instance) and discharge its VCs.

    Returns a JSON-able dict.
    """
    cname, inst, prop, tier, canary, timeout_ms = task
    t0 = time.time()
    out = dict(contract=cname, instance=_inst_label(inst), inst=inst,
               prop=prop, canary=canary, obligations=[], undecided=[],
               fault=None, paths=0, feas_checks=0, seconds=0.0,
               functions=[], call_log={})
    try:
        from . import registry_load  # noqa: F401  (imports all contracts)
        c = REGISTRY[cname]
        stats = Stats()
        call_log: dict = {}

        def one_path(pctx):
            h = Harness(pctx, prop, canary)
            try:
                c.run(h, inst)
            except OutsideSubset as e:
                pctx.notes.append(f"outside-subset: {e}")
            finally:
                for k, v in h.interp.call_log.items():
                    call_log[k] = call_log.get(k, 0) + v
                # an execution is non-trivial if it generated an obligation
                # and the contract did not mark it as a repeat of the
                # reference run (C17: no site was permuted on this path)
                if pctx.side_obligations and not getattr(h, "trivial", False):
                    out["nontrivial_paths"] = out.get(
                        "nontrivial_paths", 0) + 1
            return None

        try:
            paths, stats = explore(one_path, max_paths=c.max_paths,
                                   stats=stats)
        except PathLimit as e:
            out["undecided"].append(f"path-limit: {e}")
            paths = []
        out["paths"] = stats.paths
        out["feas_checks"] = stats.feas_checks
        seen_smt = 0
        for pi, p in enumerate(paths):
            for note in p.ctx.notes:
                out["undecided"].append(f"path {pi}: {note}")
            for ob in p.ctx.side_obligations:
                out["generated_any_prop"] = out.get("generated_any_prop", 0) + 1
                info = ob["info"] or {}
                props = info.get("props")
                if props is not None and prop not in props and \
                        prop not in getattr(c, "props_for_all_clauses", ()):
                    continue
                want = seen_smt < 1 and not canary
                if isinstance(ob["formula"], list):
                    r = None
                    for alt in ob["formula"]:
                        r1 = solve.check_valid(ob["pc"], alt,
                                               timeout_ms=timeout_ms,
                                               want_smt2=want)
                        if r is None or r1["status"] == solve.PROVED or (
                                r["status"] == solve.REFUTED
                                and r1["status"] == solve.UNKNOWN):
                            r = r1
                        if r1["status"] == solve.PROVED:
                            break
                else:
                    r = solve.check_valid(ob["pc"], ob["formula"],
                                          timeout_ms=timeout_ms,
                                          want_smt2=want)
                r.pop("_z3model", None)
                rec = dict(clause=ob["name"], kind=ob["kind"], path=pi,
                           status=r["status"], backend=r["backend"],
                           seconds=round(r["seconds"], 4), model=r["model"],
                           reason=r.get("reason"),
                           info=_jsonable(info.get("info")))
                if want and "smt2" in r:
                    rec["smt2_head"] = r["smt2"][:1500]
                    seen_smt += 1
                out["obligations"].append(rec)
            # vacuity guard: the assumptions and branch conditions of a path
            # that carries obligations must be satisfiable together (a
            # contradictory `requires` would discharge everything); the
            # witness doubles as an admissible input for a sampled replay
            if p.ctx.side_obligations and not canary:
                _cover_and_sample(out, c, inst, pi, p, tier)
        out["functions"] = list(SOURCES.used.values())
        out["call_log"] = {f"{k[0]}:{k[1]}": v for k, v in call_log.items()}
    except EngineSignal as e:
        out["fault"] = f"{type(e).__name__}: {e}"
    except Exception:  # noqa: BLE001
        out["fault"] = traceback.format_exc()
    out["seconds"] = round(time.time() - t0, 3)
    return out


def _cover_and_sample(out, c, inst, pi, p, tier):
    import random

    import z3
    sv = p.ctx.solver
    r = sv.check()
    out["covers"] = out.get("covers", 0) + 1
    if r == z3.unsat:
        # the path ended in a contradiction; the question is whether its
        # *last obligation* was still recorded under a satisfiable premise
        s2 = z3.Solver()
        s2.set("timeout", 20000)
        for cnd in p.ctx.side_obligations[-1]["pc"]:
            s2.add(cnd)
        r = s2.check()
        if r == z3.sat:
            return
    if r == z3.unsat:
        out["undecided"].append(
            f"path {pi}: vacuous -- the assumptions on this path are "
            f"contradictory, its {len(p.ctx.side_obligations)} obligation(s) "
            "hold trivially")
        return
    if r != z3.sat:
        out["cover_unknown"] = out.get("cover_unknown", 0) + 1
        return
    if type(c).replay is Contract.replay:
        return
    # sampled replay: at most one path per instance (three in the thorough
    # tier), chosen and diversified reproducibly from VERIF_SEED
    seed = os.environ.get("VERIF_SEED", "0") or "0"
    want = 1 if tier != "thorough" else 3
    if len(out.setdefault("replay_samples", [])) >= want:
        return
    rng = random.Random(f"{seed}|{c.name}|{_inst_label(inst)}|{pi}")
    if pi > 0 and rng.random() < 0.5:
        return
    m = sv.model()
    ints = sorted((d for d in m.decls() if d.arity() == 0
                   and d.range() == z3.IntSort()
                   and not d.name().startswith("k!")), key=lambda d: d.name())
    rng.shuffle(ints)
    depth = 0
    for d in ints[:14]:
        v = rng.choice((0, 1, 2, 2, 3, 3, 4, 5, 7, -1, -2, -3, -5))
        sv.push()
        sv.add(d() == v)
        if sv.check() == z3.sat:
            depth += 1
        else:
            sv.pop()
    if sv.check() == z3.sat:
        m = sv.model()
    for _ in range(depth):
        sv.pop()
    # only clauses every obligation of which was *proved* on this path (a
    # refuted one already has its own replay, or is a listed known finding)
    not_proved = {o["clause"] for o in out["obligations"]
                  if o["path"] == pi and o["status"] != solve.PROVED}
    if not_proved:
        # (a clause-independent replay would re-report that finding under a
        # proved clause's name)
        return
    considered = {o["clause"] for o in out["obligations"] if o["path"] == pi}
    seen, clauses = set(), []
    for ob in p.ctx.side_obligations:
        if ob["name"] in seen or ob["name"] in not_proved \
                or ob["name"] not in considered:
            continue
        seen.add(ob["name"])
        info = ob["info"] or {}
        clauses.append((ob["name"], _jsonable(info.get("info"))))
    from .solve import _model_dict
    out["replay_samples"].append(dict(path=pi, model=_model_dict(m),
                                      clauses=clauses[:40]))


def _jsonable(x):
    if x is None or isinstance(x, (str, int, float, bool)):
        return x
    if isinstance(x, (list, tuple)):
        return [_jsonable(i) for i in x]
    if isinstance(x, dict):
        return {str(k): _jsonable(v) for k, v in x.items()}
    return repr(x)


def tasks_for(prop, tier, timeout_ms):
    from . import registry_load  # noqa: F401
    tasks = []
    canary_tasks = []
    for c in REGISTRY.values():
        if prop not in c.properties:
            continue
        for inst in c.instances(tier):
            tasks.append((c.name, inst, prop, tier, None, timeout_ms))
        for can in c.canaries(tier):
            inst, canary, clause = can[:3]
            cprops = can[3] if len(can) > 3 else c.properties[:1]
            if prop not in cprops:
                continue
            canary_tasks.append(
                ((c.name, inst, prop, tier, canary, timeout_ms), clause))
    return tasks, canary_tasks


def run_all(tasks, jobs=None):
    import multiprocessing as mp
    jobs = jobs or min(16, os.cpu_count() or 1)
    if jobs <= 1 or len(tasks) <= 1:
        return [run_task(t) for t in tasks]
    ctx = mp.get_context("fork")
    with ctx.Pool(jobs, maxtasksperchild=8) as pool:
        return list(pool.imap_unordered(run_task, tasks, chunksize=1))


def digest(s: str) -> str:
    return hashlib.sha256(s.encode()).hexdigest()[:12]
