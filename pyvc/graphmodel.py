"""Symbolic instances of pytato node classes, built by reflection.

The data model (which fields exist, which of them hold arrays) is taken from
``dataclasses.fields`` of the *running* classes and their annotation strings;
an annotation this table does not know is a checker fault, so a new field can
never be skipped silently.

Two modes:

* ``sym``      every non-child field holds a :class:`SymVal` (value of an
               uninterpreted sort whose ``==`` is a z3 atom) -- used to prove
               which fields an equality/hash looks at;
* ``concrete`` non-child fields hold ordinary representative values -- used
               for child-coverage / rebuild contracts where only the children
               are symbolic (opaque arrays).

Children are :class:`OpaqueArray` objects: real ``Array`` subclass instances
of *unknown kind* (no mapper method anywhere), each standing for an arbitrary
array.  ``a == b`` on them is the uninterpreted relation ``R`` (also what the
``rec`` stand-in of EqualityComparer returns), constrained to be a congruence
for the metadata (R(a,b) => tags/axes/shape/dtype related).
"""
from __future__ import annotations

import dataclasses

import numpy as np
import z3

from pytato.array import (AbstractResultWithNamedArrays, Array, Axis,
                          NormalizedSlice, _get_default_axes)
from pytato.function import FunctionDefinition

from .sym import EngineFault, SymBool, SymInt, ctx, mk_bool, z_of

U = z3.DeclareSort("U")
R = z3.Function("R", U, U, z3.BoolSort())


class SymVal:
    """Opaque field value; only equality is observable."""
    __slots__ = ("u", "label")

    def __init__(self, label):
        self.label = label
        self.u = z3.Const(label, U)

    def __eq__(self, o):
        if o is self:
            return True
        if type(o) is SymVal:
            return mk_bool(self.u == o.u)
        return False

    def __ne__(self, o):
        r = self.__eq__(o)
        if type(r) is SymBool:
            return mk_bool(z3.Not(r.t))
        return not r

    def __hash__(self):
        return 0

    def __repr__(self):
        return f"<{self.label}>"


#: (a, b) for every direct ``a == b`` evaluated on opaque nodes (i.e. an
#: equality that did NOT go through a comparer's memoised ``rec``)
EQ_LOG: list = []


class _OpaqueMixin:
    def _init_opaque(self, label, mode, rank=0):
        s = object.__setattr__
        s(self, "_label", label)
        s(self, "_u", z3.Const(label, U))
        if mode == "sym":
            s(self, "tags", SymVal(f"{label}.tags"))
            s(self, "non_equality_tags", frozenset())
        else:
            s(self, "tags", frozenset())
            s(self, "non_equality_tags", frozenset())

    def __eq__(self, o):
        if o is self:
            return True
        if isinstance(o, _OpaqueMixin):
            EQ_LOG.append((self, o))
            return mk_bool(R(self._u, o._u))
        return False

    def __ne__(self, o):
        r = self.__eq__(o)
        if type(r) is SymBool:
            return mk_bool(z3.Not(r.t))
        return not r

    def __hash__(self):
        return 0

    def __repr__(self):
        return f"<opaque {self._label}>"


class OpaqueArray(_OpaqueMixin, Array):
    """An arbitrary array of unknown kind."""
    _mapper_method = "map_opaque_array_of_unknown_kind"

    def _is_eq_valid(self):
        return True

    # a mapper that tries to look inside must not succeed silently
    def __getitem__(self, idx):
        raise EngineFault("indexing an opaque array")

    def _with_new_tags(self, tags):
        """Same (unknown) array with other tags: value-equal by definition."""
        o = object.__new__(OpaqueArray)
        for k, v in vars(self).items():
            object.__setattr__(o, k, v)
        object.__setattr__(o, "_label", self._label + "+tags")
        object.__setattr__(o, "_u", z3.Const(self._label + "+tags", U))
        object.__setattr__(o, "tags", tags)
        object.__setattr__(o, "_tag_variant_of", self)
        return o


def mk_opaque_array(label, mode, *, rank=1, shape=None, dtype=np.float64):
    o = object.__new__(OpaqueArray)
    o._init_opaque(label, mode)
    s = object.__setattr__
    if mode == "sym":
        s(o, "shape", SymVal(f"{label}.shape"))
        s(o, "dtype", SymVal(f"{label}.dtype"))
        s(o, "axes", SymVal(f"{label}.axes"))
    else:
        if shape is None:
            shape = tuple(ctx().fresh_int(f"{label}_n{d}") for d in range(rank))
            for n in shape:
                ctx().assume(n.t >= 0)
        s(o, "shape", tuple(shape))
        s(o, "dtype", np.dtype(dtype))
        s(o, "axes", _get_default_axes(len(shape)))
    return o


class OpaqueContainer(_OpaqueMixin, AbstractResultWithNamedArrays):
    _mapper_method = "map_opaque_container_of_unknown_kind"

    def _is_eq_valid(self):
        return True

    def __contains__(self, name):
        raise EngineFault("looking into an opaque container")

    def __getitem__(self, name):
        raise EngineFault("looking into an opaque container")

    def __len__(self):
        raise EngineFault("looking into an opaque container")

    def __iter__(self):
        raise EngineFault("looking into an opaque container")

    def keys(self):
        raise EngineFault("looking into an opaque container")


def mk_opaque_container(label, mode):
    o = object.__new__(OpaqueContainer)
    o._init_opaque(label, mode)
    return o


class OpaqueFunction(_OpaqueMixin, FunctionDefinition):
    pass


def mk_opaque_function(label, mode):
    o = object.__new__(OpaqueFunction)
    o._init_opaque(label, mode)
    return o


def related_meta(a, b):
    """R(a,b) => metadata related (congruence), for sym-mode opaque pairs."""
    cs = []
    for attr in ("tags", "shape", "dtype", "axes"):
        x, y = getattr(a, attr, None), getattr(b, attr, None)
        if type(x) is SymVal and type(y) is SymVal:
            cs.append(x.u == y.u)
    return z3.Implies(R(a._u, b._u), z3.And(cs)) if cs else z3.BoolVal(True)


# {{{ field classification

VALUE, CHILD, CHILDREN, SHAPE, INDICES, CHILDMAP, CHILDMAP_S, NESTED, \
    CONTAINER, FUNCTION = ("value", "child", "children", "shape", "indices",
                           "childmap", "childmap_or_scalar", "nested",
                           "container", "function")

ANNOTATIONS = {
    "Array": CHILD,
    "tuple[Array, ...]": CHILDREN,
    "ShapeType": SHAPE,
    "tuple[IndexExpr, ...]": INDICES,
    "Mapping[str, Array]": CHILDMAP,
    "Mapping[str, ArrayOrScalar]": CHILDMAP_S,
    "CSRMatrix": NESTED,
    "DistributedSend": NESTED,
    "AbstractResultWithNamedArrays": CONTAINER,
    "LoopyCall": CONTAINER,
    "FunctionDefinition": FUNCTION,
}
for _a in ["AxesT", "frozenset[Tag]", "np.dtype[Any]", "ScalarExpression",
           "Mapping[str, ReductionDescriptor]",
           "tuple[tuple[EinsumAxisDescriptor, ...], ...]",
           "Mapping[EinsumReductionAxis, ReductionDescriptor]", "int",
           "tuple[int, ...]", "str", "DataInterface", "ReductionDescriptor",
           "CommTagType", "lp.TranslationUnit", "frozenset[str]",
           "ReturnType"]:
    ANNOTATIONS[_a] = VALUE


def classify(cls, fld):
    t = fld.type if isinstance(fld.type, str) else getattr(
        fld.type, "__name__", repr(fld.type))
    if t not in ANNOTATIONS:
        raise EngineFault(f"{cls.__name__}.{fld.name}: annotation {t!r} is "
                          "not in the data-model table (pyvc/graphmodel.py)")
    return ANNOTATIONS[t]


def nested_class(fld):
    from pytato.array import CSRMatrix
    from pytato.distributed.nodes import DistributedSend
    return {"CSRMatrix": CSRMatrix, "DistributedSend": DistributedSend}[fld.type]

# }}}


class Built:
    """A symbolic instance plus what its fields hold."""

    def __init__(self, obj, cls):
        self.obj = obj
        self.cls = cls
        self.fields: dict[str, tuple] = {}   # name -> (kind, payload)

    def children(self, *, with_functions=True):
        """Declared array children (objects), in field order."""
        out = []
        for _name, (kind, val) in self.fields.items():
            if kind in (CHILD, CONTAINER):
                out.append(val)
            elif kind == FUNCTION:
                if with_functions:
                    out.append(val)
            elif kind == CHILDREN:
                out.extend(val)
            elif kind in (SHAPE,):
                out.extend(v for v in val if isinstance(v, Array))
            elif kind == INDICES:
                out.extend(v for v in val if isinstance(v, Array))
            elif kind in (CHILDMAP, CHILDMAP_S):
                out.extend(v for v in val.values() if isinstance(v, Array))
            elif kind == NESTED:
                out.extend(val.children(with_functions=with_functions))
        return out


def concrete_value(cls, name, cfg):
    """Representative concrete values for non-child fields."""
    import pymbolic.primitives as prim
    from constantdict import constantdict

    from pytato.array import (EinsumElementwiseAxis, EinsumReductionAxis,
                              ReductionDescriptor)
    if name in cfg.get("values", {}):
        return cfg["values"][name]
    rank = cfg.get("rank", 1)
    table = {
        "axes": _get_default_axes(rank),
        "tags": frozenset(),
        "non_equality_tags": frozenset(),
        "dtype": np.dtype(np.float64),
        "name": "nm",
        "axis": 0,
        "shift": 1,
        "order": "C",
        "axis_permutation": tuple(range(rank))[::-1],
        "expr": prim.Variable("_in0")[tuple(
            prim.Variable(f"_{d}") for d in range(rank))]
        if rank else prim.Variable("_in0"),
        "var_to_reduction_descr": constantdict(),
        "access_descriptors": ((EinsumElementwiseAxis(0),),),
        "redn_axis_to_redn_descr": constantdict(),
        "reduction_var": "_r0",
        "reduction_descr": ReductionDescriptor(frozenset()),
        "src_rank": 0, "dest_rank": 1, "comm_tag": "tag",
        "entrypoint": "knl", "translation_unit": None,
        "parameters": frozenset({"p"}), "return_type": None,
        "data": None,
    }
    if name not in table:
        raise EngineFault(f"no representative value for {cls.__name__}.{name}")
    return table[name]


def build(cls, label, mode, cfg=None):
    """Symbolic instance of dataclass *cls*.

    cfg: dict(n_children=…, shape=[kinds], indices=[kinds], keys=[…],
              rank=…, values={field: value})
    """
    cfg = cfg or {}
    obj = object.__new__(cls)
    b = Built(obj, cls)
    s = object.__setattr__
    for fld in dataclasses.fields(cls):
        kind = classify(cls, fld)
        nm = f"{label}.{fld.name}"
        if fld.name == "non_equality_tags":
            s(obj, fld.name, frozenset())
            continue
        if kind == VALUE:
            val = SymVal(nm) if mode == "sym" else concrete_value(
                cls, fld.name, cfg)
        elif kind == CHILD:
            val = mk_opaque_array(nm, mode, rank=cfg.get(
                "child_rank", {}).get(fld.name, cfg.get("rank", 1)))
        elif kind == CONTAINER:
            val = mk_opaque_container(nm, mode)
        elif kind == FUNCTION:
            val = mk_opaque_function(nm, mode)
        elif kind == CHILDREN:
            shared = None
            if mode != "sym" and cfg.get("same_shape_children", True):
                shared = tuple(ctx().fresh_int(f"{nm}_n{d}")
                               for d in range(cfg.get("rank", 1)))
                for n_ in shared:
                    ctx().assume(n_.t >= 0)
            val = tuple(mk_opaque_array(f"{nm}[{i}]", mode,
                                        rank=cfg.get("rank", 1), shape=shared)
                        for i in range(cfg.get("n_children", 2)))
        elif kind == SHAPE:
            ents = []
            for i, k in enumerate(cfg.get("shape", ["int", "arr"])):
                if k == "int":
                    n = ctx().fresh_int(f"{nm}[{i}]")
                    ctx().assume(n.t >= 0)
                    ents.append(n)
                else:
                    ents.append(mk_opaque_array(f"{nm}[{i}]", mode, rank=0))
            val = tuple(ents)
        elif kind == INDICES:
            ents = []
            ishape = None
            if mode != "sym":
                ishape = (ctx().fresh_int(f"{nm}_B"),)
                ctx().assume(ishape[0].t >= 0)
            for i, k in enumerate(cfg.get("indices", ["int", "slice", "arr"])):
                if k == "int":
                    ents.append(ctx().fresh_int(f"{nm}[{i}]"))
                elif k == "slice":
                    st = ctx().fresh_int(f"{nm}[{i}].step")
                    if mode != "sym":
                        ctx().assume(st.t != 0)     # valid NormalizedSlice
                    ents.append(NormalizedSlice(
                        ctx().fresh_int(f"{nm}[{i}].start"),
                        ctx().fresh_int(f"{nm}[{i}].stop"), st))
                elif k == "none":
                    ents.append(None)
                else:
                    ents.append(mk_opaque_array(f"{nm}[{i}]", mode, rank=1,
                                                shape=ishape))
            val = tuple(ents)
        elif kind in (CHILDMAP, CHILDMAP_S):
            from constantdict import constantdict
            d = {}
            for k in cfg.get("keys", ["_in0", "x"]):
                d[k] = mk_opaque_array(f"{nm}[{k}]", mode,
                                       rank=cfg.get("rank", 1))
            if kind == CHILDMAP_S and cfg.get("scalar_key", True):
                d[cfg.get("scalar_key_name", "scalar")] = SymVal(
                    f"{nm}[scalar]") if mode == "sym" else 3
            val = constantdict(d)
        elif kind == NESTED:
            nb = build(nested_class(fld), nm, mode, cfg)
            b.fields[fld.name] = (kind, nb)
            s(obj, fld.name, nb.obj)
            continue
        else:  # pragma: no cover
            raise EngineFault(kind)
        b.fields[fld.name] = (kind, val)
        s(obj, fld.name, val)
    return b


def _rel_entry(x, y):
    """Relation between two corresponding tuple/dict entries."""
    if isinstance(x, _OpaqueMixin) and isinstance(y, _OpaqueMixin):
        return R(x._u, y._u)
    if type(x) is SymVal and type(y) is SymVal:
        return x.u == y.u
    if isinstance(x, NormalizedSlice) and isinstance(y, NormalizedSlice):
        return z3.And(z_of(x.start) == z_of(y.start),
                      z_of(x.stop) == z_of(y.stop),
                      z_of(x.step) == z_of(y.step))
    zx, zy = z_of(x), z_of(y)
    if zx is not None and zy is not None and not isinstance(
            x, _OpaqueMixin) and not isinstance(y, _OpaqueMixin):
        return zx == zy
    if x is None and y is None:
        return z3.BoolVal(True)
    if type(x) is type(y) and not isinstance(x, (_OpaqueMixin, SymVal)):
        return z3.BoolVal(bool(x == y))
    return z3.BoolVal(False)


def field_relations(b1: Built, b2: Built, prefix=""):
    """dict field-path -> z3 formula: 'this field of b1 and b2 is related'."""
    out = {}
    for name, (kind, v1) in b1.fields.items():
        _k2, v2 = b2.fields[name]
        key = prefix + name
        if kind in (VALUE, CHILD, CONTAINER, FUNCTION):
            out[key] = _rel_entry(v1, v2)
        elif kind in (CHILDREN, SHAPE, INDICES):
            if len(v1) != len(v2):
                out[key] = z3.BoolVal(False)
            else:
                out[key] = z3.And([_rel_entry(x, y) for x, y in zip(
                    v1, v2, strict=True)]) if v1 else z3.BoolVal(True)
        elif kind in (CHILDMAP, CHILDMAP_S):
            if set(v1) != set(v2):
                out[key] = z3.BoolVal(False)
            else:
                out[key] = z3.And([_rel_entry(v1[k], v2[k]) for k in v1]) \
                    if v1 else z3.BoolVal(True)
        elif kind == NESTED:
            out.update(field_relations(v1, v2, prefix=key + "."))
    return out


def congruence_assumptions(b1: Built, b2: Built):
    cs = []

    def walk(x1, x2):
        if isinstance(x1, _OpaqueMixin) and isinstance(x2, _OpaqueMixin):
            cs.append(related_meta(x1, x2))
            # the relation between children is symmetric (it is the
            # relation being characterised; A.3): comparing (c2, c1) instead
            # of (c1, c2) is not a different answer
            cs.append(R(x1._u, x2._u) == R(x2._u, x1._u))
    for name, (kind, v1) in b1.fields.items():
        v2 = b2.fields[name][1]
        if kind in (CHILD, CONTAINER, FUNCTION):
            walk(v1, v2)
        elif kind in (CHILDREN, SHAPE, INDICES):
            for x, y in zip(v1, v2, strict=False):
                walk(x, y)
        elif kind in (CHILDMAP, CHILDMAP_S):
            for k in v1:
                if k in v2:
                    walk(v1[k], v2[k])
        elif kind == NESTED:
            cs.extend(congruence_assumptions(v1, v2))
    return cs


def node_classes():
    """All concrete node classes reachable from Array /
    AbstractResultWithNamedArrays that live in the repository."""
    import pytato.distributed.nodes  # noqa: F401
    import pytato.function  # noqa: F401
    import pytato.loopy  # noqa: F401
    import inspect
    seen, out = set(), []

    def rec(c):
        for s in c.__subclasses__():
            if s in seen:
                continue
            seen.add(s)
            rec(s)
            if s.__module__.startswith("pytato") and not inspect.isabstract(s) \
                    and dataclasses.is_dataclass(s) and \
                    "_mapper_method" in vars(s) and not issubclass(
                        s, _OpaqueMixin):
                out.append(s)
    rec(Array)
    rec(AbstractResultWithNamedArrays)
    # classes that are only bases
    from pytato.array import IndexBase, IndexRemappingBase, InputArgumentBase
    out = [c for c in out if c not in (IndexBase, IndexRemappingBase,
                                       InputArgumentBase)]
    return sorted(out, key=lambda c: c.__name__)
