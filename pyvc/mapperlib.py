"""Harness for per-node-kind mapper methods (C13, C20, C05).

A mapper instance of class M is created with its real constructor; its
``rec`` / ``rec_function_definition`` / ``clone_for_callee`` (the induction
hypothesis and the callee boundary) are replaced *on the instance* by recording
stand-ins, then the real ``M.map_K`` source is interpreted on a symbolic
K-instance whose children are opaque arrays (pyvc.graphmodel).
"""
from __future__ import annotations

import importlib
import inspect
import pkgutil

from pytato.array import (AbstractResultWithNamedArrays, Array,
                          DictOfNamedArrays)
from pytato.function import Call, FunctionDefinition
from pytato.transform import (CombineMapper, CopyMapper, Mapper,
                              TransformMapper, TransformMapperWithExtraArgs,
                              WalkMapper)

from . import graphmodel as gm
from .sym import EngineFault


def all_mapper_classes():
    import pytato
    for m in pkgutil.walk_packages(pytato.__path__, "pytato."):
        try:
            importlib.import_module(m.name)
        except Exception:  # noqa: BLE001
            pass
    seen, out = set(), []

    def rec(c):
        for s in c.__subclasses__():
            if s not in seen:
                seen.add(s)
                out.append(s)
                rec(s)
    rec(Mapper)
    return sorted(out, key=lambda c: c.__name__)


def mapper_by_name(name):
    for c in all_mapper_classes():
        if c.__name__ == name:
            return c
    raise KeyError(name)


def family(M):
    if issubclass(M, (TransformMapper, TransformMapperWithExtraArgs)):
        return "copy"
    if issubclass(M, CombineMapper):
        return "combine"
    if issubclass(M, WalkMapper):
        return "walk"
    return "plain"


def _factories():
    from pytools.tag import Tag
    import pytato as pt
    f = {
        "TagCountMapper": lambda M: M(frozenset({Tag})),
        "SubsetDependencyMapper": lambda M: M(frozenset()),
        "CachedMapAndCopyMapper": lambda M: M(lambda x: x),
        "PlaceholderSubstitutor": lambda M: M({}),
        "MPMSMaterializer": lambda M: M({}, frozenset()),
        "AxisTagAttacher": lambda M: M({}, True),
        "CodeGenPreprocessor": lambda M: M(pt.LoopyPyOpenCLTarget()),
        "_LocalSendRecvDepGatherer": lambda M: M(0),
        "ListOfDirectPredecessorsGetter": lambda M: M(include_functions=True),
    }
    return f


#: mappers the generic child-coverage contract handles
STRUCTURAL_MAPPERS = [
    "CopyMapper", "CopyMapperWithExtraArgs", "Deduplicator",
    "DataWrapperDeduplicator", "CachedMapAndCopyMapper", "InlineMarker",
    "DeadCodeEliminator", "EinsumWithNoBroadcastsRewriter",
    "CombineMapper", "DependencyMapper", "SubsetDependencyMapper",
    "InputGatherer", "ListOfInputsGatherer", "SizeParamGatherer",
    "TagCountMapper",
    "WalkMapper", "CachedWalkMapper", "TopoSortMapper", "NodeCountMapper",
    "NodeMultiplicityMapper", "CallSiteCountMapper",
    "MaterializedNodeCollector", "NamesValidityChecker",
    "ListOfUsersCollector", "UsersCollector",
    "ListOfDirectPredecessorsGetter",
]


def instantiate(M):
    f = _factories().get(M.__name__)
    return f(M) if f else M()


class Recorder:
    def __init__(self):
        self.rec_args: list = []      # arguments of rec(...)
        self.fn_args: list = []       # arguments of rec_function_definition
        self.events: list = []        # ("rec", x) / ("post_visit", x) / ...


def stub_mapper(mapper, recorder: Recorder, mode):
    """Replace the recursion boundary of *mapper* by recording stand-ins.

    mode: 'identity' (copy family: nothing changes), 'image' (copy family:
    every child maps to a fresh image), 'token' (combine), 'none' (walk)."""
    images = {}

    def image_of(x):
        k = id(x)
        if k not in images:
            lab = f"img({getattr(x, '_label', type(x).__name__)})"
            if isinstance(x, gm.OpaqueArray):
                img = gm.mk_opaque_array(lab, "concrete", shape=x.shape,
                                         dtype=x.dtype)
            elif isinstance(x, gm.OpaqueContainer):
                img = gm.mk_opaque_container(lab, "concrete")
            elif isinstance(x, gm.OpaqueFunction):
                img = gm.mk_opaque_function(lab, "concrete")
                for attr, v in vars(x).items():
                    if not attr.startswith("_"):
                        object.__setattr__(img, attr, v)
            else:
                img = x          # real nested node (container): unchanged
            images[k] = (x, img)
        return images[k][1]

    def rec(x, *args, **kwargs):
        recorder.rec_args.append(x)
        recorder.events.append(("rec", x))
        if mode == "identity":
            return x
        if mode == "image":
            return image_of(x)
        if mode == "token":
            return recorder.token(x)
        return None

    def rec_fn(x, *args, **kwargs):
        recorder.fn_args.append(x)
        recorder.events.append(("rec_function_definition", x))
        if mode == "identity":
            return x
        if mode == "image":
            return image_of(x)
        if mode == "token":
            return recorder.token(x)
        return None

    mapper.rec = rec
    mapper.rec_function_definition = rec_fn
    mapper.clone_for_callee = lambda function: mapper
    recorder.image_of = image_of
    recorder.images = images
    return mapper


def container_overrides():
    """(class name, field) -> class of the container child (must be a real
    node of that class for the methods' own isinstance assertions)."""
    from pytato.loopy import LoopyCall
    return {("NamedArray", "_container"): DictOfNamedArrays,
            ("NamedCallResult", "_container"): Call,
            ("LoopyCallResult", "_container"): LoopyCall}


_TUNIT = None


def loopy_tunit():
    """A small real loopy translation unit (built once per process)."""
    global _TUNIT
    if _TUNIT is None:
        import loopy as lp
        import numpy as np
        _TUNIT = lp.make_kernel(
            "{[i]: 0<=i<10}", "out[i] = 2*x[i] + y",
            [lp.GlobalArg("x", shape=(10,), dtype=np.float64),
             lp.ValueArg("y", dtype=np.float64),
             lp.GlobalArg("out", shape=(10,), dtype=np.float64,
                          is_output=True)],
            name="knl", lang_version=(2018, 2))
    return _TUNIT


#: index-tuple kinds that make a *valid* node of each indexing class
INDEX_KINDS = {
    "BasicIndex": ["int", "slice"],
    "AdvancedIndexInContiguousAxes": ["slice", "arr", "arr"],
    "AdvancedIndexInNoncontiguousAxes": ["arr", "slice", "arr"],
}


def build_node(cls, label="e", cfg=None):
    """Concrete-mode symbolic instance of *cls* with sensible invariants
    (einsum descriptors matching its args, real container children ...)."""
    from constantdict import constantdict

    from pytato.array import (Einsum, EinsumElementwiseAxis,
                              EinsumReductionAxis, ReductionDescriptor)
    from pytato.loopy import LoopyCall
    cfg = dict(cfg or {})
    cfg.setdefault("rank", 1)
    values = dict(cfg.get("values", {}))
    if cls.__name__ in INDEX_KINDS:
        cfg["indices"] = INDEX_KINDS[cls.__name__]
        cfg["child_rank"] = {"array": len(cfg["indices"])}
    if cls is LoopyCall:
        values.setdefault("translation_unit", loopy_tunit())
        cfg["keys"] = ["x"]
        cfg["scalar_key_name"] = "y"
    if cls is Einsum:
        n = cfg.get("n_children", 2)
        values.setdefault("access_descriptors", tuple(
            (EinsumElementwiseAxis(0),) for _ in range(n)))
    cfg["values"] = values
    b = gm.build(cls, label, "concrete", cfg)
    ov = container_overrides()
    for (cname, fld), ccls in ov.items():
        if cls.__name__ == cname:
            inner = build_node(ccls, f"{label}.{fld}", dict(
                cfg, keys=cfg.get("keys", ["_in0", "x"])))
            object.__setattr__(b.obj, fld, inner.obj)
            b.fields[fld] = (gm.CONTAINER, inner.obj)
            if cname in ("NamedArray", "NamedCallResult", "LoopyCallResult"):
                # the result's name must exist in its container
                nm = None
                if ccls is DictOfNamedArrays:
                    nm = next(iter(inner.obj._data), None)
                elif ccls is Call:
                    nm = "_"
                elif ccls is LoopyCall:
                    nm = "out"
                if nm is not None:
                    # named results are obtained from their container
                    # (memoised __getitem__): that object is the valid node
                    real = inner.obj[nm]
                    b.obj = real
                    object.__setattr__(real, "non_equality_tags", frozenset())
    if cls is Call:
        # Call.bindings keys must equal function.parameters
        fn = b.fields["function"][1]
        object.__setattr__(fn, "parameters", frozenset(b.obj.bindings))
        object.__setattr__(fn, "returns", constantdict(
            {"_": gm.mk_opaque_array(f"{label}.function.returns[_]",
                                     "concrete")}))
        object.__setattr__(fn, "tags", frozenset())
    return b
