"""Programs and observations shared by the C17 contracts and their replays
(no z3 import here: replays run under the plain interpreter)."""
from __future__ import annotations

import numpy as np

import pytato as pt


def ordered(x):
    """Order-faithful, hash-free view of a result: dicts as item lists, sets
    sorted (their order is no part of the value)."""
    from orderedsets import FrozenOrderedSet, OrderedSet
    if isinstance(x, dict) or hasattr(x, "items") and hasattr(x, "keys"):
        return [(ordered(k), ordered(v)) for k, v in x.items()]
    if isinstance(x, (OrderedSet, FrozenOrderedSet, list, tuple)):
        return [ordered(v) for v in x]
    if isinstance(x, (set, frozenset)):
        return sorted((ordered(v) for v in x), key=repr)
    return x


# {{{ programs

PROGRAMS = ("chain", "independent", "diamond", "reductions", "fan",
            "multi_reduction_lambda")

def prog_outputs(kind):
    if kind.startswith("random:"):
        # seeded random DAG (the generator of the kernel contracts),
        # de-duplicated as code generation expects
        from contracts.c07_kernel import random_program
        d = pt.transform.deduplicate(pt.make_dict_of_named_arrays(
            random_program(int(kind.split(":")[1]), lambda k, x: x)))
        return {k: d[k].expr for k in d}
    return _prog_outputs(kind)


def _prog_outputs(kind):
    a = pt.make_placeholder("a", (4, 4), np.float64)
    b = pt.make_placeholder("b", (4, 4), np.float64)
    c = pt.make_data_wrapper(np.arange(16.).reshape(4, 4))
    if kind == "chain":
        # later outputs use earlier ones: output order is a topological order
        u = (a + b).tagged(pt.tags.ImplStored())
        v = (u @ c).tagged(pt.tags.ImplStored())
        w = pt.sum(v, axis=0) + pt.sum(u, axis=1)
        return {"w": w, "u": u, "v": v, "zz": a * 2, "aa": b - 1}
    if kind == "independent":
        return {"p": a + 1, "q": b * 2, "r": pt.sin(a), "s": a @ b,
                "t": pt.sum(b)}
    if kind == "reductions":
        return {"x": pt.sum(a @ b, axis=0), "y": pt.amax(a, axis=1) + pt.sum(c),
                "z": pt.einsum("ij,jk,kl->il", a, b, c)}
    if kind == "fan":
        # one output uses three other, mutually independent outputs: they
        # become schedulable at the same moment
        p, q, r = a + 1, b * 2, pt.sin(a)
        return {"t": p @ q + r, "q": q, "r": r, "p": p, "k": pt.sum(p)}
    if kind == "multi_reduction_lambda":
        # one index lambda holding several reductions (make_index_lambda)
        import pymbolic.primitives as p
        from constantdict import constantdict

        from pytato.array import ReductionDescriptor, make_index_lambda
        from pytato.reductions import SumReductionOperation
        from pytato.scalar_expr import Reduce
        u = pt.make_placeholder("u", (4,), np.float64)
        v = pt.make_placeholder("v", (5,), np.float64)
        w = pt.make_placeholder("w", (6,), np.float64)

        def red(nm, var, n):
            return Reduce(p.Subscript(p.Variable(nm), (p.Variable(var),)),
                          SumReductionOperation(),
                          constantdict({var: (0, n)}))
        il = make_index_lambda(
            red("u", "_r0", 4) + red("v", "_r1", 5) + red("w", "_r2", 6),
            {"u": u, "v": v, "w": w}, (), np.float64,
            var_to_reduction_descr={
                k: ReductionDescriptor(frozenset())
                for k in ("_r0", "_r1", "_r2")})
        return {"o": il, "p": il * 2}
    if kind == "diamond":
        s = (a + b).tagged(pt.tags.ImplStored())
        l, r = pt.exp(s), pt.cos(s)      # noqa: E741
        return {"o1": l * r, "o2": l + r, "o3": s}
    raise ValueError(kind)

# }}}


def rank_program(nranks, variant):
    """The rank-local DAG of a two-round halo exchange (as a function of the
    communicator); returns the DictOfNamedArrays."""
    def build(rank):
        left, right = (rank - 1) % nranks, (rank + 1) % nranks
        x = pt.make_placeholder("x", (4,), np.float64)

        def recv(src, tag):
            return pt.make_distributed_recv(src_rank=src, comm_tag=tag,
                                            shape=(4,), dtype=np.float64)
        halo = (recv(left, "u_to_right") + recv(right, "u_to_left")
                + recv(left, "v_to_right") + recv(right, "v_to_left"))
        y = x + halo
        sends = [(3 * x, left, "u_to_left"), (5 * x, right, "u_to_right"),
                 (7 * x, left, "v_to_left"), (11 * x, right, "v_to_right")]
        if variant == "two-rounds":
            out = y * recv(left, "u_corr")
            sends.append((13 * y, right, "u_corr"))
        elif variant == "stored-crossing":
            # three stored arrays computed before the exchange and used
            # after it: several part outputs are named at the same moment
            s1 = (x + 1).tagged(pt.tags.ImplStored())
            s2 = (x * 2).tagged(pt.tags.ImplStored())
            s3 = pt.sin(x).tagged(pt.tags.ImplStored())
            sends = [(s1 + s2 + s3, right, "u_to_right"),
                     (3 * x, left, "u_to_left"), (7 * x, left, "v_to_left"),
                     (11 * x, right, "v_to_right")]
            out = (y * s3 + s1 * s2).tagged(pt.tags.ImplStored())
        else:
            out = y * 2
        for data, dest, tag in sends:
            out = pt.staple_distributed_send(data, dest_rank=dest,
                                             comm_tag=tag, stapled_to=out)
        return pt.make_dict_of_named_arrays({"out": out, "aux": y + 1})
    return build


def describe_partition(parts, num=None, next_tag=None):
    lines = []
    for pid, part in parts.parts.items():
        lines.append(("part", pid, sorted(part.needed_pids),
                      sorted(part.user_input_names),
                      sorted(part.partition_input_names),
                      sorted(part.output_names)))
        for name, rv in part.name_to_recv_node.items():
            lines.append(("recv", pid, name, rv.src_rank, rv.comm_tag))
        for name, sends in part.name_to_send_nodes.items():
            for sd in sends:
                lines.append(("send", pid, name, sd.dest_rank, sd.comm_tag))
    for name, ary in parts.name_to_output.items():
        inputs = sorted(i.name for i in pt.transform.InputGatherer()(ary))
        lines.append(("output", name, type(ary).__name__, inputs))
    lines.append(("overall", list(parts.overall_output_names)))
    if num is not None:
        for pid, part in num.parts.items():
            for name, rv in part.name_to_recv_node.items():
                lines.append(("numbered-recv", pid, name, rv.comm_tag))
            for name, sends in part.name_to_send_nodes.items():
                for sd in sends:
                    lines.append(("numbered-send", pid, name, sd.comm_tag))
        lines.append(("next_tag", next_tag))
    return lines


def observe_kernel(bp):
    """Hash-free, order-faithful view of a generated kernel: instruction
    order, text of assignee and expression, *sorted* iname / dependency sets
    (they are sets: their printing order is loopy's business), argument
    order, temporaries, domains, bound arguments."""
    knl = bp.program.default_entrypoint
    insns = []
    for i in knl.instructions:
        insns.append((i.id, str(getattr(i, "assignee", getattr(
            i, "assignees", ""))), str(i.expression),
            sorted(i.within_inames), sorted(i.depends_on)))
    return (insns,
            [(a.name, str(getattr(a, "shape", None)), str(a.dtype))
             for a in knl.args],
            sorted(knl.temporary_variables),
            [str(d) for d in knl.domains],
            sorted((k, str(v.expression)) for k, v in
                   knl.substitutions.items()),
            list(bp.bound_arguments))
