"""Aggregation of obligation results: verdicts, replays, known findings,
evidence files, exit codes."""
from __future__ import annotations

import fnmatch
import json
import os
import re
import subprocess
import sys
import time

from . import core

VERIF = os.path.dirname(os.path.dirname(os.path.abspath(__file__)))


def load_known():
    p = os.path.join(VERIF, "known_findings.json")
    if not os.path.exists(p):
        return []
    with open(p) as f:
        return json.load(f)["findings"]


def known_match(known, prop, key):
    for k in known:
        if k.get("status") != "known" or k["property"] != prop:
            continue
        if fnmatch.fnmatchcase(key, k["key"]):
            return k
    return None


def _short(m, n=12):
    if not isinstance(m, dict):
        return m
    return {k: m[k] for k in list(m)[:n]}


def _slug(s):
    return re.sub(r"[^A-Za-z0-9_.=-]+", "_", s)[:150]


def write_replay(prop, key, contract, inst, clause, rec):
    d = os.path.join(VERIF, "replays", prop)
    os.makedirs(d, exist_ok=True)
    path = os.path.join(d, _slug(key) + ".py")
    body = None
    try:
        body = contract.replay(inst, clause, rec.get("model") or {},
                               rec.get("info"))
    except Exception as e:  # noqa: BLE001
        body = None
        rec = dict(rec, replay_error=repr(e))
    verifier_output = json.dumps(
        {k: rec.get(k) for k in ("status", "backend", "seconds", "model",
                                 "reason", "info", "path")}, indent=1)
    with open(path, "w") as f:
        f.write(f'"""Replay of a refuted obligation.\n\nproperty   : {prop}\n'
                f'obligation : {key}\n'
                f'tree       : {core_repo_root()}\n"""\n')
        f.write(f"OBLIGATION = {key!r}\n")
        f.write(f"MODEL = {rec.get('model')!r}\n")
        f.write(f"INFO = {rec.get('info')!r}\n")
        f.write(f"VERIFIER_OUTPUT = '''{verifier_output}'''\n")
        if body is None:
            f.write("import sys\nprint('no executable input for this "
                    "obligation; verifier output:')\nprint(VERIFIER_OUTPUT)\n"
                    "sys.exit(2)\n")
        else:
            f.write(body)
    return path, body is not None


def core_repo_root():
    import pytato
    return os.path.dirname(os.path.dirname(os.path.abspath(pytato.__file__)))


def run_replay(path):
    env = dict(os.environ)
    pp = [VERIF]
    if os.environ.get("VERIF_REPO"):
        pp.insert(0, os.environ["VERIF_REPO"])
    env["PYTHONPATH"] = os.pathsep.join(pp)
    try:
        p = subprocess.run([sys.executable, path], capture_output=True,
                           text=True, timeout=300, env=env, check=False)
        out = p.stdout + p.stderr
        if len(out) > 3000:
            out = out[:1500] + "\n[...]\n" + out[-1500:]
        return p.returncode, out
    except subprocess.TimeoutExpired:
        return 124, "replay timed out"


def sampled_replays(prop, tier, normal):
    """Run the contracts' replay scripts -- the real code, natively, against
    the NumPy/oracle side of the replay -- on *admissible* inputs: models of
    the path premises of proved obligations (core._cover_and_sample).

    What it is for: (1) the specification in an ``ensures`` was proved equal
    to the code for all inputs; the replay compares the code with NumPy on
    this input; so an agreeing replay validates the specification against
    NumPy itself on the sample, and a spec that silently mirrors a wrong code
    shows up as REPRODUCED; (2) a replay script that crashes would turn a
    later real refutation into "no-failing-input-found" -- crashes are
    counted and listed; (3) a concrete bounded exploration of the real code.
    Never counted as proved.
    """
    import concurrent.futures as cf
    per_contract = 3 if tier != "thorough" else 12
    jobs = []
    count: dict[str, int] = {}
    d = os.path.join(VERIF, "replays", prop, "_sample")
    import random
    seed = os.environ.get("VERIF_SEED", "0") or "0"
    cands: dict[str, list] = {}
    for r in sorted(normal, key=lambda r: (r["contract"], r["instance"])):
        for smp in r.get("replay_samples", []):
            cands.setdefault(r["contract"], []).append((r, smp))
    chosen = []
    for cname, lst in sorted(cands.items()):
        rng = random.Random(f"{seed}|{prop}|{cname}")
        chosen.extend(rng.sample(lst, min(len(lst), per_contract)))
    for r, smp in chosen:
        c = core.REGISTRY[r["contract"]]
        for _once in (0,):
            bodies = {}
            for clause, info in smp["clauses"]:
                try:
                    body = c.replay(r["inst"], clause, smp["model"], info)
                except Exception:  # noqa: BLE001
                    body = None
                if body and body not in bodies:
                    bodies[body] = (clause, info)
                if len(bodies) >= 2:
                    break
            for body, (clause, info) in bodies.items():
                key = f"{c.name}|{clause}|{r['instance']}"
                os.makedirs(d, exist_ok=True)
                path = os.path.join(d, _slug(key) + f".p{smp['path']}.py")
                src = (f'"""Sampled replay (admissible input from the path '
                       f'premise).\n\nproperty   : {prop}\nobligation : '
                       f'{key}\n"""\n'
                       f"OBLIGATION = {key!r}\nMODEL = {smp['model']!r}\n"
                       f"INFO = {info!r}\nVERIFIER_OUTPUT = 'proved'\n"
                       + body)
                with open(path, "w") as f:
                    f.write(src)
                jobs.append((key, path, src, smp["model"]))
                count[c.name] = count.get(c.name, 0) + 1
    outcomes = dict(agree=0, no_input=0, crashed=0, reproduced=0)
    failures, crashes = [], []
    with cf.ThreadPoolExecutor(max_workers=min(16, os.cpu_count() or 1)) as ex:
        for (key, path, src, model), (rc, out) in zip(
                jobs, ex.map(lambda j: run_replay(j[1]), jobs)):
            if rc == 0:
                outcomes["agree"] += 1
            elif rc == 2:
                outcomes["no_input"] += 1
            elif rc == 1 and "REPRODUCED" in out:
                outcomes["reproduced"] += 1
                first = next((ln for ln in out.splitlines()
                              if "REPRODUCED" in ln), "")[:300]
                failures.append(dict(
                    key=key, replay_src=src,
                    what=f"sampled replay on an admissible input {_short(model)}"
                         f": {first}"))
            else:
                outcomes["crashed"] += 1
                crashes.append(dict(key=key, rc=rc,
                                    tail=out.strip().splitlines()[-1:][:1]))
    return dict(
        name="replay-sample", kind="bounded",
        what="replay scripts (real code, natively, against the NumPy/oracle "
             "side) on models of the path premises of proved obligations",
        bound=f"<= {per_contract} scripts per contract, one premise model each",
        evaluations=len(jobs), outcomes=outcomes, crashed=crashes[:20],
        contracts_with_replay=len(count), failures=failures)


def run_property(prop, tier, *, jobs=None, only=None, verbose=False,
                 write_evidence=True):
    t0 = time.time()
    seed = int(os.environ.get("VERIF_SEED", "0") or 0)
    timeout_ms = 60000 if tier == "quick" else 300000
    from contracts import meta as META
    pmeta = META.PROPERTIES.get(prop)
    if pmeta is None:
        print(f"property {prop} is not claimed (see MANIFEST.not_applicable)")
        return 2
    tasks, canary_tasks = core.tasks_for(prop, tier, timeout_ms)
    if only:
        tasks = [t for t in tasks if only in t[0]]
        canary_tasks = [t for t in canary_tasks if only in t[0][0]]
    all_tasks = tasks + [t for t, _ in canary_tasks]
    results = core.run_all(all_tasks, jobs=jobs)
    normal = [r for r in results if not r["canary"]]
    canary_res = [r for r in results if r["canary"]]

    # extra (non-SMT) checks: bounded stand-ins, static effect analysis
    extras = []
    for fn in META.EXTRAS.get(prop, []):
        if only and only not in fn.__name__:
            continue
        try:
            extras.append(fn(tier, seed))
        except Exception:  # noqa: BLE001
            import traceback
            extras.append(dict(name=fn.__name__, kind="fault",
                               fault=traceback.format_exc(), failures=[],
                               evaluations=0))

    known = load_known()
    faults, undecided = [], []
    by_key: dict[str, list] = {}
    functions: dict[str, dict] = {}
    backends: dict[str, int] = {}
    solver_s = 0.0
    samples = []
    call_kinds: dict[str, int] = {}
    native_repo: dict[str, int] = {}
    unordered_natives: dict[str, int] = {}
    paths_total = 0
    nontrivial_total = 0
    for r in normal:
        if r["fault"]:
            faults.append(f"{r['contract']}[{r['instance']}]: {r['fault']}")
        for u in r["undecided"]:
            undecided.append(f"{r['contract']}[{r['instance']}]: {u}")
        for fdesc in r["functions"]:
            functions[fdesc["function"]] = fdesc
        for k, v in r["call_log"].items():
            kind = k.split(":", 1)[0]
            call_kinds[kind] = call_kinds.get(kind, 0) + v
            if kind == "unordered-to-unclassified-native":
                unordered_natives[k.split(":", 1)[1]] = unordered_natives.get(
                    k.split(":", 1)[1], 0) + v
            if kind == "native" and k.split(":", 1)[1].startswith("pytato"):
                native_repo[k.split(":", 1)[1]] = native_repo.get(
                    k.split(":", 1)[1], 0) + v
        paths_total += r["paths"]
        nontrivial_total += r.get("nontrivial_paths", 0)
        if not r["obligations"] and not r["fault"] and not r["undecided"] \
                and not r.get("generated_any_prop"):
            # an instance that generates no obligation at all is vacuous
            undecided.append(f"{r['contract']}[{r['instance']}]: "
                             "zero obligations generated")
        for o in r["obligations"]:
            key = f"{r['contract']}|{o['clause']}|{r['instance']}"
            by_key.setdefault(key, []).append((r, o))
            backends[o["backend"]] = backends.get(o["backend"], 0) + 1
            solver_s += o["seconds"]
            if "smt2_head" in o and len(samples) < 4:
                samples.append(dict(obligation=key, path=o["path"],
                                    status=o["status"], backend=o["backend"],
                                    smt2_head=o["smt2_head"]))

    n_ob = sum(len(v) for v in by_key.values())
    n_proved = sum(1 for v in by_key.values() for _, o in v
                   if o["status"] == "proved")
    refuted_keys = {k: v for k, v in by_key.items()
                    if any(o["status"] == "refuted" for _, o in v)}
    unknown_keys = [k for k, v in by_key.items()
                    if any(o["status"] == "unknown" for _, o in v)
                    and k not in refuted_keys]
    for k in unknown_keys:
        o = next(o for _, o in by_key[k] if o["status"] == "unknown")
        undecided.append(f"{k}: solver returned unknown ({o['backend']}, "
                         f"{o['seconds']}s, reason: {o.get('reason')})")

    # canaries: every one must be refuted on its clause
    canary_ok = 0
    for (t, clause) in canary_tasks:
        rs = [r for r in canary_res if r["contract"] == t[0]
              and r["canary"] == t[4]
              and r["instance"] == core._inst_label(t[1])]
        hit = any(o["status"] == "refuted" and o["clause"].startswith(clause)
                  for r in rs for o in r["obligations"])
        if hit:
            canary_ok += 1
        else:
            faults.append(f"canary {t[0]}/{t[4]} was NOT refuted on {clause} "
                          f"(verifier would accept a wrong spec): "
                          f"{[r['fault'] for r in rs]}")

    violations = []
    known_hits = []
    lines = []
    # group refuted obligations by (contract, clause): one line per group
    groups: dict[str, list] = {}
    for key in sorted(refuted_keys):
        gk = "|".join(key.split("|")[:2])
        groups.setdefault(gk, []).append(key)
    for gk, keys in groups.items():
        unknown_keys_ = []
        kfs = {}
        for key in keys:
            kf = known_match(known, prop, key)
            if kf is None:
                unknown_keys_.append(key)
            else:
                kfs[kf["what"]] = key
                known_hits.append(dict(key=key, what=kf["what"]))
        for what, key in kfs.items():
            lines.append(f"KNOWN-FINDING: property={prop} {what} [{key}]")
        if not unknown_keys_:
            continue
        key = unknown_keys_[0]
        r, o = next((r, o) for r, o in refuted_keys[key]
                    if o["status"] == "refuted")
        c = core.REGISTRY[r["contract"]]
        path, has_body = write_replay(prop, key, c, r["inst"], o["clause"], o)
        reproduced = False
        out = ""
        if has_body:
            rc, out = run_replay(path)
            reproduced = rc == 1 and "REPRODUCED" in out
            with open(path, "a") as f:
                f.write(f"\n# replay exit status when written: {rc}\n")
                f.write("# " + out.replace("\n", "\n# ")[:2500] + "\n")
        for k2 in unknown_keys_:
            violations.append(dict(key=k2, replay=path, reproduced=reproduced,
                                   model=o["model"] if k2 == key else None,
                                   info=o["info"] if k2 == key else None))
        suffix = "" if reproduced else " no-failing-input-found"
        lines.append(f"VIOLATION property={prop} replay={path}{suffix}")
        lines.append(f"  obligation {key} refuted by {o['backend']} "
                     f"(+{len(unknown_keys_) - 1} more instance(s) of this "
                     f"clause); model={_short(o['model'])} info={o['info']}")
        if out:
            lines.append("  replay: " + out.strip().splitlines()[0][:300])

    # sampled replays (bounded stand-in, and a guard on the specifications
    # and on the replay scripts themselves)
    if not only or True:
        try:
            extras.append(sampled_replays(prop, tier, normal))
        except Exception:  # noqa: BLE001
            import traceback
            extras.append(dict(name="replay-sample", kind="fault",
                               fault=traceback.format_exc(), failures=[],
                               evaluations=0))

    # extras
    extra_summ = []
    for ex in extras:
        if ex.get("fault"):
            faults.append(f"extra {ex['name']}: {ex['fault']}")
        n_reported = 0
        if ex.get("kind") == "spec-validation":
            # a specification function that is not the definition it claims
            # to be: the checker is wrong, not the code
            for fl in ex.get("failures", []):
                faults.append(f"extra {ex['name']}: {fl['key']}: {fl['what']}")
            extra_summ.append({k: v for k, v in ex.items()
                               if k not in ("failures",)}
                              | dict(n_failures=len(ex.get("failures", []))))
            continue
        for fl in ex.get("failures", []):
            key = f"{ex['name']}|{fl['key']}"
            kf = known_match(known, prop, key)
            if kf is None and ex.get("name") == "replay-sample":
                # an instance-level replay started from a path on which the
                # clause held may still run into the listed finding of the
                # same clause and instance
                kf = known_match(known, prop, fl["key"])
            if kf is not None:
                known_hits.append(dict(key=key, what=kf["what"]))
                lines.append(f"KNOWN-FINDING: property={prop} {kf['what']} "
                             f"[{key}]")
                continue
            n_reported += 1
            if n_reported > 6:
                # many failures of one stand-in: report them in the evidence,
                # replay only the first few
                violations.append(dict(key=key, replay=None, reproduced=None,
                                       info=fl.get("what")))
                if n_reported == 7:
                    lines.append(f"  (further failures of {ex['name']} are "
                                 "listed in the evidence file only)")
                continue
            d = os.path.join(VERIF, "replays", prop)
            os.makedirs(d, exist_ok=True)
            path = os.path.join(d, _slug(key) + ".py")
            with open(path, "w") as f:
                f.write(f'"""Replay: {prop} {key}\n{fl.get("what", "")}\n"""\n')
                f.write(fl.get("replay_src") or
                        "import sys\nprint('no executable input')\n"
                        "sys.exit(2)\n")
            reproduced = False
            if fl.get("replay_src"):
                rc, out = run_replay(path)
                reproduced = rc == 1 and "REPRODUCED" in out
            violations.append(dict(key=key, replay=path,
                                   reproduced=reproduced,
                                   info=fl.get("what")))
            suffix = "" if reproduced else " no-failing-input-found"
            lines.append(f"VIOLATION property={prop} replay={path}{suffix}")
            lines.append(f"  {key}: {fl.get('what')}")
        if ex.get("name") == "replay-sample":
            lines.append(f"  replay-sample: {ex['evaluations']} script(s) on "
                         f"premise models: {ex['outcomes']}")
            for cr in ex.get("crashed", [])[:8 if verbose else 3]:
                lines.append(f"    crashed: {cr['key']} rc={cr['rc']} "
                             f"{cr['tail']}")
        extra_summ.append({k: v for k, v in ex.items()
                           if k not in ("failures",)}
                          | dict(n_failures=len(ex.get("failures", []))))

    # obligations refuted only by listed known findings are reported apart:
    # the proof claim is about everything else
    known_keys = {k["key"] for k in known_hits}
    n_known_ob = sum(1 for k, v in by_key.items() if k in known_keys
                     for _, o in v if o["status"] != "proved")
    wall = time.time() - t0
    if n_ob == 0 and not extras:
        undecided.append("no obligations were generated at all")

    if faults:
        code = 3
    elif violations:
        code = 1
    elif undecided:
        code = 2
    else:
        code = 0
    if violations and code == 3:
        code = 1  # a refutation stands even if another part faulted

    if write_evidence:
        ev = dict(
            property_id=prop, tier=tier, seed=seed, level=pmeta["level"],
            wall_s=round(wall, 2), violations=len(violations),
            assumptions=list(pmeta.get("assumptions", [])) + list(
                META.GLOBAL_ASSUMPTIONS),
            coverage=dict(
                obligations=n_ob - n_known_ob + sum(
                    e.get("obligations", 0) for e in extras),
                obligations_refuted_by_listed_known_findings=n_known_ob,
                discharged=n_proved + sum(e.get("discharged", 0)
                                          for e in extras),
                checker_cmd=f"./check {prop} --tier {tier}",
                trusted_base=list(pmeta.get("trusted_base", [])) + list(
                    META.GLOBAL_TRUSTED),
                explanation=pmeta.get("explanation", ""),
                samples=samples or [dict(note="see extras")],
                distinct_obligation_keys=len(by_key),
                structural_instances=len(normal),
                paths_explored=paths_total,
                premise_covers=dict(
                    note="vacuity guard: paths carrying obligations whose "
                         "assumptions+branch conditions were checked "
                         "satisfiable; a contradictory one is reported "
                         "undecided",
                    checked=sum(r.get("covers", 0) for r in normal),
                    solver_unknown=sum(r.get("cover_unknown", 0)
                                       for r in normal)),
                programs=len(normal),
                disagreements_checked=len(violations),
                evaluations=paths_total,
                distinct_nontrivial=nontrivial_total,
                rule=pmeta.get("evaluation_rule") or (
                    "one evaluation = one interpreted execution of the real "
                    "functions under contract along one feasible path of one "
                    "structural instance (instances and decision vectors are "
                    "enumerated, hence distinct); it counts as non-trivial if "
                    "it generated at least one obligation"),
                exhaustive=bool(pmeta.get("exhaustive", False)),
                canaries_refuted=f"{canary_ok}/{len(canary_tasks)}",
                backends=backends,
                solver_seconds=round(solver_s, 2),
                functions_under_contract=sorted(
                    functions.values(), key=lambda d: d["function"]),
                declared_functions=sorted({
                    f for c in core.REGISTRY.values()
                    if prop in c.properties for f in c.functions}),
                call_site_treatment=call_kinds,
                natives_given_sets_assumed_order_insensitive=dict(
                    sorted(unordered_natives.items())),
                repo_callables_run_natively=dict(
                    note="repository classes constructed / callables run by "
                         "CPython instead of the interpreter (constructors, "
                         "generated dataclass methods); still explored "
                         "symbolically through operator overloading",
                    items=dict(sorted(native_repo.items(),
                                      key=lambda kv: -kv[1])[:40])),
                structural_bound=pmeta.get("structural_bound", ""),
                bounded_standins=[e for e in extra_summ
                                  if e.get("kind") == "bounded"],
                other_checks=[e for e in extra_summ
                              if e.get("kind") != "bounded"],
                unverified_surroundings=pmeta.get(
                    "unverified_surroundings", []),
                known_findings_hit=known_hits,
                undecided=undecided[:50],
                faults=faults[:20],
                refuted=[dict(key=v["key"], replay=v["replay"],
                              reproduced=v["reproduced"])
                         for v in violations][:50],
                exit_code=code,
            ))
        os.makedirs(os.path.join(VERIF, "evidence"), exist_ok=True)
        with open(os.path.join(VERIF, "evidence", f"{prop}.json"), "w") as f:
            json.dump(ev, f, indent=1, sort_keys=False)
            f.write("\n")

    for ln in lines:
        print(ln)
    for u in undecided[:30]:
        print(f"UNDECIDED: {u}")
    for fl in faults[:10]:
        print(f"CHECKER-FAULT: {fl}")
    print(f"{prop} [{tier}]: {n_proved}/{n_ob} obligations discharged over "
          f"{len(normal)} instances, {paths_total} paths; "
          f"{len(violations)} violation(s), {len(known_hits)} known, "
          f"{len(undecided)} undecided, canaries {canary_ok}/"
          f"{len(canary_tasks)}; {wall:.1f}s; exit {code}")
    return code
