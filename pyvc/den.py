"""Denotation of index-lambda scalar expressions as z3 terms.

This is the (trusted, documented) *meaning* of an ``IndexLambda``:
``_0 .. _{n-1}`` are the output indices, a name bound in ``bindings`` denotes
that array (an uninterpreted function from index vectors to values, one per
array *object*), ``Subscript`` applies it, ``If``/``Comparison``/logical
nodes have their Python meaning, ``//`` and ``%`` are floor division and
sign-of-divisor modulo (doc of IndexLambda; what loopy's C target implements),
``Reduce`` is the reduction of its body over the half-open box of its bounds.

Values and indices are both z3 ``Int`` (exact arithmetic; floating point is
out of scope, see DESIGN).  Operations that have no integer meaning (true
division, power, math calls, casts, NaN, non-integer literals) are
uninterpreted functions, hence not assumed commutative/associative.

Every array access met while walking the term is recorded together with the
conjunction of the ``If`` guards it sits under -- that is what makes the
"accesses under conditionals" clause of the memory-safety property checkable.
"""
from __future__ import annotations

import z3

import pymbolic.primitives as prim

from .sym import EngineFault, OutsideSubset, SymBool, SymInt, z_of, zb_of


class Access:
    __slots__ = ("array", "indices", "guard", "name")

    def __init__(self, array, indices, guard, name):
        self.array = array
        self.indices = indices
        self.guard = guard
        self.name = name


class Reduction:
    """Top-level reduction: value = OP_{r in box(bounds)} body(r)."""

    def __init__(self, op, bounds, body, rvars):
        self.op = op              # reduction operation object
        self.bounds = bounds      # list of (name, lo, hi) z3 terms
        self.body = body          # z3 term over rvars
        self.rvars = rvars        # name -> z3 Int const


def reduction_to_term(red: "Reduction"):
    """The value of a Reduction object as a term: an uninterpreted reducer
    applied to the bounds and the body as a lambda-term (the form nested
    reductions take)."""
    lam = as_int(red.body)
    for name, _lo, _hi in reversed(red.bounds):
        lam = z3.Lambda([red.rvars[name]], lam)
    args = []
    for _n, lo, hi in red.bounds:
        args += [lo, hi]
    sorts = [a.sort() for a in args] + [lam.sort()]
    f = z3.Function(f"RED_{type(red.op).__name__}_{len(red.bounds)}",
                    *sorts, z3.IntSort())
    return f(*args, lam)


class ArrayModel:
    """Maps array *objects* to uninterpreted functions / size-param ints."""

    def __init__(self):
        self.by_id: dict[int, tuple] = {}
        self.keep: list = []
        self.n = 0

    def fn_for(self, arr, rank):
        k = id(arr)
        if k in self.by_id:
            f, r = self.by_id[k][:2]
            if r != rank:
                raise EngineFault("array used with two different ranks")
            return f
        name = f"A{self.n}"
        self.n += 1
        if rank == 0:
            f = z3.Int(f"{name}_val")
        else:
            f = z3.Function(name, *([z3.IntSort()] * rank), z3.IntSort())
        self.by_id[k] = (f, rank)
        self.keep.append(arr)
        return f

    def alias(self, new, old, rank):
        """Declare that *new* denotes the same values as *old* (e.g. rec(x)=x)."""
        f = self.fn_for(old, rank)
        self.by_id[id(new)] = (f, rank)
        self.keep.append(new)


_UF: dict[tuple, z3.FuncDeclRef] = {}


def uf(name, arity, out=None):
    k = (name, arity)
    if k not in _UF:
        _UF[k] = z3.Function(name, *([z3.IntSort()] * arity),
                             out or z3.IntSort())
    return _UF[k]


def as_int(t):
    if isinstance(t, Reduction):
        return reduction_to_term(t)
    if z3.is_bool(t):
        return z3.If(t, z3.IntVal(1), z3.IntVal(0))
    return t


def as_bool(t):
    if z3.is_bool(t):
        return t
    return t != 0


class Den:
    def __init__(self, arrays: ArrayModel, bindings, shape_of, *,
                 size_param=None, cast_identity=False):
        """
        :arg bindings: name -> array object
        :arg shape_of: callable(array object) -> tuple of shape components
        :arg size_param: callable(array object) -> z3 Int if the object is a
            size parameter (scalar input), else None
        """
        self.arrays = arrays
        self.bindings = bindings
        self.shape_of = shape_of
        self.size_param = size_param or (lambda a: None)
        self.accesses: list[Access] = []
        self.cast_identity = cast_identity
        self.inline_index_lambdas = True
        self._lowered: dict = {}
        self.guards: list = []
        #: nesting depth of reductions being denoted: a reduction variable of
        #: an inner reduction gets a name of its own (no capture when an
        #: inlined operand uses the same variable name as its consumer)
        self._redn_depth = 0
        # reduction variables whose bounds are read from arrays (CSR rows)
        self.data_dependent_vars: list = []

    # -- entry points
    def top(self, expr, env):
        """Denote *expr*; a top-level Reduce becomes a Reduction object."""
        from pytato.scalar_expr import Reduce
        if isinstance(expr, Reduce):
            return self._reduction(expr, env)
        return self.rec(expr, env)

    def _reduction(self, expr, env):
        env2 = dict(env)
        rvars = {}
        bounds = []
        for name, (lo, hi) in expr.bounds.items():
            lo_t = as_int(self.rec(lo, env))
            hi_t = as_int(self.rec(hi, env))
            # canonical, depth-indexed names: z3 compares the *names* of
            # lambda-bound variables, so alpha-equivalent reductions must be
            # built with the same ones; depth-indexing avoids capture
            v = z3.Int(f"rv@{self._redn_depth}#{len(rvars)}")
            if self._has_array_app(lo_t) or self._has_array_app(hi_t):
                self.data_dependent_vars.append(v)
            rvars[name] = v
            env2[name] = v
            bounds.append((name, lo_t, hi_t))
        in_box = z3.And([z3.And(lo <= rvars[n], rvars[n] < hi)
                         for n, lo, hi in bounds])
        self.guards.append(in_box)
        self._redn_depth += 1
        try:
            body = self.rec(expr.inner_expr, env2)
        finally:
            self._redn_depth -= 1
        self.guards.pop()
        return Reduction(expr.op, bounds, body, rvars)

    def _has_array_app(self, t):
        names = set()
        for f, rank in self.arrays.by_id.values():
            names.add(f.decl().name() if rank == 0 else f.name())
        seen, stack = set(), [t]
        while stack:
            x = stack.pop()
            if x.get_id() in seen:
                continue
            seen.add(x.get_id())
            if z3.is_app(x):
                if x.decl().kind() == z3.Z3_OP_UNINTERPRETED and \
                        x.decl().name() in names:
                    return True
                stack.extend(x.children())
        return False

    def is_data_dependent(self, t):
        if self._has_array_app(t):
            return True
        ids = {v.get_id() for v in self.data_dependent_vars}
        seen, stack = set(), [t]
        while stack:
            x = stack.pop()
            if x.get_id() in seen:
                continue
            seen.add(x.get_id())
            if x.get_id() in ids:
                return True
            if z3.is_app(x):
                stack.extend(x.children())
        return False

    # -- recursion
    def rec(self, e, env):
        if type(e) is SymInt:
            return e.t
        if type(e) is SymBool:
            return e.t
        if isinstance(e, bool):
            return z3.BoolVal(bool(e))
        z = z_of(e)
        if z is not None:
            return z
        try:
            import numpy as np
            if isinstance(e, np.bool_):
                return z3.BoolVal(bool(e))
            if isinstance(e, (float, complex, np.number)):
                re_ = e.real if isinstance(
                    e, (complex, np.complexfloating)) else e
                im_ = e.imag if isinstance(
                    e, (complex, np.complexfloating)) else 0
                if im_ == 0 and re_ == re_ and abs(re_) != float("inf") \
                        and re_ == int(re_):
                    # integral literal of float type: the integer it denotes
                    # (exact arithmetic)
                    return z3.IntVal(int(re_))
                if im_ == 0 and re_ == re_:
                    # non-integral real literal: an uninterpreted constant,
                    # sign-canonical so that -(c) and (-c) coincide
                    if re_ < 0:
                        return -z3.Int(f"lit_float_{float(-re_)!r}")
                    return z3.Int(f"lit_float_{float(re_)!r}")
                if re_ != re_:
                    return z3.Int("nan_float64")
                return z3.Int(f"lit_complex_{complex(e)!r}")
        except OutsideSubset:
            raise
        except Exception:  # noqa: BLE001
            pass
        m = getattr(self, "d_" + type(e).__name__, None)
        if m is None:
            raise OutsideSubset(f"den: no meaning for {type(e).__name__}")
        return m(e, env)

    def _nested(self, arr, idx_t):
        """A binding that is itself an IndexLambda: its own denotation at the
        subscript (the value of a node is a function of its children)."""
        from pytato.array import IndexLambda, InputArgumentBase
        if not self.inline_index_lambdas:
            return None
        if not isinstance(arr, IndexLambda):
            # other intermediate node kinds: through the real lowering (whose
            # correctness is the C02 contract), inputs stay uninterpreted
            if isinstance(arr, InputArgumentBase) or \
                    type(arr).__module__.startswith("pyvc"):
                return None
            k = id(arr)
            if k not in self._lowered:
                from pytato.transform.lower_to_index_lambda import \
                    to_index_lambda
                try:
                    self._lowered[k] = (arr, to_index_lambda(arr))
                except Exception:  # noqa: BLE001
                    self._lowered[k] = (arr, None)
            arr = self._lowered[k][1]
            if arr is None:
                return None
        saved = self.bindings
        self.bindings = arr.bindings
        try:
            env = {f"_{d}": t for d, t in enumerate(idx_t)}
            return as_int(self.rec(arr.expr, env))
        finally:
            self.bindings = saved

    def d_Variable(self, e, env):
        if e.name in env:
            return env[e.name]
        if e.name in self.bindings:
            arr = self.bindings[e.name]
            sp = self.size_param(arr)
            if sp is not None:
                return sp
            if len(self.shape_of(arr)) == 0:
                nested = self._nested(arr, ())
                if nested is not None:
                    return nested
            if len(self.shape_of(arr)) != 0:
                raise OutsideSubset(
                    f"den: non-scalar binding {e.name} used without subscript")
            f = self.arrays.fn_for(arr, 0)
            self.accesses.append(Access(arr, (), self._guard(), e.name))
            return f
        raise OutsideSubset(f"den: unbound variable {e.name}")

    def _guard(self):
        return z3.And(self.guards) if self.guards else z3.BoolVal(True)

    def d_Subscript(self, e, env):
        agg = e.aggregate
        if not isinstance(agg, prim.Variable):
            raise OutsideSubset("den: subscript of non-variable")
        if agg.name not in self.bindings:
            raise OutsideSubset(f"den: unbound array {agg.name}")
        arr = self.bindings[agg.name]
        idx = e.index if isinstance(e.index, tuple) else (e.index,)
        idx_t = tuple(as_int(self.rec(i, env)) for i in idx)
        rank = len(self.shape_of(arr))
        if rank != len(idx_t):
            raise EngineFault(
                f"den: {agg.name} has rank {rank} but is indexed with "
                f"{len(idx_t)} indices")
        nested = self._nested(arr, idx_t)
        if nested is not None:
            # the access into the intermediate result itself stays subject
            # to the bounds obligation
            self.accesses.append(Access(arr, idx_t, self._guard(), agg.name))
            return nested
        f = self.arrays.fn_for(arr, rank)
        self.accesses.append(Access(arr, idx_t, self._guard(), agg.name))
        if rank == 0:
            return f
        return f(*idx_t)

    def d_Sum(self, e, env):
        ts = [as_int(self.rec(c, env)) for c in e.children]
        r = ts[0]
        for t in ts[1:]:
            r = r + t
        return r

    def d_Product(self, e, env):
        ts = [as_int(self.rec(c, env)) for c in e.children]
        r = ts[0]
        for t in ts[1:]:
            r = r * t
        return r

    def d_FloorDiv(self, e, env):
        from .sym import py_floordiv
        a = as_int(self.rec(e.numerator, env))
        b = as_int(self.rec(e.denominator, env))
        return py_floordiv(a, b)

    def d_Remainder(self, e, env):
        from .sym import py_mod
        a = as_int(self.rec(e.numerator, env))
        b = as_int(self.rec(e.denominator, env))
        return py_mod(a, b)

    def d_Quotient(self, e, env):
        return uf("op_truediv", 2)(as_int(self.rec(e.numerator, env)),
                                   as_int(self.rec(e.denominator, env)))

    def d_Power(self, e, env):
        return uf("op_pow", 2)(as_int(self.rec(e.base, env)),
                               as_int(self.rec(e.exponent, env)))

    def d_Comparison(self, e, env):
        a = as_int(self.rec(e.left, env))
        b = as_int(self.rec(e.right, env))
        op = e.operator
        return {"==": lambda: a == b, "!=": lambda: a != b,
                "<": lambda: a < b, "<=": lambda: a <= b,
                ">": lambda: a > b, ">=": lambda: a >= b}[op]()

    def d_If(self, e, env):
        c = as_bool(self.rec(e.condition, env))
        self.guards.append(c)
        t = self.rec(e.then, env)
        self.guards.pop()
        self.guards.append(z3.Not(c))
        f = self.rec(e.else_, env)
        self.guards.pop()
        if z3.is_bool(t) and z3.is_bool(f):
            return z3.If(c, t, f)
        return z3.If(c, as_int(t), as_int(f))

    def d_LogicalAnd(self, e, env):
        return z3.And([as_bool(self.rec(c, env)) for c in e.children])

    def d_LogicalOr(self, e, env):
        return z3.Or([as_bool(self.rec(c, env)) for c in e.children])

    def d_LogicalNot(self, e, env):
        return z3.Not(as_bool(self.rec(e.child, env)))

    def d_Min(self, e, env):
        ts = [as_int(self.rec(c, env)) for c in e.children]
        r = ts[0]
        for t in ts[1:]:
            r = z3.If(t < r, t, r)
        return r

    def d_Max(self, e, env):
        ts = [as_int(self.rec(c, env)) for c in e.children]
        r = ts[0]
        for t in ts[1:]:
            r = z3.If(t > r, t, r)
        return r

    def d_BitwiseAnd(self, e, env):
        ts = [self.rec(c, env) for c in e.children]
        if all(z3.is_bool(t) for t in ts):
            return z3.And(ts)
        r = as_int(ts[0])
        for t in ts[1:]:
            r = uf("op_bitand", 2)(r, as_int(t))
        return r

    def d_BitwiseOr(self, e, env):
        ts = [self.rec(c, env) for c in e.children]
        if all(z3.is_bool(t) for t in ts):
            return z3.Or(ts)
        r = as_int(ts[0])
        for t in ts[1:]:
            r = uf("op_bitor", 2)(r, as_int(t))
        return r

    def d_BitwiseXor(self, e, env):
        ts = [self.rec(c, env) for c in e.children]
        r = ts[0]
        for t in ts[1:]:
            if z3.is_bool(r) and z3.is_bool(t):
                r = z3.Xor(r, t)
            else:
                r = uf("op_bitxor", 2)(as_int(r), as_int(t))
        return r

    def d_BitwiseNot(self, e, env):
        return uf("op_bitnot", 1)(as_int(self.rec(e.child, env)))

    def d_Call(self, e, env):
        fn = e.function
        name = fn.name if isinstance(fn, prim.Variable) else repr(fn)
        ps = [as_int(self.rec(p, env)) for p in e.parameters]
        if name == "pytato.zero":
            # documented meaning (zeros_like / dead-code elimination): the
            # constant 0, whatever the argument
            return z3.IntVal(0)
        return uf("call_" + name, len(ps))(*ps)

    def d_NaN(self, e, env):
        dt = getattr(e, "data_type", None)
        return z3.Int(f"nan_{getattr(dt, '__name__', dt)}")

    def d_TypeCast(self, e, env):
        inner = as_int(self.rec(e.inner_expr, env))
        ident = self.cast_identity(e) if callable(self.cast_identity) \
            else self.cast_identity
        if ident:
            # exact arithmetic: a cast to the (wider) result dtype keeps the
            # value -- stated assumption of the C01/C19 contracts
            return inner
        return uf(f"cast_{e.dtype}", 1)(inner)

    def d_Reduce(self, e, env):
        # nested reduction: fresh uninterpreted value, determined by
        # (op, bounds, body) through a lambda-term
        red = self._reduction(e, env)
        body = as_int(red.body)
        lam = body
        for name, _lo, _hi in reversed(red.bounds):
            lam = z3.Lambda([red.rvars[name]], lam)
        args = []
        for _n, lo, hi in red.bounds:
            args += [lo, hi]
        sorts = [a.sort() for a in args] + [lam.sort()]
        f = z3.Function(f"RED_{type(red.op).__name__}_{len(red.bounds)}",
                        *sorts, z3.IntSort())
        return f(*args, lam)
