"""Denotation of a *loopy kernel as built by pytato's code generator* (the
object returned by the real ``generate_loopy``, before loopy preprocesses or
schedules it) as z3 terms -- the counterpart of ``den.py`` one level further
down.

Meaning assigned to a kernel (the documented semantics of loopy's
instruction language, restricted to what pytato emits):

* every written variable (temporary or output argument) has exactly one
  writer, an ``Assignment``  ``v[i_1..i_k] = rhs``  whose subscripts are
  distinct inames of the instruction; the value of ``v`` at an index vector is
  ``rhs`` with those inames replaced -- *provided* the dependency edges order
  the writer before every reader (obligation ``deps``) and the writer's
  domain is the whole shape of ``v`` (obligation ``covers``);
* a scalar temporary written inside a loop nest is read by instructions of the
  same iteration: the shared inames keep their values;
* ``reduce(op, [r..], body)`` ranges over the box the kernel's domain gives
  the reduction inames (bounds may be scalar temporaries);
* a call to a substitution rule is its body with the arguments substituted;
* input arguments denote the user's arrays (uninterpreted functions shared
  with the pytato-level denotation), value arguments the size parameters.

Every read is recorded with its guard for the in-bounds obligation.
Everything else (CallInstructions of hand-written kernels, multiple writers,
non-iname subscripts on the left) is outside the subset -> undecided.
"""
from __future__ import annotations

import z3

import pymbolic.primitives as prim

from .den import Access, ArrayModel, Den, Reduction, as_int
from .sym import OutsideSubset

LOOPY_OP_TO_PYTATO = {
    "SumReductionOperation": "SumReductionOperation",
    "ProductReductionOperation": "ProductReductionOperation",
    "MaxReductionOperation": "MaxReductionOperation",
    "MinReductionOperation": "MinReductionOperation",
}


def _pytato_redn_op(lp_op):
    from pytato import reductions as R
    nm = type(lp_op).__name__
    cls = getattr(R, LOOPY_OP_TO_PYTATO.get(nm, ""), None)
    if cls is not None:
        return cls()
    # pytato registers all/any as loopy reduction operations of its own
    s = str(lp_op)
    for key, c in (("all", R.AllReductionOperation),
                   ("any", R.AnyReductionOperation)):
        if key in s or key in nm.lower():
            return c()
    raise OutsideSubset(f"lpden: reduction operation {lp_op!r}")


class KernelDen:
    def __init__(self, knl, arrays: ArrayModel, inputs, *, size_param,
                 cast_identity=True, inline=True):
        """
        :arg inputs: name -> pytato input object (Placeholder / DataWrapper)
        :arg size_param: name -> z3 Int for value arguments
        """
        import loopy as lp
        self.knl = knl
        self.arrays = arrays
        self.inputs = inputs
        self.size_param = size_param
        self.cast_identity = cast_identity
        #: False: a read of a written variable is an opaque application
        #: T_<name>(idx) (per-instruction obligations), True: the writer's
        #: right-hand side is substituted (value obligations)
        self.inline = inline
        self.writers: dict[str, list] = {}
        for insn in knl.instructions:
            if not isinstance(insn, lp.Assignment):
                raise OutsideSubset(
                    f"lpden: instruction kind {type(insn).__name__}")
            for nm in insn.assignee_var_names():
                self.writers.setdefault(nm, []).append(insn)
        self.by_id = {i.id: i for i in knl.instructions}
        self.accesses: list[Access] = []      # reads of written variables
        self.input_accesses: list[Access] = []
        self.reads: dict[str, set] = {}       # insn id -> variables read
        self._deps_closure: dict[str, frozenset] = {}
        self._stack: list[str] = []
        self.redn_depth = 0
        #: reduction variables whose bounds are read from input data (CSR)
        self.data_dependent_vars: list = []

    # -- structure
    def shape_of(self, name):
        k = self.knl
        if name in k.temporary_variables:
            return k.temporary_variables[name].shape
        if name in k.arg_dict:
            return getattr(k.arg_dict[name], "shape", ())
        raise OutsideSubset(f"lpden: unknown variable {name}")

    def shape_terms(self, name):
        return [self.scalar(s, {}, None) for s in (self.shape_of(name) or ())]

    def writer(self, name):
        ws = self.writers.get(name, [])
        if len(ws) != 1:
            raise OutsideSubset(f"lpden: {name} has {len(ws)} writers")
        return ws[0]

    def writer_indices(self, insn):
        a = insn.assignee
        if isinstance(a, prim.Variable):
            return ()
        if isinstance(a, prim.Subscript) and isinstance(a.aggregate,
                                                        prim.Variable):
            idx = a.index_tuple
            if all(isinstance(i, prim.Variable) for i in idx) and \
                    len({i.name for i in idx}) == len(idx) and \
                    all(i.name in insn.within_inames for i in idx):
                return tuple(i.name for i in idx)
        raise OutsideSubset(f"lpden: assignee {a} is not v[distinct inames]")

    def iname_bounds(self, iname, env, insn):
        """(lo, hi) z3 terms, hi exclusive."""
        from loopy.symbolic import pw_aff_to_expr
        b = self.knl.get_iname_bounds(iname, constants_only=False)
        lo = pw_aff_to_expr(b.lower_bound_pw_aff)
        hi = pw_aff_to_expr(b.upper_bound_pw_aff)
        return (self.scalar(lo, env, insn), self.scalar(hi, env, insn) + 1)

    def deps(self, insn_id):
        if insn_id not in self._deps_closure:
            seen, todo = set(), list(self.by_id[insn_id].depends_on)
            while todo:
                d = todo.pop()
                if d in seen or d not in self.by_id:
                    continue
                seen.add(d)
                todo.extend(self.by_id[d].depends_on)
            self._deps_closure[insn_id] = frozenset(seen)
        return self._deps_closure[insn_id]

    # -- values
    def scalar(self, expr, env, insn):
        return as_int(_LpDen(self, env, insn).rec(expr, env))

    def value(self, name, idx, env, reader, guard, top=False):
        """Value of variable *name* at z3 index terms *idx*, read by *reader*
        (an instruction or None) under *guard*."""
        k = self.knl
        if reader is not None:
            self.reads.setdefault(reader.id, set()).add(name)
        if name in self.writers and not self.inline and len(idx) > 0:
            # (scalar temporaries -- reduction bounds -- are always inlined)
            self.accesses.append(Access(name, tuple(idx), guard, name))
            f = z3.Function(f"T_{name}", *([z3.IntSort()] * len(idx)),
                            z3.IntSort()) if idx else z3.Int(f"T_{name}")
            return f(*idx) if idx else f
        if name in self.writers:
            w = self.writer(name)
            if w.id in self._stack:
                raise OutsideSubset(f"lpden: cyclic definition of {name}")
            winames = self.writer_indices(w)
            if len(winames) != len(idx):
                raise OutsideSubset(f"lpden: {name} read with {len(idx)} "
                                    f"indices, written with {len(winames)}")
            self.accesses.append(Access(name, tuple(idx), guard, name))
            env2 = {}
            # inames the writer shares with the reader keep their values
            for i in w.within_inames:
                if i in env:
                    env2[i] = env[i]
            for i, t in zip(winames, idx, strict=True):
                env2[i] = t
            missing = [i for i in w.within_inames if i not in env2]
            if missing:
                raise OutsideSubset(
                    f"lpden: writer of {name} runs inside {missing}, which "
                    "the reader does not fix")
            self._stack.append(w.id)
            try:
                d = _LpDen(self, env2, w)
                if top:
                    return d.top(w.expression, env2)
                return d.top_or_term(w.expression, env2)
            finally:
                self._stack.pop()
        if name in k.arg_dict:
            import loopy as lp
            arg = k.arg_dict[name]
            if isinstance(arg, lp.ValueArg):
                return self.size_param(name)
            obj = self.inputs.get(name)
            if obj is None:
                raise OutsideSubset(f"lpden: input {name} not bound")
            f = self.arrays.fn_for(obj, len(idx))
            self.input_accesses.append(Access(obj, tuple(idx), guard, name))
            return f(*idx) if idx else f
        raise OutsideSubset(f"lpden: unknown variable {name}")

    def instruction(self, insn):
        """(env, box, KernelDen in shallow mode) after denoting *insn* alone:
        its direct reads are in ``.accesses`` / ``.input_accesses``."""
        sh = KernelDen(self.knl, self.arrays, self.inputs,
                       size_param=self.size_param,
                       cast_identity=self.cast_identity, inline=False)
        env = {i: z3.Int(i) for i in sorted(insn.within_inames)}
        cs = []
        for i in sorted(insn.within_inames):
            lo, hi = sh.iname_bounds(i, env, insn)
            cs.append(z3.And(lo <= env[i], env[i] < hi))
        box = z3.And(cs) if cs else z3.BoolVal(True)
        d = _LpDen(sh, env, insn)
        d.top(insn.expression, env)
        return env, box, sh

    def is_data_dependent(self, t):
        from .ptlib import contains_array_app
        if contains_array_app(t, self.arrays):
            return True
        ids = {v.get_id() for v in self.data_dependent_vars}
        seen, stack = set(), [t]
        while stack:
            x = stack.pop()
            if x.get_id() in seen:
                continue
            seen.add(x.get_id())
            if x.get_id() in ids:
                return True
            if z3.is_app(x):
                if x.decl().kind() == z3.Z3_OP_UNINTERPRETED and \
                        x.decl().name().startswith("T_"):
                    return True
                stack.extend(x.children())
        return False

    def output(self, name, ivars):
        """Denotation of output argument *name* at *ivars* (z3 Ints)."""
        w = self.writer(name)
        winames = self.writer_indices(w)
        env = dict(zip(winames, ivars, strict=True))
        if set(w.within_inames) - set(winames):
            raise OutsideSubset(f"lpden: output {name} written inside extra "
                                "inames")
        self._stack.append(w.id)
        try:
            return _LpDen(self, env, w).top(w.expression, env)
        finally:
            self._stack.pop()


class _LpDen(Den):
    def __init__(self, k: KernelDen, env, insn):
        super().__init__(k.arrays, {}, lambda a: (), size_param=None,
                         cast_identity=k.cast_identity)
        self.k = k
        self.insn = insn

    def top(self, expr, env):
        from loopy.symbolic import Reduction as LpReduction
        if isinstance(expr, LpReduction):
            return self._lp_reduction(expr, env)
        # a plain copy of a stored result: its meaning is the meaning of what
        # was stored (keeps a top-level reduction visible as such)
        if self.k.inline and isinstance(expr, prim.Subscript) and isinstance(
                expr.aggregate, prim.Variable) and \
                expr.aggregate.name in self.k.writers:
            idx = tuple(as_int(self.rec(i, env)) for i in expr.index_tuple)
            return self.k.value(expr.aggregate.name, idx, env, self.insn,
                                self._guard(), top=True)
        if self.k.inline and isinstance(expr, prim.Variable) and \
                expr.name not in env and expr.name in self.k.writers:
            return self.k.value(expr.name, (), env, self.insn, self._guard(),
                                top=True)
        # a bare call of a substitution rule: the rule's body, arguments
        # substituted (again keeping a top-level reduction visible)
        if isinstance(expr, prim.Call) and getattr(
                expr.function, "name", None) in self.k.knl.substitutions:
            rule = self.k.knl.substitutions[expr.function.name]
            ps = [as_int(self.rec(p, env)) for p in expr.parameters]
            if len(rule.arguments) == len(ps):
                env2 = dict(env)
                env2.update(zip(rule.arguments, ps, strict=True))
                return self.top(rule.expression, env2)
        return self.rec(expr, env)

    def top_or_term(self, expr, env):
        return as_int(self.rec(expr, env))

    def d_Variable(self, e, env):
        if e.name in env:
            return env[e.name]
        return self.k.value(e.name, (), env, self.insn, self._guard())

    def d_Subscript(self, e, env):
        agg = e.aggregate
        if not isinstance(agg, prim.Variable):
            raise OutsideSubset("lpden: subscript of non-variable")
        idx = tuple(as_int(self.rec(i, env)) for i in e.index_tuple)
        return self.k.value(agg.name, idx, env, self.insn, self._guard())

    def d_Call(self, e, env):
        fn = e.function
        name = getattr(fn, "name", None)
        if name is None:
            raise OutsideSubset(f"lpden: call of {fn!r}")
        rule = self.k.knl.substitutions.get(name)
        ps = [self.rec(p, env) for p in e.parameters]
        if rule is not None:
            if len(rule.arguments) != len(ps):
                raise OutsideSubset("lpden: rule arity")
            env2 = dict(env)
            env2.update(zip(rule.arguments, [as_int(p) for p in ps],
                            strict=True))
            return self.rec(rule.expression, env2)
        from .den import uf
        return uf("call_pytato.c99." + name, len(ps))(*[as_int(p)
                                                        for p in ps])

    def d_ResolvedFunction(self, e, env):
        raise OutsideSubset("lpden: resolved function outside a call")

    def d_TypeCast(self, e, env):
        inner = getattr(e, "child", None)
        if inner is None:
            return super().d_TypeCast(e, env)
        t = as_int(self.rec(inner, env))
        if self.cast_identity:
            return t
        from .den import uf
        return uf(f"cast_{e.type}", 1)(t)

    def _lp_reduction(self, e, env):
        env2 = dict(env)
        rvars, bounds = {}, []
        for iname in e.inames:
            lo, hi = self.k.iname_bounds(iname, env, self.insn)
            v = z3.Int(f"rv@{self.k.redn_depth}#{len(rvars)}")
            rvars[iname] = v
            env2[iname] = v
            if self.k.is_data_dependent(lo) or self.k.is_data_dependent(hi):
                self.k.data_dependent_vars.append(v)
            bounds.append((iname, lo, hi))
        box = z3.And([z3.And(lo <= rvars[n], rvars[n] < hi)
                      for n, lo, hi in bounds])
        self.guards.append(box)
        self.k.redn_depth += 1
        try:
            body = self.rec(e.expr, env2)
        finally:
            self.k.redn_depth -= 1
        self.guards.pop()
        return Reduction(_pytato_redn_op(e.operation), bounds, body, rvars)

    def d_Reduction(self, e, env):
        red = self._lp_reduction(e, env)
        lam = as_int(red.body)
        for name, _lo, _hi in reversed(red.bounds):
            lam = z3.Lambda([red.rvars[name]], lam)
        args = []
        for _n, lo, hi in red.bounds:
            args += [lo, hi]
        sorts = [a.sort() for a in args] + [lam.sort()]
        f = z3.Function(f"RED_{type(red.op).__name__}_{len(red.bounds)}",
                        *sorts, z3.IntSort())
        return f(*args, lam)
