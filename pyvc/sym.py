"""Symbolic scalars and path exploration.

``SymInt``/``SymBool`` wrap z3 terms and overload Python's operators with
Python's semantics (floor division, sign-of-divisor modulo, ZeroDivisionError
as a path).  ``bool(SymBool)`` asks the current :class:`PathCtx` for a branch
decision; exploration is by re-execution along a decision vector (DFS), each
new symbolic branch being checked for feasibility with an incremental z3
context.  A finished run of the function under verification is one *path*;
the set of paths is exhaustive (every feasible decision vector is scheduled)
unless a limit is hit, in which case the exploration reports ``PathLimit``
and the obligation is *undecided*, never proved.

Soundness notes
---------------
* ``isinstance(SymInt(..), int)`` is True (``__class__`` is reported as ``int``)
  so that code testing ``isinstance(x, INT_CLASSES)`` takes the integer path.
* A SymInt cannot silently concretise: ``__index__``, ``__int__``, ``__float__``
  raise :class:`OutsideSubset` (a BaseException no ``except Exception`` eats).
* ``hash(SymInt)`` is a constant, so dict/set look-ups degrade to ``__eq__``,
  which forks.  Sound for any hash-based container.
"""
from __future__ import annotations

import time

import z3


class EngineSignal(BaseException):
    """Base of everything the engine raises through interpreted code."""


class OutsideSubset(EngineSignal):
    """The code left the modelled subset -> obligation undecided."""


class PathLimit(EngineSignal):
    pass


class EngineFault(EngineSignal):
    pass


class InfeasiblePath(EngineSignal):
    pass


_CTX: "PathCtx | None" = None


def ctx() -> "PathCtx":
    if _CTX is None:
        raise EngineFault("symbolic operation outside of a PathCtx")
    return _CTX


def have_ctx() -> bool:
    return _CTX is not None


# {{{ z3 helpers

def _is_np_int(o):
    try:
        import numpy as np
        return isinstance(o, np.integer)
    except Exception:  # pragma: no cover
        return False


def z_of(o):
    """z3 Int term for an int-like host value, or None."""
    t = type(o)
    if t is SymInt:
        return o.t
    if t is SymBool:
        return z3.If(o.t, z3.IntVal(1), z3.IntVal(0))
    if t is bool:
        return z3.IntVal(int(o))
    if t is int:
        return z3.IntVal(o)
    if _is_np_int(o):
        return z3.IntVal(int(o))
    if isinstance(o, int) and not isinstance(o, (SymInt, SymBool)):
        try:
            return z3.IntVal(int(o))
        except Exception:
            return None
    return None


def zb_of(o):
    """z3 Bool term for a bool-like host value, or None."""
    t = type(o)
    if t is SymBool:
        return o.t
    if t is bool:
        return z3.BoolVal(o)
    try:
        import numpy as np
        if isinstance(o, np.bool_):
            return z3.BoolVal(bool(o))
    except Exception:  # pragma: no cover
        pass
    return None


def mk_int(t):
    s = z3.simplify(t)
    if z3.is_int_value(s):
        return s.as_long()
    return SymInt(s)


def mk_bool(t):
    s = z3.simplify(t)
    if z3.is_true(s):
        return True
    if z3.is_false(s):
        return False
    return SymBool(s)


def py_floordiv(a, b):
    """Python's a // b for z3 ints, b != 0 assumed."""
    if z3.is_int_value(b):
        bv = b.as_long()
        if bv > 0:
            return a / b
        return (-a) / z3.IntVal(-bv)
    return z3.If(b > 0, a / b, (-a) / (-b))


def py_mod(a, b):
    """Python's a % b for z3 ints, b != 0 assumed."""
    if z3.is_int_value(b):
        bv = b.as_long()
        if bv > 0:
            return a % b
        return -((-a) % z3.IntVal(-bv))
    return z3.If(b > 0, a % b, -((-a) % (-b)))

# }}}


# {{{ SymInt / SymBool

class SymInt:
    __slots__ = ("t",)

    def __init__(self, t):
        self.t = t

    # isinstance(x, int) -> True, type(x) stays SymInt
    @property
    def __class__(self):  # noqa: PLW3201
        return int

    def __repr__(self):
        return f"<{self.t}>".replace("\n", " ")

    __str__ = __repr__

    def __format__(self, spec):
        return repr(self)

    def __hash__(self):
        return 0

    def __index__(self):
        raise OutsideSubset(f"symbolic integer {self!r} used where a concrete "
                            "index/count is required")

    def __int__(self):
        raise OutsideSubset(f"int() of symbolic integer {self!r}")

    def __float__(self):
        raise OutsideSubset(f"float() of symbolic integer {self!r}")

    def __bool__(self):
        return ctx().branch(self.t != 0)

    # numpy interop: do not let numpy scalars swallow us
    __array_priority__ = 1000
    __array_ufunc__ = None

    def _bin(self, o, f, rev=False):
        z = z_of(o)
        if z is None:
            return NotImplemented
        return mk_int(f(z, self.t) if rev else f(self.t, z))

    def __add__(self, o): return self._bin(o, lambda a, b: a + b)
    def __radd__(self, o): return self._bin(o, lambda a, b: a + b, True)
    def __sub__(self, o): return self._bin(o, lambda a, b: a - b)
    def __rsub__(self, o): return self._bin(o, lambda a, b: a - b, True)
    def __mul__(self, o): return self._bin(o, lambda a, b: a * b)
    def __rmul__(self, o): return self._bin(o, lambda a, b: a * b, True)

    def __neg__(self): return mk_int(-self.t)
    def __pos__(self): return self

    def __abs__(self):
        return mk_int(z3.If(self.t >= 0, self.t, -self.t))

    def _divlike(self, o, f, rev):
        z = z_of(o)
        if z is None:
            return NotImplemented
        a, b = (z, self.t) if rev else (self.t, z)
        if bool(mk_bool(b == 0)):
            raise ZeroDivisionError("integer division or modulo by zero")
        return mk_int(f(a, b))

    def __floordiv__(self, o): return self._divlike(o, py_floordiv, False)
    def __rfloordiv__(self, o): return self._divlike(o, py_floordiv, True)
    def __mod__(self, o): return self._divlike(o, py_mod, False)
    def __rmod__(self, o): return self._divlike(o, py_mod, True)

    def __divmod__(self, o):
        return (self // o, self % o)

    def __rdivmod__(self, o):
        return (o // self, o % self)

    def __truediv__(self, o):
        if z_of(o) is None:
            return NotImplemented
        raise OutsideSubset("true division of symbolic integers")

    __rtruediv__ = __truediv__

    def __pow__(self, o, mod=None):
        if mod is not None or type(o) is not int or o < 0 or o > 8:
            if z_of(o) is None:
                return NotImplemented
            raise OutsideSubset("power with symbolic/large exponent")
        r = z3.IntVal(1)
        for _ in range(o):
            r = r * self.t
        return mk_int(r)

    def _cmp(self, o, f):
        z = z_of(o)
        if z is None:
            return NotImplemented
        return mk_bool(f(self.t, z))

    def __eq__(self, o): return self._cmp(o, lambda a, b: a == b)
    def __ne__(self, o): return self._cmp(o, lambda a, b: a != b)
    def __lt__(self, o): return self._cmp(o, lambda a, b: a < b)
    def __le__(self, o): return self._cmp(o, lambda a, b: a <= b)
    def __gt__(self, o): return self._cmp(o, lambda a, b: a > b)
    def __ge__(self, o): return self._cmp(o, lambda a, b: a >= b)

    def __reduce__(self):
        raise OutsideSubset("pickling a symbolic integer")


class SymBool:
    __slots__ = ("t",)

    def __init__(self, t):
        self.t = t

    @property
    def __class__(self):  # noqa: PLW3201
        return bool

    def __repr__(self):
        return f"<{self.t}>".replace("\n", " ")

    __str__ = __repr__

    def __hash__(self):
        return 0

    def __bool__(self):
        return ctx().branch(self.t)

    def __index__(self):
        raise OutsideSubset("symbolic bool used as index")

    def __int__(self):
        raise OutsideSubset("int() of symbolic bool")

    def _bin(self, o, f):
        z = zb_of(o)
        if z is None:
            return NotImplemented
        return mk_bool(f(self.t, z))

    def __and__(self, o): return self._bin(o, lambda a, b: z3.And(a, b))
    __rand__ = __and__
    def __or__(self, o): return self._bin(o, lambda a, b: z3.Or(a, b))
    __ror__ = __or__
    def __xor__(self, o): return self._bin(o, lambda a, b: z3.Xor(a, b))
    __rxor__ = __xor__
    def __invert__(self): raise OutsideSubset("~ on symbolic bool")

    def __eq__(self, o):
        z = zb_of(o)
        if z is None:
            zi = z_of(o)
            if zi is None:
                return NotImplemented
            return mk_bool(z_of(self) == zi)
        return mk_bool(self.t == z)

    def __ne__(self, o):
        r = self.__eq__(o)
        if r is NotImplemented:
            return r
        return sym_not(r)

    # arithmetic on bools (True + 1) -- via int view
    def _ibin(self, o, f, rev=False):
        z = z_of(o)
        if z is None:
            return NotImplemented
        me = z_of(self)
        return mk_int(f(z, me) if rev else f(me, z))

    def __add__(self, o): return self._ibin(o, lambda a, b: a + b)
    def __radd__(self, o): return self._ibin(o, lambda a, b: a + b, True)
    def __sub__(self, o): return self._ibin(o, lambda a, b: a - b)
    def __rsub__(self, o): return self._ibin(o, lambda a, b: a - b, True)
    def __mul__(self, o): return self._ibin(o, lambda a, b: a * b)
    def __rmul__(self, o): return self._ibin(o, lambda a, b: a * b, True)

    def __reduce__(self):
        raise OutsideSubset("pickling a symbolic bool")


def sym_not(v):
    if type(v) is SymBool:
        return mk_bool(z3.Not(v.t))
    return not v


def is_sym(v):
    return type(v) is SymInt or type(v) is SymBool

# }}}


# {{{ path context and explorer

class Stats:
    def __init__(self):
        self.feas_checks = 0
        self.feas_unknown = 0
        self.feas_time = 0.0
        self.paths = 0


class PathCtx:
    MAX_BRANCHES = 4000

    def __init__(self, decisions, stats: Stats, feas_timeout_ms=10000):
        self.decisions = list(decisions)
        self.taken: list[bool] = []
        self.pc: list = []
        self.alternatives: list[list[bool]] = []
        self.solver = z3.Solver()
        self.solver.set("timeout", feas_timeout_ms)
        self.stats = stats
        self.counters: dict[str, int] = {}
        self.events: list = []
        # obligations generated while executing (asserts in the body,
        # preconditions of contract calls): (name, z3 formula, pc snapshot len)
        self.side_obligations: list = []
        self.notes: list[str] = []
        self.ghost: dict = {}
        self.truncated = False

    # -- fresh symbols (deterministic names => re-execution is reproducible)
    def fresh_name(self, prefix):
        k = self.counters.get(prefix, 0)
        self.counters[prefix] = k + 1
        return f"{prefix}!{k}" if k else prefix

    def fresh_int(self, prefix="v"):
        return SymInt(z3.Int(self.fresh_name(prefix)))

    def fresh_bool(self, prefix="b"):
        return SymBool(z3.Bool(self.fresh_name(prefix)))

    def assume(self, cond):
        """Add an assumption (precondition, callee postcondition) to the path."""
        z = zb_of(cond) if not z3.is_expr(cond) else cond
        if z is None:
            raise EngineFault(f"assume() of non-boolean {cond!r}")
        z = z3.simplify(z)
        if z3.is_true(z):
            return
        self.pc.append(z)
        self.solver.add(z)

    def feasible(self, c):
        t0 = time.time()
        r = self.solver.check(c)
        self.stats.feas_checks += 1
        self.stats.feas_time += time.time() - t0
        if r == z3.unknown:
            self.stats.feas_unknown += 1
            return True
        return r == z3.sat

    def branch(self, cond):
        c = z3.simplify(cond)
        if z3.is_true(c):
            return True
        if z3.is_false(c):
            return False
        k = len(self.taken)
        if k >= self.MAX_BRANCHES:
            raise PathLimit(f"more than {self.MAX_BRANCHES} symbolic branches "
                            "on one path")
        if k < len(self.decisions):
            choice = self.decisions[k]
        else:
            can_t = self.feasible(c)
            can_f = self.feasible(z3.Not(c))
            if can_t and can_f:
                choice = True
                self.alternatives.append([*self.taken, False])
            elif can_t:
                choice = True
            elif can_f:
                choice = False
            else:
                raise InfeasiblePath("path condition became unsatisfiable")
        self.taken.append(choice)
        lit = c if choice else z3.Not(c)
        self.pc.append(lit)
        self.solver.add(lit)
        return choice

    def add_obligation(self, name, formula, kind="assert", info=None):
        """Record an obligation that must hold under the *current* pc."""
        self.side_obligations.append(
            dict(name=name, formula=formula, pc=list(self.pc), kind=kind,
                 info=info))

    def event(self, *ev):
        self.events.append(ev)


class Path:
    """Result of one complete run."""
    def __init__(self, pctx: PathCtx, result):
        self.ctx = pctx
        self.pc = list(pctx.pc)
        self.decisions = list(pctx.taken)
        self.result = result


def explore(fn, *, max_paths=3000, feas_timeout_ms=10000, stats=None):
    """Run ``fn(pctx)`` once per feasible decision vector.

    Returns (paths, stats).  ``fn`` must be deterministic given the decisions.
    Raises PathLimit when more than *max_paths* paths exist.
    """
    global _CTX
    stats = stats or Stats()
    worklist: list[list[bool]] = [[]]
    paths: list[Path] = []
    while worklist:
        dec = worklist.pop()
        pctx = PathCtx(dec, stats, feas_timeout_ms)
        prev = _CTX
        _CTX = pctx
        try:
            try:
                res = fn(pctx)
            except InfeasiblePath:
                # an assumption made the path condition unsatisfiable: the
                # rest of this path is unreachable.  What was recorded while
                # it was still feasible stands -- its obligations (with their
                # own pc snapshots) and the alternatives it branched off.
                res = None
                pctx.truncated = True
                stats.truncated = getattr(stats, "truncated", 0) + 1
        finally:
            _CTX = prev
        if len(pctx.taken) < len(dec):
            raise EngineFault("non-deterministic re-execution: fewer branches "
                              "than recorded decisions")
        worklist.extend(pctx.alternatives)
        paths.append(Path(pctx, res))
        stats.paths += 1
        if len(paths) > max_paths:
            raise PathLimit(f"more than {max_paths} paths")
    return paths, stats

# }}}
