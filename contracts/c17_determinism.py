"""C17 -- generated code, partition and tag numbers do not depend on hash
seed / set iteration order.

2-safety reduced to a per-function contract: *the observable result equals
the result of the reference run for every iteration order of every
set/frozenset the function (or a callee) iterates or hands to an
order-revealing consumer*.  The real functions are interpreted; a set yields
its elements in an order picked by an adversarial chooser
(pyvc/unordered.py): along one path one dynamic iteration site is permuted
(all permutations up to 4 elements), all other sites keep the reference
order; the paths together cover every site.  dicts, OrderedSet and
FrozenOrderedSet are insertion-ordered and deterministic given deterministic
insertion.  id()/hash() values never reach an observation other than as cache
keys (checked by grep-level survey, see DESIGN.md).

The programs are concrete (listed instances): this is an exhaustive check
over iteration orders for each listed program, not a proof for all programs
-- level "bounded".
"""
from __future__ import annotations

import numpy as np
import z3

import pytato as pt

from pyvc import fakempi
from pyvc.core import Contract, contract
from pyvc.sym import EngineSignal
from pyvc.det_programs import (PROGRAMS, describe_partition, ordered,
                               prog_outputs, rank_program)
from pyvc.unordered import OneSiteAtATime

_REF: dict = {}


def _random_kinds(tier, k_quick=4, k_thorough=40):
    import os
    base = int(os.environ.get("VERIF_SEED", "1") or 1) * 100000
    return [f"random:{base + i}"
            for i in range(k_quick if tier != "thorough" else k_thorough)]


def run_both(h, key, fn, observe):
    """Run *fn* under the adversarial chooser; compare with the reference."""
    import inspect
    # (the reference cache is per process: key it by the calling contract too)
    key = (type(inspect.currentframe().f_back.f_locals.get("self")).__name__,
           key)
    if key not in _REF:
        ch0 = OneSiteAtATime(h.ctx, enabled=False)
        h.interp.unordered_hook = ch0
        with h.interp.trampolines():
            _REF[key] = (observe(fn()), ch0.sites)
    ref, nsites = _REF[key]
    ch = OneSiteAtATime(h.ctx)
    h.interp.unordered_hook = ch
    try:
        # (methods of repository mappers reached through pymbolic's native
        # dispatch re-enter the interpreter, so that their set iterations are
        # under the adversary as well)
        with h.interp.trampolines():
            got = observe(fn())
    except EngineSignal:
        raise
    except Exception as e:  # noqa: BLE001
        h.fail("det.no-exception-under-reordering",
               f"{type(e).__name__}: {e} (permuted site {ch.permuted})")
        return
    finally:
        h.interp.unordered_hook = None
    # a path on which no site was permuted repeats the reference run
    h.trivial = ch.permuted is None
    same = got == ref
    info = None
    if not same:
        info = dict(permuted_site=ch.permuted, diff=first_diff(ref, got))
    h.oblige("det.result-independent-of-set-iteration-order",
             z3.BoolVal(bool(same)), info=info)
    h.oblige("det.reference-run-visited-unordered-sites",
             z3.BoolVal(True), info=dict(sites=nsites))


def first_diff(a, b, path="result"):
    if type(a) is not type(b):
        return f"{path}: {type(a).__name__} vs {type(b).__name__}"
    if isinstance(a, (list, tuple)):
        if len(a) != len(b):
            return f"{path}: length {len(a)} vs {len(b)}"
        for i, (x, y) in enumerate(zip(a, b, strict=True)):
            if x != y:
                return first_diff(x, y, f"{path}[{i}]")
        return None
    if isinstance(a, dict):
        if list(a) != list(b):
            return f"{path}: key order {list(a)!r:.150} vs {list(b)!r:.150}"
        for k in a:
            if a[k] != b[k]:
                return first_diff(a[k], b[k], f"{path}[{k!r}]")
        return None
    if a != b:
        return f"{path}: {a!r:.150} vs {b!r:.150}"
    return None


@contract
class DetSetDictUnion(Contract):
    name = "det.set_dict_union_mpi"
    functions = ("pytato.distributed.partition:_set_dict_union_mpi",)
    properties = ("C17",)

    def instances(self, tier):
        return [dict(label=l) for l in ("overlap", "disjoint", "nested")]

    def run(self, h, inst):
        from orderedsets import FrozenOrderedSet as F
        from pytato.distributed.partition import _set_dict_union_mpi
        if inst["label"] == "overlap":
            A = {"k1": F(["x", "y"]), "k2": F(["z"]), "k3": F([])}
            B = {"k3": F(["w"]), "k1": F(["y", "q"]), "k4": F(["p", "r"])}
        elif inst["label"] == "disjoint":
            A = {"a1": F(["x"]), "a2": F(["y"])}
            B = {"b1": F(["z"]), "b2": F(["w"]), "b3": F([])}
        else:
            A = {("t", 1): F([("t", 2), ("t", 3)]), ("t", 2): F([])}
            B = {("t", 3): F([("t", 2)]), ("t", 1): F([("t", 4)]),
                 ("t", 4): F([])}
        fn = lambda: h.call(_set_dict_union_mpi, A, B, None)   # noqa: E731
        if h.canary == "list-of-a-set":
            # deliberately order-revealing: must be refuted
            fn = lambda: h.call(list, frozenset(A) | frozenset(B))  # noqa: E731
        run_both(h, (inst["label"], h.canary), fn, ordered)

    def canaries(self, tier):
        return [(dict(label="overlap"), "list-of-a-set",
                 "det.result-independent")]

    def replay(self, inst, clause, model, info):
        return DET_REPLAY.format(what='union', arg="-")


@contract
class DetPreprocess(Contract):
    name = "det.preprocess"
    functions = ("pytato.codegen:preprocess",
                 "pytools.graph:compute_topological_order")
    properties = ("C17",)
    max_paths = 6000

    def instances(self, tier):
        return [dict(label=k, kind=k)
                for k in [*PROGRAMS, *_random_kinds(tier)]]

    def run(self, h, inst):
        from pytato.codegen import preprocess
        from pytato.target.loopy import LoopyPyOpenCLTarget
        h.interp.repo_prefixes = (*h.interp.repo_prefixes, "pytools.graph")
        outs = pt.make_dict_of_named_arrays(prog_outputs(inst["kind"]))
        tgt = LoopyPyOpenCLTarget()

        def obs(r):
            return (list(r.compute_order), list(r.outputs._data),
                    list(r.bound_arguments))
        run_both(h, inst["label"], lambda: h.call(preprocess, outs, tgt), obs)

    def replay(self, inst, clause, model, info):
        return DET_REPLAY.format(what='preprocess', arg=inst["kind"])


@contract
class DetNumpyLike(Contract):
    name = "det.generate_numpy_like"
    functions = ("pytato.target.python.numpy_like:generate_numpy_like",
                 "pytato.target.python.numpy_like:NumpyCodegenMapper.*")
    properties = ("C17",)
    max_paths = 6000

    def instances(self, tier):
        return [dict(label=k, kind=k)
                for k in PROGRAMS
                # (hand-written multi-reduction lambdas are not supported by
                # the NumPy-like target: it refuses them)
                if k != "multi_reduction_lambda"]

    def run(self, h, inst):
        from pytato.target.python import (BoundPythonProgram,
                                          NumpyLikePythonTarget)
        from pytato.target.python.numpy_like import generate_numpy_like
        h.interp.repo_prefixes = (*h.interp.repo_prefixes, "pytools.graph")

        class T(NumpyLikePythonTarget):
            numpy_like_module_name = "numpy"
            numpy_like_module_name_shorthand = "xp"

            def bind_program(self, program, entrypoint, expected_arguments,
                             bound_arguments):
                return BoundPythonProgram(
                    target=self, program=program, entrypoint=entrypoint,
                    expected_arguments=expected_arguments,
                    bound_arguments=bound_arguments)
        outs = pt.make_dict_of_named_arrays(prog_outputs(inst["kind"]))

        def obs(bp):
            return (bp.program, list(bp.bound_arguments))
        run_both(h, inst["label"],
                 lambda: h.call(generate_numpy_like, outs, T(), "f", False,
                                (), ()), obs)

    def replay(self, inst, clause, model, info):
        return DET_REPLAY.format(what='numpy', arg=inst["kind"])


@contract
class DetLoopy(Contract):
    name = "det.generate_loopy"
    functions = ("pytato.target.loopy.codegen:generate_loopy",
                 "pytato.target.loopy.codegen:CodeGenMapper.*",
                 "pytato.target.loopy.codegen:InlinedExpressionGenMapper.*",
                 "pytato.codegen:preprocess")
    properties = ("C17",)
    max_paths = 6000

    def instances(self, tier):
        return [dict(label=k, kind=k)
                for k in [*PROGRAMS, *_random_kinds(tier)]]

    def run(self, h, inst):
        h.interp.repo_prefixes = (*h.interp.repo_prefixes, "pytools.graph")
        outs = pt.make_dict_of_named_arrays(prog_outputs(inst["kind"]))

        from pyvc.det_programs import observe_kernel as obs
        run_both(h, inst["label"], lambda: h.call(pt.generate_loopy, outs),
                 obs)

    def replay(self, inst, clause, model, info):
        return DET_REPLAY.format(what='loopy', arg=inst["kind"])


# {{{ distributed

@contract
class DetPartition(Contract):
    name = "det.partition"
    functions = ("pytato.distributed.partition:find_distributed_partition",
                 "pytato.distributed.partition:_make_distributed_partition",
                 "pytato.distributed.partition:_schedule_task_batches",
                 "pytato.distributed.partition:_schedule_task_batches_counted",
                 "pytato.distributed.partition:_calculate_dependency_levels",
                 "pytato.distributed.partition:_LocalSendRecvDepGatherer.*",
                 "pytato.distributed.partition:_DistributedInputReplacer.*",
                 "pytato.distributed.partition:_set_dict_union_mpi",
                 "pytato.distributed.tags:number_distributed_tags")
    properties = ("C17",)
    max_paths = 8000

    def instances(self, tier):
        out = []
        for n in (2, 3):
            for v in ("one-round", "two-rounds", "stored-crossing"):
                for r in range(n):
                    out.append(dict(label=f"ranks={n};{v};rank={r}", nranks=n,
                                    variant=v, rank=r))
        return out

    def run(self, h, inst):
        from pytato.distributed.partition import find_distributed_partition
        from pytato.distributed.tags import number_distributed_tags
        fakempi.install_fake_mpi4py()
        n, me = inst["nranks"], inst["rank"]
        build = rank_program(n, inst["variant"])
        key = inst["label"]

        def call(f, *a):
            return h.call(f, *a)

        def program(comm):
            outs = build(comm.rank)
            sym = h.call(find_distributed_partition, comm, outs)
            num, nxt = h.call(number_distributed_tags, comm, sym,
                              base_tag=100)
            return sym, num, nxt, comm

        # reference world: every rank in reference order
        wkey = ("world", key)
        if wkey not in _REF:
            ch0 = OneSiteAtATime(h.ctx, enabled=False)
            h.interp.unordered_hook = ch0
            _REF[wkey] = fakempi.run_spmd(n, program, call=call)[0]
            h.interp.unordered_hook = None
        world = _REF[wkey]

        def one():
            return program(fakempi.Comm(world, me, call=call,
                                        record_only_own=True))

        def obs(r):
            sym, num, nxt, comm = r
            return (describe_partition(sym, num, nxt),
                    [(k, ordered(o)) for k, o in comm.made])
        run_both(h, key, one, obs)

    def replay(self, inst, clause, model, info):
        return DET_REPLAY.format(what='partition', arg=f"{inst['nranks']};{inst['variant']}")

# }}}


DET_REPLAY = '''
import sys
sys.path.insert(0, "/verif")
from pyvc.replay_det import main
main({what!r}, {arg!r})
'''


@contract
class DetCopyDict(Contract):
    """copy_dict_of_named_arrays is where dictionaries assembled from *sets* of
    names (generate_code_for_partition iterates ``part.output_names``, a
    frozenset) enter code generation: the names ``_pt_data*`` / ``_pt_in*``
    handed out later follow the order in which it visits the entries.  Its
    result order and its visiting order must therefore not depend on the
    order in which the entries were inserted."""
    name = "det.copy_dict_of_named_arrays"
    functions = ("pytato.transform:copy_dict_of_named_arrays",)
    properties = ("C17",)

    def instances(self, tier):
        import itertools
        return [dict(label="order=" + "".join(p), order=list(p))
                for p in itertools.permutations("abc")]

    def run(self, h, inst):
        import numpy as np

        import pytato as pt
        from pytato.transform import CopyMapper, copy_dict_of_named_arrays
        x = pt.make_placeholder("x", (3,), np.float64)
        vals = {"a": x + 1, "b": x * 2, "c": x - 3}

        def observe(order):
            d = pt.make_dict_of_named_arrays({k: vals[k] for k in order})
            visited = []

            class M(CopyMapper):
                def rec(self, expr):
                    for k, v in vals.items():
                        if expr is v:
                            visited.append(k)
                    return super().rec(expr)
            res = h.call(copy_dict_of_named_arrays, d, M())
            return list(res), visited
        ref = observe(["a", "b", "c"])
        got = observe(inst["order"])
        h.oblige("det.copy-dict.result-and-visiting-order-independent-of-"
                 "insertion-order", z3.BoolVal(ref == got),
                 info=dict(inserted=inst["order"], result=got[0],
                           visited=got[1], reference=ref[0]))

    def replay(self, inst, clause, model, info):
        return COPYDICT_REPLAY.format(order=inst["order"])


COPYDICT_REPLAY = '''
import sys
sys.path.insert(0, "/verif")
import numpy as np, pytato as pt
from pytato.transform import CopyMapper, copy_dict_of_named_arrays
from pyvc.replaylib import reproduced, not_reproduced
x = pt.make_placeholder("x", (3,), np.float64)
vals = {{"a": x + 1, "b": x * 2, "c": x - 3}}
def run(order):
    d = pt.make_dict_of_named_arrays({{k: vals[k] for k in order}})
    return list(copy_dict_of_named_arrays(d, CopyMapper()))
ref, got = run(["a", "b", "c"]), run({order!r})
if ref != got:
    reproduced(f"copy_dict_of_named_arrays returns the entries in the order "
               f"{{got}} for a dictionary filled in the order {order!r}, and in "
               f"the order {{ref}} for the same dictionary filled alphabetically: "
               f"a dictionary assembled from a set of names (part outputs) gives "
               f"hash-seed dependent generated names")
not_reproduced("same order")
'''
