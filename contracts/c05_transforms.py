"""C05 -- graph transformations preserve every output, never mutate input.

rebuild[M,K,pattern]   copy-family mapper method: with the recursion replaced
                       by its contract (child c maps to image(c); for the
                       children not in *pattern* image(c) is c), the result is
                       a node of the same class whose every array child is the
                       image of the corresponding child and whose every other
                       field equals the input's -- hence (congruence of the
                       value function) [[result]] = [[expr]] given
                       [[image(c)]] = [[c]].  One child changing at a time is
                       enumerated as well as all/none.
frame[M,K]             no field of the input node (or of nested matrix/send
                       records) is rebound; the input tuple/dict objects are
                       the same objects with the same entries.
tag-only[...]          with_tagged_axis / tagged / with_tagged_reduction and
                       the materialisation helper change nothing but tags.
dce.*                  pytato.zero(..) lambdas become the constant-0 lambda of
                       the same shape/dtype/axes/tags; anything else is rebuilt.
"""
from __future__ import annotations

import dataclasses

import numpy as np
import z3

from pytato.array import Array
from pytato.function import FunctionDefinition

from contracts.c13_mappers import (BASE_CFG, CHANGES_BY_DESIGN, kind_by_name,
                                   kinds, method_name, pairs, setup)
from pyvc import graphmodel as gm
from pyvc import mapperlib as ml
from pyvc.core import Contract, contract
from pyvc.sym import EngineFault, EngineSignal

COPY_MAPPERS = ["CopyMapper", "CopyMapperWithExtraArgs", "Deduplicator",
                "DataWrapperDeduplicator", "CachedMapAndCopyMapper",
                "InlineMarker", "DeadCodeEliminator",
                "EinsumWithNoBroadcastsRewriter"]

#: semantic overrides: verified by their own contracts, not as plain rebuilds
SEMANTIC_OVERRIDES = {("InlineMarker", "Call"),
                      ("DataWrapperDeduplicator", "DataWrapper")}


def snapshot(b: gm.Built):
    """Identity snapshot of every field (and container entries)."""
    snap = {}
    for name, (kind, val) in b.fields.items():
        cur = getattr(b.obj, name)
        if kind == gm.NESTED:
            snap[name] = (id(cur), snapshot(val))
        elif isinstance(cur, tuple):
            snap[name] = (id(cur), tuple(id(x) for x in cur))
        elif hasattr(cur, "items") and not isinstance(cur, gm._OpaqueMixin):
            snap[name] = (id(cur), tuple((k, id(v)) for k, v in cur.items()))
        else:
            snap[name] = (id(cur), None)
    return snap


def expected_value(kind, val, img):
    if kind in (gm.CHILD, gm.CONTAINER, gm.FUNCTION):
        return img(val)
    if kind in (gm.CHILDREN, gm.SHAPE, gm.INDICES):
        return tuple(img(v) if isinstance(v, gm._OpaqueMixin) else v
                     for v in val)
    if kind in (gm.CHILDMAP, gm.CHILDMAP_S):
        return {k: (img(v) if isinstance(v, gm._OpaqueMixin) else v)
                for k, v in val.items()}
    return val


def check_rebuilt(h, clause, b: gm.Built, result, img, info=None):
    """result must be the homomorphic image of b.obj under img."""
    if type(result) is not type(b.obj):
        h.fail(f"{clause}.class", f"{type(result).__name__}", props=("C05",))
        return
    for name, (kind, val) in b.fields.items():
        got = getattr(result, name)
        if kind == gm.NESTED:
            check_rebuilt(h, f"{clause}.{name}", val, got, img)
            continue
        want = expected_value(kind, val, img)
        orig = expected_value(kind, val, lambda x: x)

        def entry_ok(g, w, o, strict):
            # strict (C13: one result object per shared node): the entry is
            # exactly what the recursion returned for it.  weak (C05: value
            # preserved): the entry or its value-equal image.
            return g is w or (not strict and g is o)
        for strict, props_, tag in ((False, ("C05",), "value"),
                                    (True, ("C13",), "shared-result")):
            if kind == gm.VALUE:
                if strict:
                    continue
                ok = got is want or bool(got == want)
            elif isinstance(want, tuple):
                ok = isinstance(got, tuple) and len(got) == len(want) and \
                    all(entry_ok(g, w, o, strict) for g, w, o in zip(
                        got, want, orig, strict=True))
            elif isinstance(want, dict):
                ok = set(got.keys()) == set(want.keys()) and all(
                    entry_ok(got[k], want[k], orig[k], strict) for k in want)
            else:
                ok = entry_ok(got, want, orig, strict)
            h.oblige(f"{clause}.{tag}[{name}]", z3.BoolVal(bool(ok)),
                     props=props_, info=info)


def real_container(c):
    return not isinstance(c, gm._OpaqueMixin)


@contract
class CopyRebuild(Contract):
    name = "transform.rebuild"
    functions = ("pytato.transform:CopyMapper.map_*",
                 "pytato.transform:CopyMapperWithExtraArgs.map_*",
                 "pytato.array:_augment_array_dataclass."
                 "_dataclass_replace_if_different",
                 "pytato.array:AbstractResultWithNamedArrays."
                 "replace_if_different",
                 "pytato.array:DictOfNamedArrays.replace_if_different",
                 "pytato.array:_entries_are_identical")
    properties = ("C05", "C13")

    def instances(self, tier):
        out = []
        for Mn, Kn in pairs(COPY_MAPPERS):
            if (Mn, Kn) in SEMANTIC_OVERRIDES:
                continue
            if Kn in ("NamedArray", "NamedCallResult", "LoopyCallResult"):
                # results of real containers: their rebuild is the
                # container's; covered through DictOfNamedArrays/Call/LoopyCall
                continue
            if tier != "thorough" and Mn not in (
                    "CopyMapper", "CopyMapperWithExtraArgs", "Deduplicator"):
                pats = ["all"]
            else:
                pats = ["all", "each"]
            for p in pats:
                out.append(dict(label=f"{Mn};{Kn};{p}", M=Mn, K=Kn, pat=p))
        return out

    def canaries(self, tier):
        return [(dict(label="CopyMapper;Roll;all", M="CopyMapper", K="Roll",
                      pat="all"), "expect-unchanged",
                 "rebuild[CopyMapper,Roll,all].value[array]")]

    def run(self, h, inst):
        Mn, Kn, pat = inst["M"], inst["K"], inst["pat"]
        K = kind_by_name(Kn)
        # how many children are there? (build once to enumerate)
        probe = ml.build_node(K, "e", BASE_CFG)
        kids = [c for c in probe.children(with_functions=True)]
        if pat == "all":
            self.one(h, Mn, Kn, None, "all")
        else:
            for j in range(len(kids)):
                self.one(h, Mn, Kn, j, f"only#{j}")
            if not kids:
                h.oblige(f"no-children[{Mn},{Kn}]", z3.BoolVal(True))

    def one(self, h, Mn, Kn, only, lab):
        M, K, b, mapper, rec, fam = setup(h, Mn, Kn, mode="image")
        kids = b.children(with_functions=True)
        changed = set(range(len(kids))) if only is None else {only}
        changed_ids = {id(kids[j]) for j in changed}
        base_image = rec.image_of

        def img(x):
            if id(x) in changed_ids and isinstance(x, gm._OpaqueMixin):
                return base_image(x)
            return x
        # re-stub with the selective image function
        def rec_fn(x, *a, **k):
            rec.rec_args.append(x)
            return img(x)
        mapper.rec = rec_fn
        mapper.rec_function_definition = rec_fn
        before = snapshot(b)
        clause = f"rebuild[{Mn},{Kn},{lab}]"
        try:
            result = h.call(getattr(mapper, method_name(K)), b.obj)
        except EngineSignal:
            raise
        except NotImplementedError as e:
            h.oblige(f"unsupported-is-explicit[{Mn},{Kn}]", z3.BoolVal(True),
                     props=("C05",), info=str(e)[:80])
            return
        except Exception as e:  # noqa: BLE001
            h.fail(f"{clause}.no-exception", f"{type(e).__name__}: {e}",
                   props=("C05",))
            return
        if h.canary == "expect-unchanged":
            img = lambda x: x  # noqa: E731
        check_rebuilt(h, clause, b, result, img)
        h.oblige(f"frame[{Mn},{Kn},{lab}]",
                 z3.BoolVal(snapshot(b) == before), props=("C05",))
        if not any(isinstance(kids[j], gm._OpaqueMixin) for j in changed):
            h.oblige(f"identity-when-unchanged[{Mn},{Kn},{lab}]",
                     z3.BoolVal(result is b.obj), props=("C13", "C05"))

    def replay(self, inst, clause, model, info):
        return None


@contract
class DeadCode(Contract):
    name = "transform.dce"
    functions = ("pytato.transform.dead_code_elimination:"
                 "DeadCodeEliminator.map_index_lambda",
                 "pytato.transform.dead_code_elimination:eliminate_dead_code")
    properties = ("C05",)

    def instances(self, tier):
        return [dict(label=k, case=k) for k in
                ("zero-call", "other-call", "nested-zero", "no-call")]

    def canaries(self, tier):
        return [(dict(label="zero-call", case="zero-call"), "keeps-bindings",
                 "dce.zero-becomes-constant")]

    def run(self, h, inst):
        import pymbolic.primitives as p
        from constantdict import constantdict

        from pytato.array import IndexLambda
        case = inst["case"]
        M, K, b, mapper, rec, fam = setup(h, "DeadCodeEliminator",
                                          "IndexLambda", mode="image")
        sub = p.Variable("_in0")[(p.Variable("_0"),)]
        expr = {"zero-call": p.Call(p.Variable("pytato.zero"), (sub,)),
                "other-call": p.Call(p.Variable("pytato.c99.abs"), (sub,)),
                "nested-zero": p.Call(p.Variable("pytato.zero"), (sub,)) + 1,
                "no-call": sub}[case]
        object.__setattr__(b.obj, "expr", expr)
        b.fields["expr"] = (gm.VALUE, expr)
        before = snapshot(b)
        result = h.call(mapper.map_index_lambda, b.obj)
        h.oblige("dce.frame", z3.BoolVal(snapshot(b) == before))
        if case == "zero-call":
            ok = (isinstance(result, IndexLambda) and result.expr == 0
                  and len(result.bindings) == (1 if h.canary else 0)
                  and result.shape is b.obj.shape
                  and result.dtype == b.obj.dtype
                  and result.axes == b.obj.axes and result.tags == b.obj.tags)
            h.oblige("dce.zero-becomes-constant", z3.BoolVal(bool(ok)))
        else:
            # everything else (including zero nested inside arithmetic and
            # other calls) is only rebuilt: [[.]] preserved by congruence
            check_rebuilt(h, f"dce.rebuild[{case}]", b, result, rec.image_of)


@contract
class TagOnly(Contract):
    name = "transform.tag-only"
    functions = ("pytato.array:Array.with_tagged_axis",
                 "pytato.array:IndexLambda.with_tagged_reduction",
                 "pytato.array:Einsum.with_tagged_reduction",
                 "pytato.array:CSRMatmul.with_tagged_reduction",
                 "pytato.array:_SuppliedAxesAndTagsMixin._with_new_tags",
                 "pytato.transform.materialize:_materialize_if_mpms")
    properties = ("C05", "C07")

    def instances(self, tier):
        out = [dict(label=f"with_tagged_axis;{K.__name__}", op="axis",
                    K=K.__name__)
               for K in kinds() if K is not FunctionDefinition
               and issubclass(K, Array)
               and K.__name__ not in ("NamedCallResult", "LoopyCallResult",
                                      "DistributedSendRefHolder",
                                      "NamedArray")]
        out += [dict(label=f"tagged;{K.__name__}", op="tagged", K=K.__name__)
                for K in kinds() if K is not FunctionDefinition
                and K.__name__ not in ("NamedCallResult", "LoopyCallResult",
                                       "DistributedSendRefHolder",
                                       "NamedArray", "LoopyCall",
                                       "DictOfNamedArrays")]
        out += [dict(label=f"with_tagged_reduction;{k}", op="redn", K=k)
                for k in ("IndexLambda", "Einsum", "CSRMatmul")]
        out += [dict(label=f"materialize_if_mpms;succ={s};preds={p}",
                     op="mpms", nsucc=s, npred=p)
                for s in (0, 1, 2) for p in (0, 1, 2)]
        return out

    def run(self, h, inst):
        from pyvc.ptlib import VerifAxisTag, VerifTag
        op = inst["op"]
        if op == "mpms":
            return self.mpms(h, inst)
        K = kind_by_name(inst["K"])
        cfg = dict(BASE_CFG)
        if op == "redn":
            cfg = self.redn_cfg(inst["K"], cfg)
        b = ml.build_node(K, "e", cfg)
        before = snapshot(b)
        fields = {f.name: getattr(b.obj, f.name)
                  for f in dataclasses.fields(b.obj)}
        try:
            if op == "axis":
                res = h.call(b.obj.with_tagged_axis, 0, VerifAxisTag(1))
                allowed = {"axes"}
            elif op == "tagged":
                res = h.call(b.obj.tagged, VerifTag(2))
                allowed = {"tags"}
            else:
                if inst["K"] == "IndexLambda":
                    res = h.call(b.obj.with_tagged_reduction, "_r0",
                                 VerifTag(3))
                    allowed = {"var_to_reduction_descr"}
                elif inst["K"] == "Einsum":
                    from pytato.array import EinsumReductionAxis
                    res = h.call(b.obj.with_tagged_reduction,
                                 EinsumReductionAxis(0), VerifTag(3))
                    allowed = {"redn_axis_to_redn_descr"}
                else:
                    res = h.call(b.obj.with_tagged_reduction, VerifTag(3))
                    allowed = {"reduction_descr"}
        except EngineSignal:
            raise
        except Exception as e:  # noqa: BLE001
            h.fail(f"tag-only.no-exception[{op},{inst['K']}]",
                   f"{type(e).__name__}: {e}")
            return
        Kn = inst["K"]
        h.oblige(f"tag-only.frame[{op},{Kn}]",
                 z3.BoolVal(snapshot(b) == before))
        h.oblige(f"tag-only.class[{op},{Kn}]",
                 z3.BoolVal(type(res) is type(b.obj)))
        for name, old in fields.items():
            if name in allowed or name == "non_equality_tags":
                continue
            new = getattr(res, name)
            h.oblige(f"tag-only.other-fields-identical[{op},{Kn}.{name}]",
                     z3.BoolVal(new is old))
        # the allowed field differs in tags only
        for name in allowed:
            new, old = getattr(res, name), fields[name]
            ok = True
            if name == "axes":
                ok = len(new) == len(old) and all(
                    type(a) is type(o) for a, o in zip(new, old, strict=True))
            elif name in ("var_to_reduction_descr",
                          "redn_axis_to_redn_descr"):
                ok = set(new) == set(old)
            h.oblige(f"tag-only.structure-kept[{op},{Kn}.{name}]",
                     z3.BoolVal(bool(ok)))

    def redn_cfg(self, Kn, cfg):
        import pymbolic.primitives as p
        from constantdict import constantdict

        from pytato.array import (EinsumElementwiseAxis, EinsumReductionAxis,
                                  ReductionDescriptor)
        from pytato.reductions import SumReductionOperation
        from pytato.scalar_expr import Reduce
        if Kn == "IndexLambda":
            e = Reduce(p.Variable("_in0")[(p.Variable("_r0"),)],
                       SumReductionOperation(),
                       constantdict({"_r0": (0, 10)}))
            return dict(cfg, values=dict(
                expr=e, var_to_reduction_descr=constantdict(
                    {"_r0": ReductionDescriptor(frozenset())})))
        if Kn == "Einsum":
            return dict(cfg, n_children=1, values=dict(
                access_descriptors=((EinsumReductionAxis(0),),),
                redn_axis_to_redn_descr=constantdict(
                    {EinsumReductionAxis(0): ReductionDescriptor(
                        frozenset())})))
        return cfg

    def mpms(self, h, inst):
        from pytato.tags import ImplStored
        from pytato.transform.materialize import (
            MPMSMaterializerAccumulator, _materialize_if_mpms)
        x = gm.mk_opaque_array("x", "concrete")
        succ = [gm.mk_opaque_array(f"s{i}", "concrete")
                for i in range(inst["nsucc"])]
        mats = [gm.mk_opaque_array(f"m{i}", "concrete")
                for i in range(inst["npred"])]
        for i, a in enumerate(mats):
            for c in mats[:i]:
                # distinct predecessors (R is symmetric)
                h.assume(z3.Not(gm.R(a._u, c._u)))
                h.assume(z3.Not(gm.R(c._u, a._u)))
        preds = [MPMSMaterializerAccumulator(frozenset([m_]), m_)
                 for m_ in mats]
        fields_before = dict(vars(x))
        res = h.call(_materialize_if_mpms, x, succ, preds)
        h.oblige("mpms.frame", z3.BoolVal(dict(vars(x)) == fields_before))
        new = res.expr
        should = inst["nsucc"] > 1 and inst["npred"] > 1
        if new is x:
            h.oblige("mpms.materialises-iff-mpms", z3.BoolVal(not should))
        else:
            h.oblige("mpms.materialises-iff-mpms", z3.BoolVal(should))
            same = all(getattr(new, a) is getattr(x, a)
                       for a in ("shape", "dtype", "axes"))
            h.oblige("mpms.only-tags-differ", z3.BoolVal(
                same and new.tags == x.tags | {ImplStored()}))


# {{{ whole transformations on sampled programs (translation validation)

import numpy as np  # noqa: E402

import pytato as pt  # noqa: E402
from pyvc.den import ArrayModel  # noqa: E402

def _distribute(d, k):
    """apply_distributive_property_to_einsums, distributing over operand k of
    every einsum that has one (the user's decision callback)."""
    from pytato.transform.einsum_distributive_law import (
        DoDistribute, DoNotDistribute, apply_distributive_property_to_einsums)

    def how(e):
        return DoDistribute(ioperand=k) if k < len(e.args) \
            else DoNotDistribute()
    return apply_distributive_property_to_einsums(d, how)


def _transformations():
    """name -> callable(DictOfNamedArrays) -> DictOfNamedArrays"""
    import pytato.transform as T
    from pytato.transform.lower_to_index_lambda import to_index_lambda

    def lower_all(d):
        return pt.make_dict_of_named_arrays(
            {k: to_index_lambda(d[k].expr) for k in d})

    out = {
        "deduplicate": T.deduplicate,
        "copy": lambda d: T.copy_dict_of_named_arrays(d, T.CopyMapper()),
        "map_and_copy-identity": lambda d: T.map_and_copy(d, lambda x: x),
        "eliminate_dead_code": pt.eliminate_dead_code,
        "materialize_with_mpms": pt.materialize_with_mpms,
        "deduplicate_data_wrappers": T.deduplicate_data_wrappers,
        "rewrite_einsums_with_no_broadcasts":
            pt.rewrite_einsums_with_no_broadcasts,
        "unify_axes_tags": pt.unify_axes_tags,
        "inline_calls": lambda d: pt.inline_calls(
            pt.tag_all_calls_to_be_inlined(d)),
        "lower_to_index_lambda": lower_all,
        **{f"distribute-operand-{k}": (lambda d, k=k: _distribute(d, k))
           for k in (0, 1, 2)},
        "dedup+mpms+dce": lambda d: pt.eliminate_dead_code(
            pt.materialize_with_mpms(T.deduplicate(d))),
    }
    return out


def _special_programs():
    def rolls():
        n = pt.make_size_param("n")
        a = pt.make_placeholder("a", (n, 4), np.float64)
        # shifts whose Python hashes coincide (hash(-1) == hash(-2))
        return {"o": pt.roll(a, -1, axis=1) - pt.roll(a, -2, axis=1),
                "p": pt.roll(a, 1, axis=1) + pt.roll(a, 2, axis=1)}

    def csr_in_call():
        vals = pt.make_placeholder("vals", (6,), np.float64)
        cols = pt.make_placeholder("cols", (6,), np.int32)
        rs = pt.make_placeholder("rs", (4,), np.int32)
        x = pt.make_placeholder("x", (5, 2), np.float64)

        def f(v, c, r, y):
            return pt.make_csr_matrix((3, 5), v, c, r) @ y

        u = pt.trace_call(f, vals * 2, cols, rs + 0, x)
        # reference: the same function applied directly (no call nodes)
        return {"o": u + 1}, {"o": f(vals * 2, cols, rs + 0, x) + 1}

    def shared_datawrappers():
        d = np.arange(4.0)
        w1, w2 = pt.make_data_wrapper(d), pt.make_data_wrapper(d)
        w3 = pt.make_data_wrapper(d.copy())
        b = pt.make_placeholder("b", (4,), np.float64)
        return {"o": w1 * b + w2, "p": w3 - w1}

    def unused_parts():
        n = pt.make_size_param("n")
        a = pt.make_placeholder("a", (n, 4), np.float64)
        z = pt.zeros((n, 4)) * a
        return {"o": pt.where(pt.greater(a, 0), a + z, z), "p": pt.sum(
            a * pt.zeros(4), axis=1)}
    def adv_index_mixed():
        # index arrays behind / between non-array indices, each shared by
        # several users (so that passes which rebuild or tag them matter)
        x = pt.make_placeholder("x", (4, 3), np.float64)
        y = pt.make_placeholder("y", (4, 3, 5), np.float64)
        i = pt.make_placeholder("i", (2,), np.int64)
        j = pt.make_placeholder("j", (2,), np.int64)
        ii, jj = (i + 1) % 3, (j * 2) % 4
        return {"a": x[2, ii], "b": x[:, ii], "c": y[1:3, ii, :],
                "d": y[jj, :, ii], "e": x[jj], "f": x[jj, ii],
                "g": y[jj, 1:, 2], "h": (x[:, ii] + 1) * x[:, ii]}

    def mpms_chain():
        # an output that is also a predecessor of a node with several
        # materialised predecessors and several users
        a = pt.make_placeholder("a", (4,), np.float64)
        b = pt.make_placeholder("b", (4,), np.float64)
        t = a + b
        e = 2 * t
        u = e + t
        return {"e": e, "o": 3 * u, "p": u - 1}

    def mpms_stored():
        from pytato.tags import ImplStored
        a = pt.make_placeholder("a", (4,), np.float64)
        b = pt.make_placeholder("b", (4,), np.float64)
        t = a + b
        e = (2 * t).tagged(ImplStored())
        u = e + t
        v = (u * e).tagged(ImplStored())
        return {"o": 3 * u + v, "p": (u - 1) * (v + t)}
    def einsum_shared_broadcast():
        # one array with unit axes used by two einsums that broadcast
        # *different* axes of it, and once squeezed / once plain
        n = pt.make_size_param("n")
        u = pt.make_placeholder("u", (1, n, 1), np.float64)
        a = pt.make_placeholder("a", (3, n, 1), np.float64)
        b = pt.make_placeholder("b", (1, n, 4), np.float64)
        c = pt.make_placeholder("c", (3, n, 4), np.float64)
        v = pt.make_placeholder("v", (1, 4), np.float64)
        w = pt.make_placeholder("w", (3, 4), np.float64)
        return {"o": pt.einsum("ijk,ijk->ijk", u, a),
                "p": pt.einsum("ijk,ijk->ijk", u, b),
                "q": pt.einsum("ijk,ijk->ik", u, c),
                "r": pt.einsum("ij,ij->ij", v, w) + v,
                "s": pt.einsum("ij,ij,ij->j", v, w, v)}

    def einsum_distribute():
        # operands of the distributed-over sum that have no operands of
        # their own (constant-filled), scaled and plain; rectangular matrix
        n = pt.make_size_param("n")
        m = pt.make_placeholder("m", (3, 4), np.float64)
        sq = pt.make_placeholder("sq", (4, 4), np.float64)
        x = pt.make_placeholder("x", (4,), np.float64)
        y = pt.make_placeholder("y", (4,), np.float64)
        return {"o": m @ (x + pt.ones(4)), "p": sq @ (x - 2 * pt.full(4, 3.5)),
                "q": m @ ((x + y) * 2 - pt.zeros(4)),
                "r": pt.einsum("ij,j->i", m, (x + y) / 3 + pt.ones(4) * 2),
                "u": pt.einsum("ij,j->i", sq, x * 2 + pt.ones(4)) + y}
    return {"rolls": rolls, "csr_in_call": csr_in_call,
            "einsum_shared_broadcast": einsum_shared_broadcast,
            "einsum_distribute": einsum_distribute,
            "shared_datawrappers": shared_datawrappers,
            "unused_parts": unused_parts,
            "adv_index_mixed": adv_index_mixed, "mpms_chain": mpms_chain,
            "mpms_stored": mpms_stored}


#: passes the property promises to be idempotent
IDEMPOTENT = ("deduplicate", "eliminate_dead_code", "materialize_with_mpms")


def _stored_nodes(d):
    """The ImplStored-tagged nodes of a graph, as a multiset of node hashes
    (what materialize_with_mpms decides)."""
    from pytato.tags import ImplStored
    from pytato.transform import CachedWalkMapper
    found = []

    class W(CachedWalkMapper):
        def get_cache_key(self, e):
            return id(e)

        def get_function_definition_cache_key(self, e):
            return id(e)

        def post_visit(self, e):
            if isinstance(e, pt.Array) and e.tags_of_type(ImplStored):
                found.append(hash(e))
    W()(d)
    return sorted(found)


def _inputs_by_identity(expr):
    """Input nodes below *expr*, gathered by object identity (the library's
    own gatherers key their caches by structural equality, which is one of
    the things under test here)."""
    from pytato.array import InputArgumentBase
    from pytato.transform import CachedWalkMapper
    found = []

    class W(CachedWalkMapper):
        def get_cache_key(self, e):
            return id(e)

        def post_visit(self, e):
            if isinstance(e, InputArgumentBase):
                found.append(e)
    W()(expr)
    return found


@contract
class TransformValues(Contract):
    name = "transform.value"
    functions = ("pytato.transform:deduplicate",
                 "pytato.transform:copy_dict_of_named_arrays",
                 "pytato.transform.dead_code_elimination:eliminate_dead_code",
                 "pytato.transform.materialize:materialize_with_mpms",
                 "pytato.transform:deduplicate_data_wrappers",
                 "pytato.transform.remove_broadcasts_einsum:"
                 "rewrite_einsums_with_no_broadcasts",
                 "pytato.transform.metadata:unify_axes_tags",
                 "pytato.transform.calls:inline_calls",
                 "pytato.transform.lower_to_index_lambda:to_index_lambda")
    properties = ("C05",)
    max_paths = 10
    notes = ("translation validation: the real transformation runs natively "
             "(CPython) on each sampled program; its output is proved (z3) to "
             "denote, for all sizes/inputs/indices, what its input denotes, "
             "to keep names/shapes/dtypes, and the input graph is compared "
             "with a deep structural snapshot taken before (not mutated)",)

    def instances(self, tier):
        import os
        base = int(os.environ.get("VERIF_SEED", "1") or 1) * 100000
        progs = [f"random:{base + i}"
                 for i in range(16 if tier != "thorough" else 160)]
        progs += list(_special_programs())
        return [dict(label=f"{t};{p}", transform=t, prog=p)
                for t in _transformations() for p in progs
                if not t.startswith("distribute-")]

    def canaries(self, tier):
        return [(dict(label="deduplicate;rolls", transform="deduplicate",
                      prog="rolls"), "output-plus-one", "transform.value.")]

    def replay(self, inst, clause, model, info):
        return TRANSFORM_REPLAY.format(prog=inst["prog"],
                                       tname=inst["transform"])

    def run(self, h, inst):
        from contracts.c07_kernel import pytato_den, random_program
        from pyvc.ptlib import in_box, oblige_equal_den, shape_term
        prog = inst["prog"]
        direct = None
        if prog.startswith("random:"):
            outs = random_program(int(prog.split(":")[1]), lambda k, x: x)
        else:
            outs = _special_programs()[prog]()
            if isinstance(outs, tuple):
                outs, direct = outs
        # the reference meaning is that of the program *as written* (before
        # any pass, including the de-duplication every pass expects)
        raw = dict(direct if direct is not None else outs)
        d_in = pt.transform.deduplicate(pt.make_dict_of_named_arrays(outs))
        fn = _transformations()[inst["transform"]]
        # snapshot for the non-mutation clause: structural hash + repr of
        # every node, plus object identities of the named outputs
        from pytato.analysis import get_num_nodes
        snap = (hash(d_in), get_num_nodes(d_in, count_duplicates=False),
                {k: id(d_in[k].expr) for k in d_in},
                {k: hash(d_in[k].expr) for k in d_in})
        ref = {k: d_in[k].expr for k in d_in}
        try:
            d_out = fn(d_in)
        except NotImplementedError as e:
            # an explicit "not supported" (e.g. functions in some passes)
            h.oblige(f"transform.value.unsupported-is-explicit"
                     f"[{inst['transform']}]", z3.BoolVal(True),
                     info=str(e)[:100])
            return
        except Exception as e:  # noqa: BLE001
            h.fail(f"transform.value.no-exception[{inst['transform']}]",
                   f"{type(e).__name__}: {e}")
            return
        snap2 = (hash(d_in), get_num_nodes(d_in, count_duplicates=False),
                 {k: id(d_in[k].expr) for k in d_in},
                 {k: hash(d_in[k].expr) for k in d_in})
        h.oblige(f"transform.value.input-not-mutated[{inst['transform']}]",
                 z3.BoolVal(snap == snap2 and all(
                     d_in[k].expr == ref[k] for k in ref)))
        h.oblige(f"transform.value.names[{inst['transform']}]",
                 z3.BoolVal(list(d_out) == list(d_in)))
        if inst["transform"] in IDEMPOTENT:
            # "applying it twice gives the same result as applying it once"
            # (structural equality, tags included -- C04 decides equality)
            try:
                d_twice = fn(d_out)
                same = (list(d_twice) == list(d_out) and all(
                    d_twice[k].expr == d_out[k].expr for k in d_out)
                    and _stored_nodes(d_twice) == _stored_nodes(d_out))
                info = None if same else (
                    f"stored after one application: "
                    f"{len(_stored_nodes(d_out))}, after two: "
                    f"{len(_stored_nodes(d_twice))}")
            except Exception as e:  # noqa: BLE001
                same, info = False, f"{type(e).__name__}: {e}"
            h.oblige(f"transform.idempotent[{inst['transform']}]",
                     z3.BoolVal(bool(same)), info=info)
        ref = raw
        if direct is not None and inst["transform"] != "inline_calls":
            # a pass that keeps the calls: their meaning is that of the
            # inlined body (the inliner itself is validated by the
            # inline_calls instance against the directly applied function)
            d_out = pt.inline_calls(pt.tag_all_calls_to_be_inlined(d_out))
        arrays = ArrayModel()
        # equal inputs are the same input (data wrappers: same data object)
        from pytato.array import DataWrapper, Placeholder
        from pytato.transform import InputGatherer
        byname, bydata = {}, {}
        for name in d_in:
            for i in _inputs_by_identity(ref[name]):
                if isinstance(i, Placeholder):
                    byname.setdefault(i.name, i)
                elif isinstance(i, DataWrapper):
                    bydata.setdefault(id(i.data), i)
        for name in d_out:
            for i in _inputs_by_identity(d_out[name].expr):
                if isinstance(i, Placeholder) and i.name in byname and \
                        i is not byname[i.name]:
                    arrays.alias(i, byname[i.name], i.ndim)
                elif isinstance(i, DataWrapper) and id(i.data) in bydata \
                        and i is not bydata[id(i.data)]:
                    arrays.alias(i, bydata[id(i.data)], i.ndim)
        # data wrappers of the *input* that wrap the same object are equal too
        seen = {}
        for name in d_in:
            for i in _inputs_by_identity(ref[name]):
                if isinstance(i, DataWrapper):
                    if id(i.data) in seen and seen[id(i.data)] is not i:
                        arrays.alias(i, seen[id(i.data)], i.ndim)
                    seen.setdefault(id(i.data), i)
        for nm in ("n",):
            h.assume(z3.Int(f"sp_{nm}") >= 0)
        T_ = inst["transform"]
        new_inputs = sorted({
            i.name for name in d_out
            for i in _inputs_by_identity(d_out[name].expr)
            if isinstance(i, Placeholder) and i.name not in byname})
        h.oblige(f"transform.value.reads-only-the-program's-inputs[{T_}]",
                 z3.BoolVal(not new_inputs), info=new_inputs)
        for name in d_in:
            e0, e1 = ref[name], d_out[name].expr
            try:
                nd1, dt1, shp1 = e1.ndim, e1.dtype, e1.shape
            except Exception as e:  # noqa: BLE001
                # the pass returned a graph whose nodes cannot even tell
                # their shape (e.g. an index node put together wrongly)
                h.fail(f"transform.value.output-well-formed[{T_}]",
                       f"{name}: .shape/.dtype of the returned expression "
                       f"raises {type(e).__name__}: {e}")
                continue
            if e0.ndim != nd1 or e0.dtype != dt1:
                h.fail(f"transform.value.shape-dtype[{T_}]",
                       f"{name}: {e0.shape}/{e0.dtype} vs {shp1}/{dt1}")
                continue
            for d_, (s0, s1) in enumerate(zip(e0.shape, e1.shape, strict=True)):
                h.oblige(f"transform.value.shape[{T_}]",
                         shape_term(s0) == shape_term(s1))
            ivars = [z3.Int(f"i{d_}") for d_ in range(e0.ndim)]
            box = in_box(ivars, e0.shape)
            want = pytato_den(h, arrays, e0, ivars)
            try:
                got = pytato_den(h, arrays, e1, ivars)
            except (EngineFault, AssertionError, ValueError, IndexError,
                    TypeError) as e:
                # the reference denotes (line above); the *returned* graph
                # has no meaning: ranks, index counts or shapes do not fit
                h.fail(f"transform.value.output-well-formed[{T_}]",
                       f"{name}: the returned expression has no denotation: "
                       f"{type(e).__name__}: {e}")
                continue
            if h.canary == "output-plus-one" and z3.is_expr(want):
                want = want + 1
            oblige_equal_den(h, f"transform.value.[{T_}]", box, got, want,
                             props=("C05",))

# }}}


TRANSFORM_REPLAY = '''
import sys
sys.path.insert(0, "/verif"); sys.path.append("/verif/.deps")
import numpy as np, pytato as pt
from pyvc.replaylib import eval_array, reproduced, not_reproduced
from contracts.c05_transforms import (_special_programs, _transformations,
                                      _inputs_by_identity)
from contracts.c07_kernel import random_program
prog, tname = {prog!r}, {tname!r}
direct = None
if prog.startswith("random:"):
    outs = random_program(int(prog.split(":")[1]), lambda k, x: x)
else:
    outs = _special_programs()[prog]()
    if isinstance(outs, tuple):
        outs, direct = outs
raw = dict(direct if direct is not None else outs)
d_in = pt.transform.deduplicate(pt.make_dict_of_named_arrays(outs))
try:
    d_out = _transformations()[tname](d_in)
except NotImplementedError:
    not_reproduced("explicitly unsupported")
except Exception as e:
    reproduced(f"{{tname}} raised {{type(e).__name__}}: {{e}}")
from contracts.c05_transforms import IDEMPOTENT, _stored_nodes
if tname in IDEMPOTENT and "idempotent" in OBLIGATION:
    try:
        d2 = _transformations()[tname](d_out)
    except Exception as e:
        reproduced(f"second application of {{tname}} raises {{type(e).__name__}}: {{e}}")
    diff = [k for k in d_out if not (d2[k].expr == d_out[k].expr)]
    if list(d2) != list(d_out) or diff or _stored_nodes(d2) != _stored_nodes(d_out):
        reproduced(f"{{tname}} applied twice differs from {{tname}} applied once on "
                   f"program '{{prog}}': outputs that differ {{diff}}; stored "
                   f"nodes after one application {{len(_stored_nodes(d_out))}}, "
                   f"after two {{len(_stored_nodes(d2))}}")
    not_reproduced("applying it twice equals applying it once")
if direct is not None and tname != "inline_calls":
    d_out = pt.inline_calls(pt.tag_all_calls_to_be_inlined(d_out))
rng = np.random.default_rng(3)
data = {{"n": 3}}
for e in list(raw.values()) + [d_out[k].expr for k in d_out]:
    for i in _inputs_by_identity(e):
        if isinstance(i, pt.Placeholder) and i.name not in data:
            shp = tuple(3 if not isinstance(s, int) else s for s in i.shape)
            if i.name == "rs":
                data[i.name] = np.array([0, 2, 3, 6], dtype=i.dtype)
            elif i.dtype.kind in "iu":
                data[i.name] = rng.integers(0, 4, shp).astype(i.dtype)
            else:
                data[i.name] = rng.integers(-4, 5, shp).astype(i.dtype)
for k in raw:
    try:
        want = eval_array(raw[k], data)
        got = eval_array(d_out[k].expr, data)
    except KeyError as e:
        reproduced(f"{{tname}}: output '{{k}}' reads an input {{e}} the program does not have")
    if got.shape != want.shape or not np.allclose(got, want, equal_nan=True):
        reproduced(f"{{tname}} changed output '{{k}}': {{got.tolist()!r:.200}} vs {{want.tolist()!r:.200}}")
not_reproduced("outputs agree on the sampled inputs")
'''


# {{{ C06: the einsum rewrites on whole programs

@contract
class EinsumRewritePrograms(TransformValues):
    """C06 by translation validation: apply_distributive_property_to_einsums
    (for each choice of the operand to distribute over) and
    rewrite_einsums_with_no_broadcasts run on seeded random DAGs and on
    programs with shared broadcast operands / constant-filled summands; the
    result is proved to denote what the program denotes (all sizes, inputs
    and indices).  The per-method contracts of c06_einsum.py see one node at
    a time; sharing between einsums and operand kinds outside their table
    show only here."""
    name = "einsum.programs"
    properties = ("C06",)
    props_for_all_clauses = ("C06",)
    functions = ("pytato.transform.einsum_distributive_law:"
                 "apply_distributive_property_to_einsums",
                 "pytato.transform.einsum_distributive_law:"
                 "EinsumDistributiveLawMapper.map_index_lambda",
                 "pytato.transform.remove_broadcasts_einsum:"
                 "rewrite_einsums_with_no_broadcasts",
                 "pytato.transform.remove_broadcasts_einsum:"
                 "EinsumWithNoBroadcastsRewriter.get_cache_key")

    def instances(self, tier):
        import os
        base = int(os.environ.get("VERIF_SEED", "1") or 1) * 100000
        progs = [f"random:{base + i}"
                 for i in range(8 if tier != "thorough" else 80)]
        progs += ["einsum_shared_broadcast", "einsum_distribute"]
        ts = ["rewrite_einsums_with_no_broadcasts", "distribute-operand-0",
              "distribute-operand-1", "distribute-operand-2"]
        return [dict(label=f"{t};{p}", transform=t, prog=p)
                for t in ts for p in progs]

    def canaries(self, tier):
        return [(dict(label="rewrite_einsums_with_no_broadcasts;"
                            "einsum_shared_broadcast",
                      transform="rewrite_einsums_with_no_broadcasts",
                      prog="einsum_shared_broadcast"), "output-plus-one",
                 "transform.value.")]

    def run(self, h, inst):
        if not inst["transform"].startswith("distribute-"):
            return TransformValues.run(self, h, inst)
        # The distributive law itself (sum_j M_ij (x_j + y_j) = sum_j M_ij x_j
        # + sum_j M_ij y_j) is linearity of the reduction, which the
        # pointwise denotation keeps uninterpreted: z3 cannot decide it.
        # Bounded stand-in, labelled as such: both graphs are evaluated with
        # the reference evaluator on sampled inputs (three sizes).
        from contracts.c07_kernel import random_program
        from pyvc.replaylib import eval_array
        prog, T_ = inst["prog"], inst["transform"]
        if prog.startswith("random:"):
            outs = random_program(int(prog.split(":")[1]), lambda k, x: x)
        else:
            outs = _special_programs()[prog]()
        d_in = pt.transform.deduplicate(pt.make_dict_of_named_arrays(outs))
        try:
            d_out = _transformations()[T_](d_in)
        except (NotImplementedError, RuntimeError) as e:
            explicit = isinstance(e, NotImplementedError) or \
                "Cannot distribute" in str(e)
            h.oblige(f"einsum.programs.decline-is-explicit[{T_}]",
                     z3.BoolVal(explicit), info=str(e)[:120])
            return
        except Exception as e:  # noqa: BLE001
            h.fail(f"einsum.programs.no-exception[{T_}]",
                   f"{type(e).__name__}: {e}")
            return
        h.oblige(f"einsum.programs.names[{T_}]",
                 z3.BoolVal(list(d_out) == list(d_in)))
        bad = None
        for nsize, seed in ((3, 1), (1, 2), (5, 3)):
            rng = np.random.default_rng(seed)
            data = {"n": nsize}
            for name in d_in:
                for i in _inputs_by_identity(d_in[name].expr):
                    if isinstance(i, pt.Placeholder) and i.name not in data:
                        shp = tuple(nsize if not isinstance(s_, int) else s_
                                    for s_ in i.shape)
                        data[i.name] = rng.integers(-4, 5, shp).astype(
                            i.dtype)
            for name in d_in:
                try:
                    want = eval_array(d_in[name].expr, data)
                    got = eval_array(d_out[name].expr, data)
                except Exception as e:  # noqa: BLE001
                    bad = f"{name}: evaluation of the result raises " \
                          f"{type(e).__name__}: {e}"
                    break
                if got.shape != want.shape or not np.allclose(
                        got, want, equal_nan=True):
                    bad = f"{name} (n={nsize}): {got.tolist()!r:.120} vs " \
                          f"{want.tolist()!r:.120}"
                    break
            if bad:
                break
        h.oblige(f"einsum.programs.value-on-sampled-inputs[{T_}]",
                 z3.BoolVal(bad is None), info=bad)

# }}}
