"""C05 -- graph transformations preserve every output, never mutate input.

rebuild[M,K,pattern]   copy-family mapper method: with the recursion replaced
                       by its contract (child c maps to image(c); for the
                       children not in *pattern* image(c) is c), the result is
                       a node of the same class whose every array child is the
                       image of the corresponding child and whose every other
                       field equals the input's -- hence (congruence of the
                       value function) [[result]] = [[expr]] given
                       [[image(c)]] = [[c]].  One child changing at a time is
                       enumerated as well as all/none.
frame[M,K]             no field of the input node (or of nested matrix/send
                       records) is rebound; the input tuple/dict objects are
                       the same objects with the same entries.
tag-only[...]          with_tagged_axis / tagged / with_tagged_reduction and
                       the materialisation helper change nothing but tags.
dce.*                  pytato.zero(..) lambdas become the constant-0 lambda of
                       the same shape/dtype/axes/tags; anything else is rebuilt.
"""
from __future__ import annotations

import dataclasses

import numpy as np
import z3

from pytato.array import Array
from pytato.function import FunctionDefinition

from contracts.c13_mappers import (BASE_CFG, CHANGES_BY_DESIGN, kind_by_name,
                                   kinds, method_name, pairs, setup)
from pyvc import graphmodel as gm
from pyvc import mapperlib as ml
from pyvc.core import Contract, contract
from pyvc.sym import EngineSignal

COPY_MAPPERS = ["CopyMapper", "CopyMapperWithExtraArgs", "Deduplicator",
                "DataWrapperDeduplicator", "CachedMapAndCopyMapper",
                "InlineMarker", "DeadCodeEliminator",
                "EinsumWithNoBroadcastsRewriter"]

#: semantic overrides: verified by their own contracts, not as plain rebuilds
SEMANTIC_OVERRIDES = {("InlineMarker", "Call"),
                      ("DataWrapperDeduplicator", "DataWrapper")}


def snapshot(b: gm.Built):
    """Identity snapshot of every field (and container entries)."""
    snap = {}
    for name, (kind, val) in b.fields.items():
        cur = getattr(b.obj, name)
        if kind == gm.NESTED:
            snap[name] = (id(cur), snapshot(val))
        elif isinstance(cur, tuple):
            snap[name] = (id(cur), tuple(id(x) for x in cur))
        elif hasattr(cur, "items") and not isinstance(cur, gm._OpaqueMixin):
            snap[name] = (id(cur), tuple((k, id(v)) for k, v in cur.items()))
        else:
            snap[name] = (id(cur), None)
    return snap


def expected_value(kind, val, img):
    if kind in (gm.CHILD, gm.CONTAINER, gm.FUNCTION):
        return img(val)
    if kind in (gm.CHILDREN, gm.SHAPE, gm.INDICES):
        return tuple(img(v) if isinstance(v, gm._OpaqueMixin) else v
                     for v in val)
    if kind in (gm.CHILDMAP, gm.CHILDMAP_S):
        return {k: (img(v) if isinstance(v, gm._OpaqueMixin) else v)
                for k, v in val.items()}
    return val


def check_rebuilt(h, clause, b: gm.Built, result, img, info=None):
    """result must be the homomorphic image of b.obj under img."""
    if type(result) is not type(b.obj):
        h.fail(f"{clause}.class", f"{type(result).__name__}", props=("C05",))
        return
    for name, (kind, val) in b.fields.items():
        got = getattr(result, name)
        if kind == gm.NESTED:
            check_rebuilt(h, f"{clause}.{name}", val, got, img)
            continue
        want = expected_value(kind, val, img)
        orig = expected_value(kind, val, lambda x: x)

        def entry_ok(g, w, o, strict):
            # strict (C13: one result object per shared node): the entry is
            # exactly what the recursion returned for it.  weak (C05: value
            # preserved): the entry or its value-equal image.
            return g is w or (not strict and g is o)
        for strict, props_, tag in ((False, ("C05",), "value"),
                                    (True, ("C13",), "shared-result")):
            if kind == gm.VALUE:
                if strict:
                    continue
                ok = got is want or bool(got == want)
            elif isinstance(want, tuple):
                ok = isinstance(got, tuple) and len(got) == len(want) and \
                    all(entry_ok(g, w, o, strict) for g, w, o in zip(
                        got, want, orig, strict=True))
            elif isinstance(want, dict):
                ok = set(got.keys()) == set(want.keys()) and all(
                    entry_ok(got[k], want[k], orig[k], strict) for k in want)
            else:
                ok = entry_ok(got, want, orig, strict)
            h.oblige(f"{clause}.{tag}[{name}]", z3.BoolVal(bool(ok)),
                     props=props_, info=info)


def real_container(c):
    return not isinstance(c, gm._OpaqueMixin)


@contract
class CopyRebuild(Contract):
    name = "transform.rebuild"
    functions = ("pytato.transform:CopyMapper.map_*",
                 "pytato.transform:CopyMapperWithExtraArgs.map_*",
                 "pytato.array:_augment_array_dataclass."
                 "_dataclass_replace_if_different",
                 "pytato.array:AbstractResultWithNamedArrays."
                 "replace_if_different",
                 "pytato.array:DictOfNamedArrays.replace_if_different",
                 "pytato.array:_entries_are_identical")
    properties = ("C05", "C13")

    def instances(self, tier):
        out = []
        for Mn, Kn in pairs(COPY_MAPPERS):
            if (Mn, Kn) in SEMANTIC_OVERRIDES:
                continue
            if Kn in ("NamedArray", "NamedCallResult", "LoopyCallResult"):
                # results of real containers: their rebuild is the
                # container's; covered through DictOfNamedArrays/Call/LoopyCall
                continue
            if tier != "thorough" and Mn not in (
                    "CopyMapper", "CopyMapperWithExtraArgs", "Deduplicator"):
                pats = ["all"]
            else:
                pats = ["all", "each"]
            for p in pats:
                out.append(dict(label=f"{Mn};{Kn};{p}", M=Mn, K=Kn, pat=p))
        return out

    def canaries(self, tier):
        return [(dict(label="CopyMapper;Roll;all", M="CopyMapper", K="Roll",
                      pat="all"), "expect-unchanged",
                 "rebuild[CopyMapper,Roll,all].value[array]")]

    def run(self, h, inst):
        Mn, Kn, pat = inst["M"], inst["K"], inst["pat"]
        K = kind_by_name(Kn)
        # how many children are there? (build once to enumerate)
        probe = ml.build_node(K, "e", BASE_CFG)
        kids = [c for c in probe.children(with_functions=True)]
        if pat == "all":
            self.one(h, Mn, Kn, None, "all")
        else:
            for j in range(len(kids)):
                self.one(h, Mn, Kn, j, f"only#{j}")
            if not kids:
                h.oblige(f"no-children[{Mn},{Kn}]", z3.BoolVal(True))

    def one(self, h, Mn, Kn, only, lab):
        M, K, b, mapper, rec, fam = setup(h, Mn, Kn, mode="image")
        kids = b.children(with_functions=True)
        changed = set(range(len(kids))) if only is None else {only}
        changed_ids = {id(kids[j]) for j in changed}
        base_image = rec.image_of

        def img(x):
            if id(x) in changed_ids and isinstance(x, gm._OpaqueMixin):
                return base_image(x)
            return x
        # re-stub with the selective image function
        def rec_fn(x, *a, **k):
            rec.rec_args.append(x)
            return img(x)
        mapper.rec = rec_fn
        mapper.rec_function_definition = rec_fn
        before = snapshot(b)
        clause = f"rebuild[{Mn},{Kn},{lab}]"
        try:
            result = h.call(getattr(mapper, method_name(K)), b.obj)
        except EngineSignal:
            raise
        except NotImplementedError as e:
            h.oblige(f"unsupported-is-explicit[{Mn},{Kn}]", z3.BoolVal(True),
                     props=("C05",), info=str(e)[:80])
            return
        except Exception as e:  # noqa: BLE001
            h.fail(f"{clause}.no-exception", f"{type(e).__name__}: {e}",
                   props=("C05",))
            return
        if h.canary == "expect-unchanged":
            img = lambda x: x  # noqa: E731
        check_rebuilt(h, clause, b, result, img)
        h.oblige(f"frame[{Mn},{Kn},{lab}]",
                 z3.BoolVal(snapshot(b) == before), props=("C05",))
        if not any(isinstance(kids[j], gm._OpaqueMixin) for j in changed):
            h.oblige(f"identity-when-unchanged[{Mn},{Kn},{lab}]",
                     z3.BoolVal(result is b.obj), props=("C13", "C05"))

    def replay(self, inst, clause, model, info):
        return None


@contract
class DeadCode(Contract):
    name = "transform.dce"
    functions = ("pytato.transform.dead_code_elimination:"
                 "DeadCodeEliminator.map_index_lambda",
                 "pytato.transform.dead_code_elimination:eliminate_dead_code")
    properties = ("C05",)

    def instances(self, tier):
        return [dict(label=k, case=k) for k in
                ("zero-call", "other-call", "nested-zero", "no-call")]

    def canaries(self, tier):
        return [(dict(label="zero-call", case="zero-call"), "keeps-bindings",
                 "dce.zero-becomes-constant")]

    def run(self, h, inst):
        import pymbolic.primitives as p
        from constantdict import constantdict

        from pytato.array import IndexLambda
        case = inst["case"]
        M, K, b, mapper, rec, fam = setup(h, "DeadCodeEliminator",
                                          "IndexLambda", mode="image")
        sub = p.Variable("_in0")[(p.Variable("_0"),)]
        expr = {"zero-call": p.Call(p.Variable("pytato.zero"), (sub,)),
                "other-call": p.Call(p.Variable("pytato.c99.abs"), (sub,)),
                "nested-zero": p.Call(p.Variable("pytato.zero"), (sub,)) + 1,
                "no-call": sub}[case]
        object.__setattr__(b.obj, "expr", expr)
        b.fields["expr"] = (gm.VALUE, expr)
        before = snapshot(b)
        result = h.call(mapper.map_index_lambda, b.obj)
        h.oblige("dce.frame", z3.BoolVal(snapshot(b) == before))
        if case == "zero-call":
            ok = (isinstance(result, IndexLambda) and result.expr == 0
                  and len(result.bindings) == (1 if h.canary else 0)
                  and result.shape is b.obj.shape
                  and result.dtype == b.obj.dtype
                  and result.axes == b.obj.axes and result.tags == b.obj.tags)
            h.oblige("dce.zero-becomes-constant", z3.BoolVal(bool(ok)))
        else:
            # everything else (including zero nested inside arithmetic and
            # other calls) is only rebuilt: [[.]] preserved by congruence
            check_rebuilt(h, f"dce.rebuild[{case}]", b, result, rec.image_of)


@contract
class TagOnly(Contract):
    name = "transform.tag-only"
    functions = ("pytato.array:Array.with_tagged_axis",
                 "pytato.array:IndexLambda.with_tagged_reduction",
                 "pytato.array:Einsum.with_tagged_reduction",
                 "pytato.array:CSRMatmul.with_tagged_reduction",
                 "pytato.array:_SuppliedAxesAndTagsMixin._with_new_tags",
                 "pytato.transform.materialize:_materialize_if_mpms")
    properties = ("C05", "C07")

    def instances(self, tier):
        out = [dict(label=f"with_tagged_axis;{K.__name__}", op="axis",
                    K=K.__name__)
               for K in kinds() if K is not FunctionDefinition
               and issubclass(K, Array)
               and K.__name__ not in ("NamedCallResult", "LoopyCallResult",
                                      "DistributedSendRefHolder",
                                      "NamedArray")]
        out += [dict(label=f"tagged;{K.__name__}", op="tagged", K=K.__name__)
                for K in kinds() if K is not FunctionDefinition
                and K.__name__ not in ("NamedCallResult", "LoopyCallResult",
                                       "DistributedSendRefHolder",
                                       "NamedArray", "LoopyCall",
                                       "DictOfNamedArrays")]
        out += [dict(label=f"with_tagged_reduction;{k}", op="redn", K=k)
                for k in ("IndexLambda", "Einsum", "CSRMatmul")]
        out += [dict(label=f"materialize_if_mpms;succ={s};preds={p}",
                     op="mpms", nsucc=s, npred=p)
                for s in (0, 1, 2) for p in (0, 1, 2)]
        return out

    def run(self, h, inst):
        from pyvc.ptlib import VerifAxisTag, VerifTag
        op = inst["op"]
        if op == "mpms":
            return self.mpms(h, inst)
        K = kind_by_name(inst["K"])
        cfg = dict(BASE_CFG)
        if op == "redn":
            cfg = self.redn_cfg(inst["K"], cfg)
        b = ml.build_node(K, "e", cfg)
        before = snapshot(b)
        fields = {f.name: getattr(b.obj, f.name)
                  for f in dataclasses.fields(b.obj)}
        try:
            if op == "axis":
                res = h.call(b.obj.with_tagged_axis, 0, VerifAxisTag(1))
                allowed = {"axes"}
            elif op == "tagged":
                res = h.call(b.obj.tagged, VerifTag(2))
                allowed = {"tags"}
            else:
                if inst["K"] == "IndexLambda":
                    res = h.call(b.obj.with_tagged_reduction, "_r0",
                                 VerifTag(3))
                    allowed = {"var_to_reduction_descr"}
                elif inst["K"] == "Einsum":
                    from pytato.array import EinsumReductionAxis
                    res = h.call(b.obj.with_tagged_reduction,
                                 EinsumReductionAxis(0), VerifTag(3))
                    allowed = {"redn_axis_to_redn_descr"}
                else:
                    res = h.call(b.obj.with_tagged_reduction, VerifTag(3))
                    allowed = {"reduction_descr"}
        except EngineSignal:
            raise
        except Exception as e:  # noqa: BLE001
            h.fail(f"tag-only.no-exception[{op},{inst['K']}]",
                   f"{type(e).__name__}: {e}")
            return
        Kn = inst["K"]
        h.oblige(f"tag-only.frame[{op},{Kn}]",
                 z3.BoolVal(snapshot(b) == before))
        h.oblige(f"tag-only.class[{op},{Kn}]",
                 z3.BoolVal(type(res) is type(b.obj)))
        for name, old in fields.items():
            if name in allowed or name == "non_equality_tags":
                continue
            new = getattr(res, name)
            h.oblige(f"tag-only.other-fields-identical[{op},{Kn}.{name}]",
                     z3.BoolVal(new is old))
        # the allowed field differs in tags only
        for name in allowed:
            new, old = getattr(res, name), fields[name]
            ok = True
            if name == "axes":
                ok = len(new) == len(old) and all(
                    type(a) is type(o) for a, o in zip(new, old, strict=True))
            elif name in ("var_to_reduction_descr",
                          "redn_axis_to_redn_descr"):
                ok = set(new) == set(old)
            h.oblige(f"tag-only.structure-kept[{op},{Kn}.{name}]",
                     z3.BoolVal(bool(ok)))

    def redn_cfg(self, Kn, cfg):
        import pymbolic.primitives as p
        from constantdict import constantdict

        from pytato.array import (EinsumElementwiseAxis, EinsumReductionAxis,
                                  ReductionDescriptor)
        from pytato.reductions import SumReductionOperation
        from pytato.scalar_expr import Reduce
        if Kn == "IndexLambda":
            e = Reduce(p.Variable("_in0")[(p.Variable("_r0"),)],
                       SumReductionOperation(),
                       constantdict({"_r0": (0, 10)}))
            return dict(cfg, values=dict(
                expr=e, var_to_reduction_descr=constantdict(
                    {"_r0": ReductionDescriptor(frozenset())})))
        if Kn == "Einsum":
            return dict(cfg, n_children=1, values=dict(
                access_descriptors=((EinsumReductionAxis(0),),),
                redn_axis_to_redn_descr=constantdict(
                    {EinsumReductionAxis(0): ReductionDescriptor(
                        frozenset())})))
        return cfg

    def mpms(self, h, inst):
        from pytato.tags import ImplStored
        from pytato.transform.materialize import (
            MPMSMaterializerAccumulator, _materialize_if_mpms)
        x = gm.mk_opaque_array("x", "concrete")
        succ = [gm.mk_opaque_array(f"s{i}", "concrete")
                for i in range(inst["nsucc"])]
        mats = [gm.mk_opaque_array(f"m{i}", "concrete")
                for i in range(inst["npred"])]
        for i, a in enumerate(mats):
            for c in mats[:i]:
                # distinct predecessors (R is symmetric)
                h.assume(z3.Not(gm.R(a._u, c._u)))
                h.assume(z3.Not(gm.R(c._u, a._u)))
        preds = [MPMSMaterializerAccumulator(frozenset([m_]), m_)
                 for m_ in mats]
        fields_before = dict(vars(x))
        res = h.call(_materialize_if_mpms, x, succ, preds)
        h.oblige("mpms.frame", z3.BoolVal(dict(vars(x)) == fields_before))
        new = res.expr
        should = inst["nsucc"] > 1 and inst["npred"] > 1
        if new is x:
            h.oblige("mpms.materialises-iff-mpms", z3.BoolVal(not should))
        else:
            h.oblige("mpms.materialises-iff-mpms", z3.BoolVal(should))
            same = all(getattr(new, a) is getattr(x, a)
                       for a in ("shape", "dtype", "axes"))
            h.oblige("mpms.only-tags-differ", z3.BoolVal(
                same and new.tags == x.tags | {ImplStored()}))
