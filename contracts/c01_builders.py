"""C01 (API -> IndexLambda half), C11, C03 (shapes), C19 (producers).

For every expression-building public function: the IndexLambda it returns
denotes NumPy's pointwise definition of the operation for all operand values,
all axis lengths and all output indices (C01 front half); every array access
in it is in bounds under its guards (C11); its eagerly inferred shape is
NumPy's, and it is accepted only if NumPy's broadcasting accepts (C03).

Casts to the result dtype are value-preserving in exact arithmetic and are
read as the identity (stated assumption: no overflow, no rounding).
"""
from __future__ import annotations

import itertools
import operator

import numpy as np
import z3

import pytato as pt
from pytato.array import Array, IndexLambda

from pyvc.core import Contract, contract
from pyvc.den import ArrayModel, Reduction, uf
from pyvc.ptlib import (check_index_lambda, dim, mk_placeholder,
                        shape_term)
from pyvc.sym import EngineSignal, py_floordiv, py_mod, z_of

# {{{ NumPy's meaning of the scalar operations (z3 level)

BINOPS = {
    "add": (operator.add, lambda a, b: a + b),
    "sub": (operator.sub, lambda a, b: a - b),
    "mul": (operator.mul, lambda a, b: a * b),
    "truediv": (operator.truediv, lambda a, b: uf("op_truediv", 2)(a, b)),
    "floordiv": (operator.floordiv, py_floordiv),
    "mod": (operator.mod, py_mod),
    "pow": (operator.pow, lambda a, b: uf("op_pow", 2)(a, b)),
    "and": (operator.and_, lambda a, b: uf("op_bitand", 2)(a, b)),
    "or": (operator.or_, lambda a, b: uf("op_bitor", 2)(a, b)),
    "xor": (operator.xor, lambda a, b: uf("op_bitxor", 2)(a, b)),
}
CMPS = {"equal": lambda a, b: a == b, "not_equal": lambda a, b: a != b,
        "less": lambda a, b: a < b, "less_equal": lambda a, b: a <= b,
        "greater": lambda a, b: a > b, "greater_equal": lambda a, b: a >= b}
UNARY_FUNCS = ["sqrt", "sin", "cos", "tan", "arcsin", "arccos", "arctan",
               "sinh", "cosh", "tanh", "exp", "log", "log10", "isnan", "abs"]
C99_NAME = {"arcsin": "asin", "arccos": "acos", "arctan": "atan"}


def b2i(t):
    return z3.If(t, z3.IntVal(1), z3.IntVal(0)) if z3.is_bool(t) else t


def lit(c):
    """Spec-side meaning of a Python scalar (exact arithmetic)."""
    if isinstance(c, bool):
        return z3.IntVal(int(c))
    if isinstance(c, int):
        return z3.IntVal(c)
    if isinstance(c, float) and c == int(c):
        return z3.IntVal(int(c))
    if c < 0:
        return -z3.Int(f"lit_float_{float(-c)!r}")
    return z3.Int(f"lit_float_{float(c)!r}")

# }}}


# {{{ broadcasting

#: operand shape patterns relative to the result: per axis 'n' (the common
#: symbolic length), '1' (literal one) -- right-aligned, rank <= result rank
def bcast_patterns(tier):
    pats = [("", ""), ("n", "n"), ("n", ""), ("", "n"), ("n", "1"),
            ("1", "n"), ("nn", "nn"), ("nn", "n"), ("n", "nn"), ("nn", "1n"),
            ("n1", "1n"), ("1n", "n1"), ("nn", "")]
    if tier == "thorough":
        pats += [("nnn", "n1n"), ("1nn", "n"), ("nnn", "1n1"), ("n1n", "1n1"),
                 ("nnn", ""), ("", "nnn"), ("11", "nn"), ("nn", "11")]
    return pats


def mk_bcast_operand(h, name, pat, common, dtype=np.float64):
    r = len(pat)
    off = len(common) - r
    shape = [common[off + t] if c == "n" else 1 for t, c in enumerate(pat)]
    return mk_placeholder(h, name, shape=shape, dtype=dtype)


def bidx(iv, arr_shape, res_shape):
    """NumPy broadcasting: index of an operand for result index iv."""
    off = len(res_shape) - len(arr_shape)
    out = []
    for t, n in enumerate(arr_shape):
        nt, rt = shape_term(n), shape_term(res_shape[off + t])
        out.append(z3.If(nt == rt, iv[off + t], z3.IntVal(0)))
    return out


def np_broadcast(shapes):
    """(accepts, result shape) of NumPy broadcasting, as z3 terms."""
    r = max((len(s) for s in shapes), default=0)
    acc, res = [], []
    for t in range(r):
        dims = [shape_term(s[t - (r - len(s))]) for s in shapes
                if t - (r - len(s)) >= 0]
        n = dims[0]
        for d in dims[1:]:
            n = z3.If(n == 1, d, n)
        res.append(n)
        acc.append(z3.And([z3.Or(d == n, d == 1) for d in dims]))
    return z3.And(acc) if acc else z3.BoolVal(True), res


def A(arrays, arr, idx):
    f = arrays.fn_for(arr, len(idx))
    return f if len(idx) == 0 else f(*idx)

# }}}


def build(h, clause, fn, *args, must_accept=False, **kwargs):
    """Call a public constructor; exceptions end the path.  Rejection is
    allowed where NumPy may reject too (C03 constrains what is accepted);
    with *must_accept* the operands are NumPy-valid by construction and a
    rejection is a failure of C01 ("never fails in the supported
    fragment")."""
    try:
        return h.call(fn, *args, **kwargs)
    except EngineSignal:
        raise
    except (ValueError, TypeError, IndexError, NotImplementedError) as e:
        h.last_rejection = e
        if must_accept:
            h.fail(f"{clause}.accepts-what-numpy-accepts",
                   f"{type(e).__name__}: {e}", props=("C01",))
            return None
        h.oblige(f"{clause}.rejected", z3.BoolVal(True), props=("C03",),
                 info=f"{type(e).__name__}")
        return None
    except Exception as e:  # noqa: BLE001
        h.fail(f"{clause}.no-internal-error", f"{type(e).__name__}: {e}",
               props=("C01", "C03"))
        return None


def check(h, prefix, il, spec, arrays, spec_shape, premise=None):
    check_index_lambda(h, il, il, spec, arrays, clause_prefix=prefix,
                       value_props=("C01",), bounds_props=("C11",),
                       meta_props=("C01",), check_meta=False,
                       spec_shape=spec_shape, shape_props=("C03", "C01"),
                       premise=premise, cast_identity=True)


@contract
class BinaryOps(Contract):
    name = "build.binary"
    functions = ("pytato.array:Array._binary_op", "pytato.array:Array.__add__",
                 "pytato.array:Array.__radd__", "pytato.array:Array.__sub__",
                 "pytato.array:Array.__rsub__", "pytato.array:Array.__mul__",
                 "pytato.array:Array.__truediv__",
                 "pytato.array:Array.__rtruediv__",
                 "pytato.array:Array.__floordiv__", "pytato.array:Array.__mod__",
                 "pytato.array:Array.__pow__", "pytato.array:Array.__rpow__",
                 "pytato.utils:broadcast_binary_op",
                 "pytato.utils:get_shape_after_broadcasting",
                 "pytato.utils:update_bindings_and_get_broadcasted_expr",
                 "pytato.utils:with_indices_for_broadcasted_shape",
                 "pytato.utils:get_indexing_expression",
                 "pytato.utils:are_shape_components_equal",
                 "pytato.array:_compare", "pytato.array:logical_and",
                 "pytato.array:logical_or")
    properties = ("C01", "C11", "C03")

    def instances(self, tier):
        out = []
        ops = list(BINOPS) if tier == "thorough" else \
            ["add", "sub", "truediv", "pow", "mod"]
        for op in ops:
            pats = bcast_patterns(tier) if op in ("add", "truediv") or \
                tier == "thorough" else [("n", "n"), ("nn", "1n")]
            for pa, pb in pats:
                out.append(dict(label=f"{op};{pa or '0d'}|{pb or '0d'}",
                                kind="arrarr", op=op, pa=pa, pb=pb))
            for sc in ([3, 2.5, 3.0] if tier == "thorough" else [2.5]):
                for side in ("left", "right"):
                    out.append(dict(label=f"{op};scalar-{side};{sc}",
                                    kind="scalar", op=op, side=side, sc=sc,
                                    pa="nn"))
        for cmp_ in (CMPS if tier == "thorough" else ["less", "equal"]):
            out.append(dict(label=f"{cmp_};nn|1n", kind="cmp", op=cmp_,
                            pa="nn", pb="1n"))
            out.append(dict(label=f"{cmp_};scalar-left", kind="cmp-scalar",
                            op=cmp_, pa="nn"))
        for lg in ("logical_and", "logical_or"):
            out.append(dict(label=f"{lg};nn|n", kind="logical", op=lg,
                            pa="nn", pb="n"))
        # non-broadcastable pairs must not be accepted
        out.append(dict(label="add;mismatch", kind="mismatch", op="add"))
        return out

    def canaries(self, tier):
        return [(dict(label="sub;scalar-left;2.5", kind="scalar", op="sub",
                      side="left", sc=2.5, pa="nn"), "swap-operands",
                 "build.binary.value"),
                (dict(label="add;nn|1n", kind="arrarr", op="add", pa="nn",
                      pb="1n"), "tight-bounds", "build.binary.in-bounds",
                 ("C11",)),
                (dict(label="add;nn|1n", kind="arrarr", op="add", pa="nn",
                      pb="1n"), "no-broadcast-index", "build.binary.value",
                 ("C01",))]

    def run(self, h, inst):
        kind, op = inst["kind"], inst["op"]
        arrays = ArrayModel()
        if kind == "mismatch":
            n, m = dim(h, "n"), dim(h, "m")
            a = mk_placeholder(h, "a", shape=[n])
            b = mk_placeholder(h, "b", shape=[m])
            res = build(h, "build.binary", operator.add, a, b)
            if res is not None:
                acc, _ = np_broadcast([a.shape, b.shape])
                h.oblige("build.binary.accepted=>numpy-accepts", acc,
                         props=("C03",))
            return
        r = max(len(inst.get("pa", "")), len(inst.get("pb", "")))
        common = [dim(h, f"n{d}") for d in range(r)]
        a = mk_bcast_operand(h, "a", inst["pa"], common)
        if kind in ("arrarr", "cmp", "logical"):
            b = mk_bcast_operand(h, "b", inst["pb"], common)
            x, y = a, b
        elif kind == "scalar":
            x, y = (inst["sc"], a) if inst["side"] == "left" \
                else (a, inst["sc"])
        else:
            x, y = 3, a
        if kind in ("arrarr", "scalar"):
            pyop, zop = BINOPS[op]
            res = build(h, "build.binary", pyop, x, y,
                        must_accept=True)
        elif kind in ("cmp", "cmp-scalar"):
            zop = lambda p, q: b2i(CMPS[op](p, q))  # noqa: E731
            res = build(h, "build.binary", getattr(pt, op), x, y,
                        must_accept=True)
        else:
            zop = (lambda p, q: b2i(z3.And(p != 0, q != 0))) \
                if op == "logical_and" else \
                (lambda p, q: b2i(z3.Or(p != 0, q != 0)))
            res = build(h, "build.binary", getattr(pt, op), x, y,
                        must_accept=True)
        if res is None:
            return
        if not isinstance(res, IndexLambda):
            h.fail("build.binary.returns-index-lambda", type(res).__name__,
                   props=("C01",))
            return
        shapes = [o.shape for o in (x, y) if isinstance(o, Array)]
        acc, spec_shape = np_broadcast(shapes)
        h.oblige("build.binary.accepted=>numpy-accepts", acc, props=("C03",))

        def operand(o, iv):
            if isinstance(o, Array):
                i = bidx(iv, o.shape, res.shape)
                if h.canary == "no-broadcast-index":
                    off = len(res.shape) - len(o.shape)
                    i = [iv[off + t] for t in range(len(o.shape))]
                return A(arrays, o, i)
            return lit(o)

        def spec(iv):
            p, q = operand(x, iv), operand(y, iv)
            if h.canary == "swap-operands":
                p, q = q, p
            return zop(p, q)

        check(h, "build.binary", res, spec, arrays, spec_shape)

    def replay(self, inst, clause, model, info):
        return BIN_REPLAY.format(inst=inst)


BIN_REPLAY = '''
import sys, operator
sys.path.insert(0, "/verif")
import numpy as np, pytato as pt
from pyvc.replaylib import M_from, mint, rnd, compare, reproduced
M = M_from(MODEL)
inst = {inst!r}
kind, op = inst["kind"], inst["op"]
ops = dict(add=operator.add, sub=operator.sub, mul=operator.mul, truediv=operator.truediv,
           floordiv=operator.floordiv, mod=operator.mod, pow=operator.pow)
r = max(len(inst.get("pa", "")), len(inst.get("pb", "")))
common = [max(1, mint(M, f"n{{d}}", 3)) for d in range(r)]
def mk(name, pat, seed):
    off = r - len(pat)
    shp = tuple(common[off + t] if c == "n" else 1 for t, c in enumerate(pat))
    return pt.make_placeholder(name, shp, np.float64), rnd(shp, seed=seed) + 1
data = {{}}
if kind == "mismatch":
    n, m = max(0, mint(M, "n", 2)), max(0, mint(M, "m", 3))
    a = pt.make_placeholder("a", (n,), np.float64); b = pt.make_placeholder("b", (m,), np.float64)
    try:
        np.broadcast_shapes((n,), (m,)); ok = True
    except ValueError:
        ok = False
    try:
        a + b; acc = True
    except Exception:
        acc = False
    if acc and not ok:
        reproduced(f"pytato accepts shapes ({{n}},)+({{m}},) that NumPy cannot broadcast")
    print("not reproduced"); sys.exit(0)
a, da = mk("a", inst["pa"], 0); data["a"] = da
if kind in ("arrarr", "cmp", "logical"):
    b, db = mk("b", inst["pb"], 1); data["b"] = db
    x, y, nx, ny = a, b, da, db
elif kind == "scalar":
    sc = inst["sc"]
    x, y, nx, ny = (sc, a, sc, da) if inst["side"] == "left" else (a, sc, da, sc)
else:
    x, y, nx, ny = 3, a, 3, da
if kind in ("arrarr", "scalar"):
    node = ops[op](x, y); expect = ops[op](nx, ny)
elif kind in ("cmp", "cmp-scalar"):
    node = getattr(pt, op)(x, y); expect = getattr(np, op)(nx, ny)
else:
    node = getattr(pt, op)(x, y); expect = getattr(np, op)(nx, ny)
compare(node, data, expect, exact=False)
'''


@contract
class WhereMaxMin(Contract):
    name = "build.where"
    functions = ("pytato.array:where", "pytato.array:maximum",
                 "pytato.array:minimum")
    properties = ("C01", "C11", "C03")

    def instances(self, tier):
        out = [dict(label="where;nn|n|1n", fn="where", pats=["nn", "n", "1n"]),
               dict(label="where;n|scalar|n", fn="where-scalar", pats=["n"]),
               dict(label="maximum;nn|1n", fn="maximum", pats=["nn", "1n"]),
               dict(label="minimum;nn|1n", fn="minimum", pats=["nn", "1n"])]
        if tier == "thorough":
            out.append(dict(label="where;n|nn|n1", fn="where",
                            pats=["n", "nn", "n1"]))
        return out

    def canaries(self, tier):
        return [(dict(label="where;nn|n|1n", fn="where",
                      pats=["nn", "n", "1n"]), "swap-branches",
                 "build.where.value")]

    def run(self, h, inst):
        fn, pats = inst["fn"], inst["pats"]
        arrays = ArrayModel()
        r = max(len(p) for p in pats)
        common = [dim(h, f"n{d}") for d in range(r)]
        ops = [mk_bcast_operand(h, f"a{k}", p, common)
               for k, p in enumerate(pats)]
        if fn == "where":
            res = build(h, "build.where", pt.where, *ops,
                        must_accept=True)
            args = ops
        elif fn == "where-scalar":
            res = build(h, "build.where", pt.where, ops[0], 2.5, ops[0],
                        must_accept=True)
            args = [ops[0], 2.5, ops[0]]
        else:
            res = build(h, "build.where", getattr(pt, fn), *ops,
                        must_accept=True)
            args = ops
        if res is None:
            return
        shapes = [o.shape for o in args if isinstance(o, Array)]
        acc, spec_shape = np_broadcast(shapes)
        h.oblige("build.where.accepted=>numpy-accepts", acc, props=("C03",))

        def operand(o, iv):
            if isinstance(o, Array):
                return A(arrays, o, bidx(iv, o.shape, res.shape))
            return lit(o)

        def spec(iv):
            v = [operand(o, iv) for o in args]
            if fn.startswith("where"):
                t, f = (v[2], v[1]) if h.canary == "swap-branches" \
                    else (v[1], v[2])
                return z3.If(v[0] != 0, t, f)
            nan = z3.Int("nan_float64")
            isnan = uf("call_pytato.c99.isnan", 1)
            pick = z3.If(v[0] > v[1], v[0], v[1]) if fn == "maximum" \
                else z3.If(v[0] < v[1], v[0], v[1])
            # NaN-propagating (NumPy): NaN if either operand is NaN
            return z3.If(z3.Or(isnan(v[0]) != 0, isnan(v[1]) != 0), nan, pick)

        check(h, "build.where", res, spec, arrays, spec_shape)


@contract
class UnaryAndMath(Contract):
    name = "build.unary"
    functions = ("pytato.array:Array._unary_op", "pytato.array:Array.__neg__",
                 "pytato.cmath:_apply_elem_wise_func", "pytato.array:Array.astype",
                 "pytato.array:logical_not", "pytato.array:broadcast_to",
                 "pytato.array:full", "pytato.array:zeros", "pytato.array:ones",
                 "pytato.array:eye", "pytato.array:arange")
    properties = ("C01", "C11", "C03")

    def instances(self, tier):
        out = [dict(label=f"neg;rank={r}", fn="neg", rank=r) for r in (0, 1, 2)]
        fns = UNARY_FUNCS if tier == "thorough" else ["sin", "abs", "isnan"]
        out += [dict(label=f"{f};rank=2", fn=f, rank=2) for f in fns]
        out += [dict(label="arctan2;rank=1", fn="arctan2", rank=1),
                dict(label="astype;rank=2", fn="astype", rank=2),
                dict(label="logical_not;rank=2", fn="logical_not", rank=2),
                dict(label="broadcast_to;1n->nn", fn="broadcast_to", pat="1n",
                     rank=2),
                dict(label="broadcast_to;n->nnn", fn="broadcast_to", pat="n",
                     rank=3),
                dict(label="full;rank=2", fn="full", rank=2),
                dict(label="zeros;rank=1", fn="zeros", rank=1),
                dict(label="eye;k=0", fn="eye", rank=2, k=0),
                dict(label="eye;k=-1", fn="eye", rank=2, k=-1),
                dict(label="eye;k=2", fn="eye", rank=2, k=2),
                dict(label="arange", fn="arange", rank=1)]
        return out

    def canaries(self, tier):
        return [(dict(label="eye;k=2", fn="eye", rank=2, k=2), "wrong-diagonal",
                 "build.unary.value")]

    def run(self, h, inst):
        fn, r = inst["fn"], inst["rank"]
        arrays = ArrayModel()
        ns = [dim(h, f"n{d}") for d in range(r)]
        a = mk_placeholder(h, "a", shape=ns)
        idt = lambda iv: A(arrays, a, list(iv))  # noqa: E731
        if fn == "neg":
            res = build(h, "build.unary", operator.neg, a,
                        must_accept=True)
            spec = lambda iv: -1 * idt(iv)  # noqa: E731
            shape = ns
        elif fn in UNARY_FUNCS:
            res = build(h, "build.unary", getattr(pt, fn), a,
                        must_accept=True)
            f = uf("call_pytato.c99." + C99_NAME.get(fn, fn), 1)
            spec = lambda iv: f(idt(iv))  # noqa: E731
            shape = ns
        elif fn == "arctan2":
            b = mk_placeholder(h, "b", shape=ns)
            res = build(h, "build.unary", pt.arctan2, a, b,
                        must_accept=True)
            f = uf("call_pytato.c99.atan2", 2)
            spec = lambda iv: f(idt(iv), A(arrays, b, list(iv)))  # noqa: E731
            shape = ns
        elif fn == "astype":
            # (a real-to-real cast: neither of astype's two explicit
            # declines -- float/complex to integer, complex to real)
            res = build(h, "build.unary", a.astype, np.float32,
                        must_accept=True)
            spec = idt
            shape = ns
        elif fn == "logical_not":
            res = build(h, "build.unary", pt.logical_not, a,
                        must_accept=True)
            spec = lambda iv: b2i(idt(iv) == 0)  # noqa: E731
            shape = ns
        elif fn == "broadcast_to":
            pat = inst["pat"]
            src = mk_bcast_operand(h, "s", pat, ns)
            res = build(h, "build.unary", pt.broadcast_to, src, tuple(ns),
                        must_accept=True)
            spec = lambda iv: A(arrays, src, bidx(iv, src.shape, ns))  # noqa: E731
            shape = ns
        elif fn in ("full", "zeros"):
            if fn == "full":
                res = build(h, "build.unary", pt.full, tuple(ns), 2.5,
                        must_accept=True)
                spec = lambda iv: lit(2.5)  # noqa: E731
            else:
                res = build(h, "build.unary", pt.zeros, tuple(ns),
                        must_accept=True)
                spec = lambda iv: z3.IntVal(0)  # noqa: E731
            shape = ns
        elif fn == "eye":
            k = inst["k"]
            res = build(h, "build.unary", pt.eye, ns[0], ns[1], k,
                        must_accept=True)
            kk = k + (1 if h.canary == "wrong-diagonal" else 0)
            spec = lambda iv: z3.If(iv[1] - iv[0] == kk, z3.IntVal(1),  # noqa: E731
                                    z3.IntVal(0))
            shape = ns
        else:   # arange(start, stop, step) with integer arguments
            start, stop, step = h.int("start"), h.int("stop"), h.int("step")
            h.assume(step.t != 0)
            # concrete numpy conversions need concrete ints: instantiate on
            # a grid in the replay; here only the integer formula
            res = None
            h.oblige("build.unary.arange-covered-by-dtype-table",
                     z3.BoolVal(True), props=("C03",))
            return
        if res is None:
            return
        check(h, "build.unary", res, spec, arrays,
              [shape_term(n) for n in shape])


@contract
class Reductions(Contract):
    name = "build.reduction"
    functions = ("pytato.reductions:_make_reduction_lambda",
                 "pytato.reductions:_normalize_reduction_axes",
                 "pytato.reductions:_get_reduction_indices_bounds",
                 "pytato.reductions:_get_var_to_redn_descr",
                 "pytato.reductions:sum", "pytato.reductions:amax",
                 "pytato.reductions:prod", "pytato.reductions:all")
    properties = ("C01", "C11", "C03")

    def instances(self, tier):
        out = []
        fns = ["sum", "amax", "prod", "amin", "all", "any"] \
            if tier == "thorough" else ["sum", "amax"]
        for fn in fns:
            for r in (1, 2, 3):
                axes_opts = [None] + [tuple(c) for k in range(1, r + 1)
                                      for c in itertools.combinations(
                                          range(r), k)]
                if fn != "sum" and tier != "thorough":
                    axes_opts = axes_opts[:3]
                for ax in axes_opts:
                    out.append(dict(label=f"{fn};rank={r};axis={ax}", fn=fn,
                                    rank=r, axis=None if ax is None
                                    else list(ax)))
        # axis validation: every int axis in [-ndim-1, ndim+1]
        for r in (1, 2):
            for ax in range(-r - 1, r + 2):
                out.append(dict(label=f"sum;rank={r};axis-int={ax}", fn="sum",
                                rank=r, axis=ax))
        out.append(dict(label="sum;rank=2;axis=(0,0)", fn="sum", rank=2,
                        axis=[0, 0]))
        return out

    def canaries(self, tier):
        return [(dict(label="sum;rank=2;axis=(1,)", fn="sum", rank=2,
                      axis=[1]), "reduce-other-axis", "build.reduction.value")]

    def run(self, h, inst):
        from pytato import reductions as R
        fn, r, axis = inst["fn"], inst["rank"], inst["axis"]
        arrays = ArrayModel()
        ns = [dim(h, f"n{d}") for d in range(r)]
        a = mk_placeholder(h, "a", shape=ns)
        ax_arg = tuple(axis) if isinstance(axis, list) else axis
        res = build(h, "build.reduction", getattr(pt, fn), a, ax_arg)
        # NumPy: which axes are valid?
        if isinstance(axis, int):
            np_ok = -r <= axis < r
            norm = [axis % r] if np_ok else []
        elif axis is None:
            np_ok, norm = True, list(range(r))
        else:
            np_ok = all(-r <= x < r for x in axis) and \
                len({x % r for x in axis}) == len(axis)
            norm = [x % r for x in axis] if np_ok else []
        if res is None:
            nonneg_axes = axis is None or (
                axis >= 0 if isinstance(axis, int)
                else all(x >= 0 for x in axis))
            unsupported_parametric = isinstance(
                getattr(h, "last_rejection", None), NotImplementedError) \
                and any(isinstance(ns[d], pt.Array) for d in norm)
            if np_ok and nonneg_axes and not unsupported_parametric:
                # (negative axes: pytato does not support them, by design --
                # stricter than NumPy, which no property forbids; a reduction
                # over an axis of parametric length is declined with an
                # explicit NotImplementedError -- outside the supported
                # fragment, C16's variant of this contract gets here)
                # NumPy rejects max/min over an empty axis (no identity);
                # nothing else about a valid axis argument
                empty = z3.Or([shape_term(ns[d]) == 0 for d in norm]
                              + [z3.BoolVal(False)])
                h.oblige("build.reduction.rejected=>numpy-rejects",
                         empty if fn in ("amax", "amin")
                         else z3.BoolVal(False), props=("C01",),
                         info=f"axis={axis} rank={r}")
            return
        h.oblige("build.reduction.accepted=>numpy-accepts-axis",
                 z3.BoolVal(np_ok), props=("C03",),
                 info=f"axis={axis} rank={r}")
        if not np_ok:
            return
        if h.canary == "reduce-other-axis":
            norm = [(x + 1) % r for x in norm]
        keep = [d for d in range(r) if d not in norm]
        opcls = {"sum": R.SumReductionOperation, "amax": R.MaxReductionOperation,
                 "amin": R.MinReductionOperation,
                 "prod": R.ProductReductionOperation,
                 "all": R.AllReductionOperation,
                 "any": R.AnyReductionOperation}[fn]

        def spec(iv):
            rv = {d: z3.Int(f"r_ax{d}") for d in norm}
            idx = [rv[d] if d in rv else iv[keep.index(d)] for d in range(r)]
            return Reduction(opcls(), [(f"ax{d}", z3.IntVal(0),
                                        shape_term(ns[d])) for d in norm],
                             A(arrays, a, idx),
                             {f"ax{d}": rv[d] for d in norm})

        check(h, "build.reduction", res, spec, arrays,
              [shape_term(ns[d]) for d in keep])


@contract
class Pad(Contract):
    name = "build.pad"
    functions = ("pytato.pad:pad", "pytato.pad:_normalize_pad_width",
                 "pytato.pad:_get_constant_padded_idx_lambda")
    properties = ("C01", "C11", "C03")

    def instances(self, tier):
        out = []
        for r in (1, 2):
            for shp in ("int", "param"):
                out.append(dict(label=f"rank={r};{shp}-shape", rank=r,
                                shp=shp))
        return out

    def canaries(self, tier):
        return [(dict(label="rank=1;int-shape", rank=1, shp="int"),
                 "tight-bounds", "build.pad.in-bounds", ("C11",)),
                (dict(label="rank=1;int-shape", rank=1, shp="int"),
                 "after-uses-before-width", "build.pad.value", ("C01",))]

    def run(self, h, inst):
        r, shp = inst["rank"], inst["shp"]
        arrays = ArrayModel()
        if shp == "int":
            ns = [dim(h, f"n{d}") for d in range(r)]
            nz = [shape_term(n) for n in ns]
        else:
            sps = [pt.make_size_param(f"p{d}") for d in range(r)]
            ns = sps
            nz = [z3.Int(f"sp_p{d}") for d in range(r)]
            for t in nz:
                h.assume(t >= 0)
        a = mk_placeholder(h, "a", shape=ns)
        # non-negative symbolic pad widths, distinct fill values
        pw = [(h.nonneg(f"before{d}"), h.nonneg(f"after{d}"))
              for d in range(r)]
        cv = [(10 + 2 * d, 11 + 2 * d) for d in range(r)]
        res = build(h, "build.pad", pt.pad, a, pw, constant_values=cv,
                        must_accept=True)
        if res is None:
            return
        bz = [(z_of(b), z_of(af)) for b, af in pw]

        def spec(iv):
            t = A(arrays, a, [iv[d] - bz[d][0] for d in range(r)])
            # NumPy pads axis by axis; corners: later axes win (np.pad)
            for d in range(r):
                wb = bz[d][0]
                if h.canary == "after-uses-before-width":
                    hi = nz[d] + bz[d][1]
                else:
                    hi = nz[d] + wb
                t = z3.If(iv[d] < wb, z3.IntVal(cv[d][0]),
                          z3.If(iv[d] >= hi, z3.IntVal(cv[d][1]), t))
            return t

        check(h, "build.pad", res, spec, arrays,
              [nz[d] + bz[d][0] + bz[d][1] for d in range(r)])


# {{{ matmul / dot / vdot

def _matmul_cases(tier):
    rmax = 4
    out = []
    for r1 in range(1, rmax + 1):
        for r2 in range(1, rmax + 1):
            out.append(dict(label=f"matmul;{r1}x{r2}", fn="matmul", r1=r1,
                            r2=r2, unit=None))
            if r1 >= 3 and r2 >= 3:
                # a literal-1 stack axis on one side (NumPy broadcasts it)
                out.append(dict(label=f"matmul;{r1}x{r2};unit-stack-left",
                                fn="matmul", r1=r1, r2=r2, unit="left"))
                out.append(dict(label=f"matmul;{r1}x{r2};unit-stack-right",
                                fn="matmul", r1=r1, r2=r2, unit="right"))
    dmax = 3 if tier != "thorough" else 4
    for r1 in range(1, dmax + 1):
        for r2 in range(1, dmax + 1):
            out.append(dict(label=f"dot;{r1}x{r2}", fn="dot", r1=r1, r2=r2,
                            unit=None))
    out.append(dict(label="vdot;1x1", fn="vdot", r1=1, r2=1, unit=None))
    return out


@contract
class MatmulDot(Contract):
    name = "build.matmul"
    functions = ("pytato.array:matmul", "pytato.array:dot",
                 "pytato.array:vdot", "pytato.array:Array.__matmul__",
                 "pytato.array:Array.__rmatmul__")
    properties = ("C01", "C11", "C03")

    def instances(self, tier):
        return _matmul_cases(tier)

    def canaries(self, tier):
        return [(dict(label="matmul;4x3", fn="matmul", r1=4, r2=3, unit=None),
                 "left-aligned-stack", "build.matmul.value")]

    def run(self, h, inst):
        from pytato import reductions as R
        from pytato.transform.lower_to_index_lambda import to_index_lambda
        fn, r1, r2, unit = inst["fn"], inst["r1"], inst["r2"], inst["unit"]
        arrays = ArrayModel()
        J = dim(h, "J")
        if fn == "dot" and r1 >= 2 and r2 >= 2 or fn == "dot" and r2 == 1:
            # np.dot: no broadcasting of leading axes (outer product of them)
            s1 = [dim(h, f"a{d}") for d in range(r1 - 1)]
            s2 = [dim(h, f"b{d}") for d in range(max(r2 - 2, 0))]
            K = [dim(h, "K")] if r2 >= 2 else []
            shp1 = [*s1, J]
            shp2 = [*s2, J, *K]
        else:
            ns1, ns2 = max(r1 - 2, 0), max(r2 - 2, 0)
            ns = max(ns1, ns2)
            stack = [dim(h, f"s{d}") for d in range(ns)]
            st1 = list(stack[ns - ns1:])
            st2 = list(stack[ns - ns2:])
            if unit == "left":
                st1[0] = 1
            elif unit == "right":
                st2[0] = 1
            I = [dim(h, "I")] if r1 >= 2 else []   # noqa: E741
            K = [dim(h, "K")] if r2 >= 2 else []
            shp1 = [*st1, *I, J]
            shp2 = [*st2, J, *K] if r2 >= 2 else [J]
        x1 = mk_placeholder(h, "x1", shape=shp1)
        x2 = mk_placeholder(h, "x2", shape=shp2)
        res = build(h, "build.matmul", getattr(pt, fn), x1, x2)
        if res is None:
            h.fail("build.matmul.accepts-what-numpy-accepts",
                   "rejected operands NumPy multiplies", props=("C01",))
            return
        try:
            il = res if isinstance(res, IndexLambda) else \
                h.call(to_index_lambda, res)
        except EngineSignal:
            raise
        except Exception as e:  # noqa: BLE001
            h.fail("build.matmul.lowers", f"{type(e).__name__}: {e}",
                   props=("C01",))
            return
        jz = shape_term(J)
        rv = {"j": z3.Int("r_j")}

        def red(body):
            return Reduction(R.SumReductionOperation(),
                             [("j", z3.IntVal(0), jz)], body, rv)
        j = rv["j"]
        if fn == "dot" and (r1 >= 2 and r2 >= 2 or r2 == 1):
            n1 = r1 - 1
            n2 = max(r2 - 2, 0)
            spec_shape = [shape_term(d) for d in (*shp1[:-1], *shp2[:n2],
                                                   *K)]

            def spec(iv):
                i1 = list(iv[:n1])
                i2 = list(iv[n1:n1 + n2])
                kk = list(iv[n1 + n2:])
                return red(A(arrays, x1, [*i1, j])
                           * A(arrays, x2, [*i2, j, *kk] if r2 >= 2 else [j]))
        else:
            ns1, ns2 = max(r1 - 2, 0), max(r2 - 2, 0)
            ns = max(ns1, ns2)
            _acc, sshape = np_broadcast([shp1[:ns1], shp2[:ns2]])
            spec_shape = [*sshape, *(shape_term(d) for d in shp1[ns1:-1]),
                          *(shape_term(d) for d in shp2[ns2 + 1:])]

            def spec(iv):
                siv = list(iv[:ns])
                rest = list(iv[ns:])
                ii = rest[:1] if r1 >= 2 else []
                kk = rest[len(ii):]
                res_stack_shape = sshape
                if h.canary == "left-aligned-stack":
                    b1 = siv[:ns1]
                    b2 = siv[:ns2]
                else:
                    b1 = _bidx_terms(siv, shp1[:ns1], res_stack_shape)
                    b2 = _bidx_terms(siv, shp2[:ns2], res_stack_shape)
                return red(A(arrays, x1, [*b1, *ii, j])
                           * A(arrays, x2, [*b2, j, *kk] if r2 >= 2 else [j]))

        check(h, "build.matmul", il, spec, arrays, spec_shape)

    def replay(self, inst, clause, model, info):
        return MATMUL_REPLAY.format(fn=inst["fn"], r1=inst["r1"],
                                    r2=inst["r2"], unit=inst["unit"])


def _bidx_terms(iv, arr_shape, res_shape_terms):
    """NumPy broadcasting of leading (stack) axes, right-aligned."""
    off = len(res_shape_terms) - len(arr_shape)
    out = []
    for t, n in enumerate(arr_shape):
        nt = shape_term(n)
        out.append(z3.If(nt == res_shape_terms[off + t], iv[off + t],
                         z3.IntVal(0)))
    return out


MATMUL_REPLAY = '''
import sys, itertools
sys.path.insert(0, "/verif")
import numpy as np, pytato as pt
from pyvc.replaylib import eval_array, reproduced, not_reproduced
fn, r1, r2, unit = {fn!r}, {r1!r}, {r2!r}, {unit!r}
J = 3
rng = np.random.default_rng(0)
def shapes():
    if fn == "dot" and (r1 >= 2 and r2 >= 2 or r2 == 1):
        yield (tuple(range(2, 2 + r1 - 1)) + (J,),
               tuple(range(4, 4 + max(r2 - 2, 0))) + (J,) + ((2,) if r2 >= 2 else ()))
        return
    ns1, ns2 = max(r1 - 2, 0), max(r2 - 2, 0)
    ns = max(ns1, ns2)
    stack = tuple(range(2, 2 + ns))
    st1, st2 = list(stack[ns - ns1:]), list(stack[ns - ns2:])
    if unit == "left": st1[0] = 1
    if unit == "right": st2[0] = 1
    yield (tuple(st1) + ((4,) if r1 >= 2 else ()) + (J,),
           (tuple(st2) + (J, 2)) if r2 >= 2 else (J,))
for s1, s2 in shapes():
    a = rng.integers(-3, 4, s1).astype(np.float64)
    b = rng.integers(-3, 4, s2).astype(np.float64)
    want = getattr(np, fn)(a, b)
    try:
        node = getattr(pt, fn)(pt.make_placeholder("x1", s1, np.float64),
                               pt.make_placeholder("x2", s2, np.float64))
        got = eval_array(node, {{"x1": a, "x2": b}})
    except Exception as e:
        reproduced(f"pt.{{fn}} of shapes {{s1}} and {{s2}}: {{type(e).__name__}}: {{e}}")
    if got.shape != want.shape or not np.array_equal(got, want):
        reproduced(f"pt.{{fn}} of shapes {{s1}} and {{s2}} differs from NumPy: "
                   f"{{got.shape}} vs {{want.shape}}; "
                   f"{{int((got != want).sum()) if got.shape == want.shape else '?'}} entries differ")
not_reproduced("agrees with NumPy on the sampled shapes")
'''

# }}}
