"""C04 -- equality and hashing are a sound structural congruence.

Per node kind K: two symbolic K-instances whose every field holds an opaque
value (``==`` on a field is a z3 atom; ``rec`` on children is the
uninterpreted relation R).  Proved for all field values:

* eq.field-covered[K.f]   map_K returns True  =>  field f is related
* eq.complete[K]          map_K returns False =>  some field is unrelated
                          (and no exception, e.g. from zip(strict=True))
* hash.only-eq-fields[K]  the generated hash is a function of fields the
                          equality relates, nothing else (no id(), no cache)
* getstate.fields-only[K] pickling state = the dataclass fields (the cached
                          hash never survives a pickle round trip)
* rec.*                   dispatcher: identity => True, class mismatch =>
                          False, memo table keyed by the pair of identities

The field list comes from ``dataclasses.fields`` of the running classes.
"""
from __future__ import annotations

import dataclasses

import z3

from pytato.array import DataWrapper, DictOfNamedArrays
from pytato.equality import EqualityComparer

from pyvc.core import Contract, contract
from pyvc.graphmodel import (CHILDMAP, CHILDMAP_S, R, SymVal, _OpaqueMixin,
                             build, classify, congruence_assumptions,
                             field_relations, mk_opaque_array, node_classes)
from pyvc.sym import (EngineFault, EngineSignal, OutsideSubset, SymBool, mk_bool,
                      z_of)

IDENTITY_COMPARED = {"DataWrapper"}     # documented design (array.py)


def struct_cfgs(tier):
    """(label, cfg1, cfg2): structural variants of the two instances."""
    base = dict(n_children=2, shape=["int", "arr"],
                indices=["int", "slice", "arr"], keys=["_in0", "x"])
    out = [("same", base, base),
           ("empty", dict(n_children=0, shape=[], indices=[], keys=[],
                          scalar_key=False),
            dict(n_children=0, shape=[], indices=[], keys=[],
                 scalar_key=False)),
           ("len-differs", base,
            dict(n_children=3, shape=["int", "arr", "int"],
                 indices=["int", "slice", "arr", "int"],
                 keys=["_in0", "x"])),
           ("keys-differ", base,
            dict(n_children=2, shape=["int", "arr"],
                 indices=["int", "slice", "arr"], keys=["_in0", "y"])),
           # same keys, inserted in another order: mappings are compared by
           # key, not by position
           ("keys-permuted", base,
            dict(n_children=2, shape=["int", "arr"],
                 indices=["int", "slice", "arr"], keys=["x", "_in0"])),
           ("kinds-differ", base,
            dict(n_children=2, shape=["arr", "int"],
                 indices=["arr", "slice", "int"], keys=["_in0", "x"]))]
    if tier == "thorough":
        out.append(("one", dict(base, n_children=1, shape=["arr"],
                                indices=["none", "arr"], keys=["x"]),
                    dict(base, n_children=1, shape=["arr"],
                         indices=["none", "arr"], keys=["x"])))
    return out


def install_rec(h):
    def rec_stub(interp, fn, args, kwargs):
        _self, x, y = args
        if x is y:
            return True
        if x.__class__ is not y.__class__:
            return False
        if isinstance(x, _OpaqueMixin) and isinstance(y, _OpaqueMixin):
            return mk_bool(R(x._u, y._u))
        if isinstance(x, _OpaqueMixin) or isinstance(y, _OpaqueMixin):
            return False        # an opaque child vs. a concrete node
        # real nodes: the real dispatcher (its own contract: equality.rec)
        return interp.call_repo_function(fn, args, kwargs)
    h.interp.contracts[EqualityComparer.rec] = rec_stub


def validity_assumptions(K, b1, b2, inst):
    """Data-structure invariants of valid nodes that relate fields which the
    opaque model keeps independent."""
    cs = []
    if K == "Einsum":
        # one access descriptor per argument: different argument counts =>
        # different descriptor tuples
        if len(b1.fields["args"][1]) != len(b2.fields["args"][1]):
            cs.append(b1.fields["access_descriptors"][1].u
                      != b2.fields["access_descriptors"][1].u)
    return cs


def class_by_name(name):
    for c in node_classes():
        if c.__name__ == name:
            return c
    from pytato.function import FunctionDefinition
    if name == "FunctionDefinition":
        return FunctionDefinition
    raise KeyError(name)


def eq_classes():
    from pytato.function import FunctionDefinition
    return [*node_classes(), FunctionDefinition]


@contract
class EqualityFields(Contract):
    name = "equality.map"
    properties = ("C04", "C13")
    functions = tuple(
        f"pytato.equality:EqualityComparer.{c._mapper_method}"
        for c in eq_classes() if hasattr(c, "_mapper_method")) + (
        "pytato.equality:EqualityComparer._map_index_base",
        "pytato.equality:EqualityComparer.map_function_definition")

    def instances(self, tier):
        out = []
        for c in eq_classes():
            for lab, c1, c2 in struct_cfgs(tier):
                out.append(dict(label=f"{c.__name__};{lab}", cls=c.__name__,
                                cfg1=c1, cfg2=c2))
        return out

    def canaries(self, tier):
        base = struct_cfgs(tier)[0]
        return [(dict(label="Roll;same", cls="Roll", cfg1=base[1],
                      cfg2=base[2]), "phantom-field",
                 "eq.field-covered[Roll.phantom]")]

    def run(self, h, inst):
        cls = class_by_name(inst["cls"])
        b1 = build(cls, "e1", "sym", inst["cfg1"])
        b2 = build(cls, "e2", "sym", inst["cfg2"])
        for c in congruence_assumptions(b1, b2):
            h.assume(c)
        for c in validity_assumptions(inst["cls"], b1, b2, inst):
            h.assume(c)
        install_rec(h)
        comparer = EqualityComparer()
        mname = "map_function_definition" if inst["cls"] == \
            "FunctionDefinition" else cls._mapper_method
        method = getattr(comparer, mname, None)
        K = inst["cls"]
        if method is None:
            h.fail(f"eq.has-method[{K}]", f"EqualityComparer lacks {mname}",
                   props=("C04",))
            return
        import pyvc.graphmodel as gmod
        del gmod.EQ_LOG[:]
        try:
            res = h.call(method, b1.obj, b2.obj)
            truth = bool(res)
        except EngineSignal:
            raise
        except Exception as e:  # noqa: BLE001
            h.fail(f"eq.no-exception[{K}]", f"{type(e).__name__}: {e}",
                   props=("C04",))
            return
        # C13: children are compared through the memoised rec(), never by a
        # direct == (which starts a fresh, unmemoised comparer per edge).
        # Shape components are exempt: scalar size expressions, compared
        # structurally with == (map_placeholder & co.).
        direct = [(a, b_) for a, b_ in gmod.EQ_LOG
                  if ".shape[" not in a._label and ".newshape[" not in a._label]
        h.oblige(f"eq.children-through-memoised-rec[{K}]",
                 z3.BoolVal(not direct), props=("C13",),
                 info=[a._label for a, _ in direct][:4])
        rel = field_relations(b1, b2)
        if h.canary == "phantom-field":
            rel["phantom"] = SymVal("p1").u == SymVal("p2").u
        if truth:
            for f, formula in rel.items():
                h.oblige(f"eq.field-covered[{K}.{f}]", formula, props=("C04",))
        elif K not in IDENTITY_COMPARED:
            h.oblige(f"eq.complete[{K}]",
                     z3.Not(z3.And(list(rel.values()))), props=("C04",))
        else:
            # identity-compared by documented design: distinct objects are
            # unequal, the object itself is equal
            r2 = h.call(method, b1.obj, b1.obj)
            h.oblige(f"eq.identity-compared-reflexive[{K}]",
                     z3.BoolVal(r2 is True), props=("C04",))

    def replay(self, inst, clause, model, info):
        import re
        m = re.match(r"eq\.field-covered\[(\w+)\.([\w.]+)\]", clause)
        if not m:
            return None
        return EQ_REPLAY.format(cls=m.group(1), field=m.group(2))


EQ_REPLAY = '''
import sys
sys.path.insert(0, "/verif")
from pyvc.replay_nodes import sample_node, variants
from pyvc.replaylib import reproduced, not_reproduced
cls, field = {cls!r}, {field!r}
found = []
for base in sample_node(cls):
    for other in variants(base, field):
        if base == other:
            found.append((base, other, hash(base) == hash(other)))
if found:
    b, o, h = found[0]
    reproduced(f"two {{cls}} nodes differing only in '{{field}}' compare equal "
               f"(hashes equal: {{h}}):\\n  {{b!r}}\\n  {{o!r}}")
not_reproduced("no pair differing only in that field compares equal")
'''


@contract
class EqualityRec(Contract):
    name = "equality.rec"
    functions = ("pytato.equality:EqualityComparer.rec",
                 "pytato.equality:EqualityComparer.__call__",
                 "pytato.array:Array.__eq__", "pytato.array:Array.__ne__")
    properties = ("C04", "C13")

    def instances(self, tier):
        return [dict(label=k, case=k) for k in
                ("identical", "class-mismatch", "miss-then-hit",
                 "same-left-other-right", "ne", "function-definition",
                 "dict-of-named-arrays")]

    def run(self, h, inst):
        from pytato.array import Placeholder, Roll
        case = inst["case"]
        a = build(Roll, "e1", "concrete").obj
        b = build(Roll, "e2", "concrete").obj
        calls = []
        verdict = h.ctx.fresh_bool("method_result")

        verdicts = {}

        def map_roll_stub(interp, fn, args, kwargs):
            calls.append(args[1:])
            if case == "same-left-other-right":
                k = (id(args[1]), id(args[2]))
                if k not in verdicts:
                    verdicts[k] = h.ctx.fresh_bool(f"verdict{len(verdicts)}")
                return verdicts[k]
            return verdict
        h.interp.contracts[EqualityComparer.map_roll] = map_roll_stub
        cmp_ = EqualityComparer()
        if case in ("function-definition", "dict-of-named-arrays"):
            # the two non-Array kinds rec() dispatches on: independently
            # built, equal-by-construction objects reach their map_ method
            # (once per pair) and rec returns its verdict
            from constantdict import constantdict

            import pytato as pt
            from pytato.function import FunctionDefinition, ReturnType

            def mk():
                x = pt.make_placeholder("x", (3,), "float64")
                if case == "dict-of-named-arrays":
                    return pt.make_dict_of_named_arrays({"o": x + 1})
                return FunctionDefinition(
                    parameters=frozenset({"x"}),
                    return_type=ReturnType.ARRAY,
                    returns=constantdict({"_": x + 1}), tags=frozenset())
            f1, f2 = mk(), mk()
            target = (EqualityComparer.map_function_definition
                      if case == "function-definition"
                      else EqualityComparer.map_dict_of_named_arrays)
            fcalls = []

            def stub(interp, fn, args, kwargs):
                fcalls.append(args[1:])
                return verdict
            h.interp.contracts[target] = stub
            try:
                r1 = h.call(cmp_.rec, f1, f2)
                r2 = h.call(cmp_.rec, f1, f2)
                r3 = h.call(type(f1).__eq__, f1, f2)
            except EngineSignal:
                raise
            except Exception as e:  # noqa: BLE001
                h.fail("rec.no-exception", f"{case}: {type(e).__name__}: {e}")
                return
            h.oblige("rec.method-called-once-per-pair",
                     z3.BoolVal(len(fcalls) == 2 and all(
                         c[0] is f1 and c[1] is f2 for c in fcalls)),
                     info=f"{len(fcalls)} calls (two comparers)")
            h.oblige("rec.returns-method-result",
                     z3.And(_zb(r1) == verdict.t, _zb(r2) == verdict.t,
                            _zb(r3) == verdict.t))
            r4 = h.call(cmp_.rec, f1, a)
            h.oblige("rec.class-mismatch-false", z3.BoolVal(r4 is False))
            return
        if case == "identical":
            r = h.call(cmp_.rec, a, a)
            h.oblige("rec.reflexive-on-identity", z3.BoolVal(r is True))
            h.oblige("rec.identity-no-method-call", z3.BoolVal(not calls))
        elif case == "class-mismatch":
            p = build(Placeholder, "p", "concrete", dict(shape=["int"])).obj
            r = h.call(cmp_.rec, a, p)
            h.oblige("rec.class-mismatch-false", z3.BoolVal(r is False))
            r2 = h.call(cmp_.rec, a, 5)
            h.oblige("rec.foreign-false", z3.BoolVal(r2 is False))
        elif case == "miss-then-hit":
            r1 = h.call(cmp_.rec, a, b)
            r2 = h.call(cmp_.rec, a, b)
            h.oblige("rec.method-called-once-per-pair",
                     z3.BoolVal(len(calls) == 1 and calls[0][0] is a
                                and calls[0][1] is b))
            h.oblige("rec.returns-method-result",
                     z3.And(_zb(r1) == verdict.t, _zb(r2) == verdict.t))
            # the memo is keyed by the *pair*: the swapped pair is a miss
            h.call(cmp_.rec, b, a)
            h.oblige("rec.memo-keyed-by-ordered-pair",
                     z3.BoolVal(len(calls) == 2 and calls[1][0] is b))
        elif case == "same-left-other-right":
            # one node compared with two different nodes: two entries
            c = build(Roll, "e3", "concrete").obj
            r1 = h.call(cmp_.rec, a, b)
            r2 = h.call(cmp_.rec, a, c)
            r3 = h.call(cmp_.rec, c, b)
            h.oblige("rec.memo-distinguishes-right-operands",
                     z3.BoolVal(len(calls) == 3))
            for r, (x, y) in ((r1, (a, b)), (r2, (a, c)), (r3, (c, b))):
                v = verdicts.get((id(x), id(y)))
                h.oblige("rec.verdict-is-that-of-the-pair",
                         z3.BoolVal(v is not None) if v is None
                         else _zb(r) == v.t)
        else:
            r = h.call(Array_ne(), a, b)
            r0 = h.call(Array_eq(), a, b)
            h.oblige("ne.is-negation-of-eq", _zb(r) == z3.Not(_zb(r0)))

    def replay(self, inst, clause, model, info):
        if inst["case"] in ("function-definition", "dict-of-named-arrays"):
            return REC_REPLAY.format(case=inst["case"])
        return None


REC_REPLAY = '''
import sys
sys.path.insert(0, "/verif")
import pytato as pt
from constantdict import constantdict
from pytato.function import FunctionDefinition, ReturnType
from pyvc.replaylib import reproduced, not_reproduced
case = {case!r}
def mk():
    x = pt.make_placeholder("x", (3,), "float64")
    if case == "dict-of-named-arrays":
        return pt.make_dict_of_named_arrays({{"o": x + 1}})
    return FunctionDefinition(parameters=frozenset({{"x"}}),
                              return_type=ReturnType.ARRAY,
                              returns=constantdict({{"_": x + 1}}),
                              tags=frozenset())
f1, f2 = mk(), mk()
try:
    r = (f1 == f2)
except Exception as e:
    reproduced(f"comparing two independently built, equal {{type(f1).__name__}} "
               f"objects raises {{type(e).__name__}}: {{e}}")
if r is not True:
    reproduced(f"two independently built, equal {{type(f1).__name__}} objects "
               f"compare {{r!r}}")
not_reproduced("the independently built objects compare equal")
'''


def Array_ne():
    from pytato.array import Array
    return Array.__ne__


def Array_eq():
    from pytato.array import Array
    return Array.__eq__


def _zb(v):
    from pyvc.sym import zb_of
    z = zb_of(v)
    if z is None:
        raise EngineFault(f"not a bool: {v!r}")
    return z


@contract
class HashFields(Contract):
    name = "hash.generated"
    functions = ("pytato.array:_augment_array_dataclass.<generated>_hash",
                 "pytato.array:_augment_array_dataclass._dataclass_getstate",
                 "pytato.array:DictOfNamedArrays.__hash__",
                 "pytato.array:DataWrapper.__hash__",
                 "pytato.loopy:LoopyCall.__hash__")
    properties = ("C04",)

    def instances(self, tier):
        from pytato.array import CSRMatrix
        from pytato.distributed.nodes import DistributedSend
        out = [dict(label=c.__name__, cls=c.__name__)
               for c in [*eq_classes(), CSRMatrix, DistributedSend]]
        # mappings compare by key, so they must hash by key too: the same
        # entries inserted in another order (equal nodes, "equal expressions
        # hash equally")
        for c in eq_classes():
            if any(classify(c, f) in (CHILDMAP, CHILDMAP_S)
                   for f in dataclasses.fields(c)):
                out.append(dict(label=f"{c.__name__};keys-permuted",
                                cls=c.__name__, permuted=True))
        return out

    def canaries(self, tier):
        return [(dict(label="Roll", cls="Roll"), "forget-axis",
                 "hash.only-eq-fields[Roll]")]

    def run(self, h, inst):
        import builtins
        K = inst["cls"]
        cls = _cls_any(K)
        cfg = dict(n_children=2, shape=["int", "arr"],
                   indices=["int", "arr"], keys=["_in0", "x"])
        b1 = build(cls, "e1", "sym", cfg)
        b2 = build(cls, "e2", "sym", dict(cfg, keys=["x", "_in0"])
                   if inst.get("permuted") else cfg)
        HV = z3.Function("hash_of_value", z3.DeclareSort("U"), z3.IntSort())
        tup = {}

        def sym_hash(interp, args, kwargs):
            (x,) = args
            return _hash_term(x, HV, tup, h)
        h.interp.intercepts[builtins.hash] = sym_hash

        def id_stub(interp, args, kwargs):
            (x,) = args
            from pyvc.sym import mk_int
            return mk_int(z3.Int(f"id_of_{getattr(x, '_label', None) or id(x)}"))
        h.interp.intercepts[builtins.id] = id_stub
        hf = cls.__hash__
        try:
            h1 = h.call(hf, b1.obj)
            h2 = h.call(hf, b2.obj)
        except EngineSignal:
            raise
        except Exception as e:  # noqa: BLE001
            h.fail(f"hash.no-exception[{K}]", f"{type(e).__name__}: {e}")
            return
        rel = field_relations(b1, b2)
        if h.canary == "forget-axis":
            rel.pop("axis", None)
        if K in IDENTITY_COMPARED:
            # identity-compared: equal => identical => equal hash, trivially;
            # check the hash is stable for one object
            h1b = h.call(hf, b1.obj)
            h.oblige(f"hash.stable[{K}]", z_of(h1) == z_of(h1b))
        else:
            # all eq-related fields equal (as values) => hashes equal
            h.oblige(f"hash.only-eq-fields[{K}]",
                     z3.Implies(z3.And(_as_value_eq(b1, b2, rel)),
                                z_of(h1) == z_of(h2)))
        # cached hash is written under _hash_value only and is not pickled
        gs = getattr(cls, "__getstate__", None)
        if gs is not None and getattr(gs, "__name__", "") == \
                "_dataclass_getstate":
            st = h.call(gs, b1.obj)
            names = [f.name for f in dataclasses.fields(cls)]
            ok = len(st) == len(names) and all(
                v is getattr(b1.obj, n) for v, n in zip(st, names, strict=True))
            h.oblige(f"getstate.fields-only[{K}]", z3.BoolVal(ok))
        # whatever hashing cached on the object must not be part of the
        # pickling state (a hash is only valid within one process)
        fieldnames = {f.name for f in dataclasses.fields(cls)}
        try:
            state = b1.obj.__getstate__()
        except EngineSignal:
            raise
        except Exception as e:  # noqa: BLE001
            state = None
            h.fail(f"getstate.no-exception[{K}]", f"{type(e).__name__}: {e}")
        if isinstance(state, dict):
            leaked = sorted(set(state) - fieldnames)
            h.oblige(f"getstate.no-cached-hash[{K}]",
                     z3.BoolVal(not leaked), info=leaked)
        elif isinstance(state, (list, tuple)):
            h.oblige(f"getstate.no-cached-hash[{K}]",
                     z3.BoolVal(len(state) == len(fieldnames)))
        extra = set(vars(b1.obj)) - fieldnames - {"_hash_value"}
        h.oblige(f"hash.caches-only-in-_hash_value[{K}]",
                 z3.BoolVal(not extra), info=sorted(extra))


    def replay(self, inst, clause, model, info):
        if inst.get("permuted") and clause.startswith("hash.only-eq-fields"):
            return HASH_PERMUTED_REPLAY.format(cls=inst["cls"])
        if not clause.startswith("getstate."):
            return None
        return HASH_REPLAY.format(cls=inst["cls"])


HASH_PERMUTED_REPLAY = '''
import sys, dataclasses
from collections.abc import Mapping
sys.path.insert(0, "/verif"); sys.path.append("/verif/.deps")
from pyvc.replay_nodes import sample_node
from pyvc.replaylib import reproduced, not_reproduced
cls = {cls!r}
tried = 0
samples = list(sample_node(cls))
if cls == "LoopyCall":
    import numpy as np, pytato as pt
    from pyvc import mapperlib as ml
    from pytato.loopy import call_loopy
    x = pt.make_placeholder("x", (10,), np.float64)
    samples = [call_loopy(ml.loopy_tunit(), {{"x": x, "y": 3.5}}, "knl")]
for n in samples:
    for f in dataclasses.fields(n):
        v = getattr(n, f.name)
        if not isinstance(v, Mapping) or len(v) < 2:
            continue
        rev = type(v)(list(v.items())[::-1])
        try:
            m = dataclasses.replace(n, **{{f.name: rev}})
        except TypeError:
            m = type(n)(rev, tags=n.tags)       # DictOfNamedArrays(data, tags)
        tried += 1
        if m == n and hash(m) != hash(n):
            reproduced(f"two {{cls}} nodes whose '{{f.name}}' holds the same entries "
                       f"inserted in opposite order ({{list(v)}} / {{list(rev)}}) "
                       f"compare equal but hash differently "
                       f"({{hash(n)}} vs {{hash(m)}})")
not_reproduced(f"equal and equally hashed ({{tried}} permuted rebuilds)")
'''


HASH_REPLAY = '''
import sys, dataclasses, pickle
sys.path.insert(0, "/verif")
from pyvc.replay_nodes import sample_node
from pyvc.replaylib import reproduced, not_reproduced
cls = {cls!r}
for n in sample_node(cls):
    hash(n)
    st = n.__getstate__()
    names = {{f.name for f in dataclasses.fields(n)}}
    if isinstance(st, dict) and set(st) - names:
        reproduced(f"after hash(), the pickling state of a {{cls}} carries "
                   f"{{sorted(set(st) - names)}} (a per-process hash survives "
                   "pickling into another interpreter)")
not_reproduced()
'''


def _cls_any(name):
    from pytato.array import CSRMatrix
    from pytato.distributed.nodes import DistributedSend
    for c in (CSRMatrix, DistributedSend):
        if c.__name__ == name:
            return c
    return class_by_name(name)


def _hash_term(x, HV, tup, h):
    """Hash as an (uninterpreted, content-determined) function of the value."""
    from constantdict import constantdict
    from pyvc.sym import SymInt, mk_int
    if type(x) is SymVal:
        return mk_int(HV(x.u))
    if isinstance(x, _OpaqueMixin):
        return mk_int(HV(x._u))
    if isinstance(x, tuple):
        parts = [z_of(_hash_term(v, HV, tup, h)) for v in x]
        f = z3.Function(f"hash_tuple_{len(parts)}",
                        *([z3.IntSort()] * len(parts)), z3.IntSort())
        return mk_int(f(*parts)) if parts else 17
    if isinstance(x, frozenset):
        parts = sorted((z_of(_hash_term(v, HV, tup, h)) for v in x),
                       key=lambda t: t.sexpr())
        f = z3.Function(f"hash_fset_{len(parts)}",
                        *([z3.IntSort()] * len(parts)), z3.IntSort())
        return mk_int(f(*parts)) if parts else 19
    if isinstance(x, (constantdict, dict)):
        items = tuple(sorted(x.items(), key=lambda kv: str(kv[0])))
        return _hash_term(tuple((k, v) for k, v in items), HV, tup, h)
    if type(x) is SymInt:
        return mk_int(z3.Function("hash_int", z3.IntSort(), z3.IntSort())(x.t))
    if dataclasses.is_dataclass(x) and type(x).__module__.startswith("pytato") \
            and not isinstance(x, type):
        hf = type(x).__hash__
        if getattr(hf, "__name__", "").endswith("_hash") or \
                hf.__qualname__.startswith(type(x).__name__):
            return h.call(hf, x)
        # plain frozen dataclass (NormalizedSlice): hash of its field tuple
        return _hash_term(tuple(getattr(x, f.name)
                                for f in dataclasses.fields(x)), HV, tup, h)
    return hash(x)


def _as_value_eq(b1, b2, rel):
    """Antecedent 'corresponding fields hold equal values'.  For children the
    relation R is taken to imply equal hash (induction hypothesis of the
    congruence lemma): encoded by equating their U constants."""
    cs = []

    def eqv(x, y):
        if isinstance(x, _OpaqueMixin) and isinstance(y, _OpaqueMixin):
            cs.append(x._u == y._u)
        elif type(x) is SymVal and type(y) is SymVal:
            cs.append(x.u == y.u)
        elif hasattr(x, "start") and hasattr(y, "start"):
            for a in ("start", "stop", "step"):
                cs.append(z_of(getattr(x, a)) == z_of(getattr(y, a)))
        elif z_of(x) is not None and z_of(y) is not None:
            cs.append(z_of(x) == z_of(y))

    def walk(B1, B2, only=None):
        for name, (kind, v1) in B1.fields.items():
            v2 = B2.fields[name][1]
            if only is not None and name not in only:
                continue
            if kind == "nested":
                walk(v1, v2)
            elif isinstance(v1, _OpaqueMixin):
                eqv(v1, v2)
            elif isinstance(v1, tuple):
                for x, y in zip(v1, v2, strict=True):
                    eqv(x, y)
            elif hasattr(v1, "items"):
                for k in v1:
                    eqv(v1[k], v2[k])
            else:
                eqv(v1, v2)
    top = {k.split(".")[0] for k in rel}
    walk(b1, b2, only=top)
    return cs
