"""C14 -- the NumPy-like Python target computes what NumPy computes.

The statements ``NumpyCodegenMapper`` emits (``ast`` objects, taken from the
real mapper run on the real source) are *interpreted* under NumPy's semantics,
where the meaning of each ``np.<f>`` is the pytato constructor of the same
operation -- justified by the C01/C02/C03 contracts, which prove that those
constructors denote NumPy's definitions.  The resulting expression E' must
denote the same pointwise function as the program E it was generated from,
for all axis lengths, slice/shift parameters and indices (z3), and

* every ``<array module>.<attr>`` the code refers to exists in the installed
  NumPy (the interface jax.numpy mirrors);
* constructs the target does not support raise NotImplementedError;
* generate_numpy_like / BoundPythonProgram: expected arguments = the user's
  input names + generated names of wrapped data; wrapped data objects are
  pre-bound as they are; re-binding is rejected.
"""
from __future__ import annotations

import ast
import itertools
import operator

import numpy as np
import z3

import pytato as pt
from pytato.array import Array, DictOfNamedArrays, IndexLambda
from pytato.target.python.numpy_like import NumpyCodegenMapper

from pyvc.core import Contract, contract
from pyvc.den import ArrayModel, Den
from pyvc.ptlib import (in_box, mk_placeholder, oblige_equal_den, shape_term,
                        size_param_term)
from pyvc.sym import EngineSignal, OutsideSubset, SymInt

# numpy name -> pytato constructor with NumPy's semantics (C01-C03 contracts)
NP_MODEL = {
    "stack": lambda arrs, axis=0: pt.stack(list(arrs), axis),
    "concatenate": lambda arrs, axis=0: pt.concatenate(list(arrs), axis),
    "roll": lambda a, shift, axis=None: pt.roll(a, shift, axis),
    "transpose": lambda a, axes=None: pt.transpose(a, axes),
    # NumPy: order defaults to "C"
    "reshape": lambda a, shape, order="C": pt.reshape(a, shape, order=order),
    "einsum": lambda spec, *args: pt.einsum(spec, *args),
    "broadcast_to": lambda a, shape: pt.broadcast_to(a, tuple(shape)),
    "where": pt.where,
    "sum": lambda a, axis=None: pt.sum(a, axis),
    "prod": lambda a, axis=None: pt.prod(a, axis),
    "max": lambda a, axis=None: pt.amax(a, axis),
    "min": lambda a, axis=None: pt.amin(a, axis),
    "all": lambda a, axis=None: pt.all(a, axis),
    "any": lambda a, axis=None: pt.any(a, axis),
    "zeros": lambda shape, dtype=float: pt.zeros(tuple(shape), dtype),
    "ones": lambda shape, dtype=float: pt.ones(tuple(shape), dtype),
    "full": lambda shape, fill_value, dtype=None: pt.full(
        tuple(shape), fill_value, dtype),
    "less": pt.less, "greater": pt.greater, "less_equal": pt.less_equal,
    "greater_equal": pt.greater_equal, "equal": pt.equal,
    "not_equal": pt.not_equal, "logical_or": pt.logical_or,
    "logical_and": pt.logical_and, "logical_not": pt.logical_not,
    "maximum": pt.maximum, "minimum": pt.minimum,
}
for _f in ("abs", "sin", "cos", "tan", "arcsin", "arccos", "arctan", "sinh",
           "cosh", "tanh", "exp", "log", "log10", "isnan", "sqrt", "conj",
           "real", "imag", "arctan2"):
    NP_MODEL[_f] = getattr(pt, _f)

_BINOP = {ast.Add: operator.add, ast.Sub: operator.sub, ast.Mult: operator.mul,
          ast.Div: operator.truediv, ast.FloorDiv: operator.floordiv,
          ast.Mod: operator.mod, ast.Pow: operator.pow,
          ast.BitOr: operator.or_, ast.BitXor: operator.xor,
          ast.BitAnd: operator.and_}


class MissingAttr(Exception):
    pass


class EmittedCode:
    """Evaluate the emitted statements under the NumPy model."""

    def __init__(self, backend_name, numpy_name, env):
        self.backend = backend_name
        self.numpy = numpy_name
        self.env = dict(env)
        self.attrs_used: list[str] = []

    def run(self, lines, result_var):
        for st in lines:
            if not isinstance(st, ast.Assign) or len(st.targets) != 1:
                raise OutsideSubset(f"emitted statement {type(st).__name__}")
            self.env[st.targets[0].id] = self.ev(st.value)
        return self.env[result_var]

    def ev(self, e):
        if isinstance(e, ast.Constant):
            return e.value
        if isinstance(e, ast.Name):
            if e.id in (self.backend, self.numpy):
                return ("module", e.id)
            return self.env[e.id]
        if isinstance(e, ast.Attribute):
            v = self.ev(e.value)
            if isinstance(v, tuple) and v and v[0] == "module":
                self.attrs_used.append(e.attr)
                if not hasattr(np, e.attr):
                    raise MissingAttr(e.attr)
                if e.attr in NP_MODEL:
                    return NP_MODEL[e.attr]
                return getattr(np, e.attr)     # dtypes etc.
            if e.attr == "T":
                return v.T
            raise OutsideSubset(f"emitted attribute .{e.attr}")
        if isinstance(e, ast.Call):
            f = self.ev(e.func)
            args = [self.ev(a) for a in e.args]
            kw = {k.arg: self.ev(k.value) for k in e.keywords}
            return f(*args, **kw)
        if isinstance(e, ast.BinOp):
            return _BINOP[type(e.op)](self.ev(e.left), self.ev(e.right))
        if isinstance(e, (ast.List, ast.Tuple)):
            vals = [self.ev(x) for x in e.elts]
            return vals if isinstance(e, ast.List) else tuple(vals)
        if isinstance(e, ast.Dict):
            return {self.ev(k): self.ev(v)
                    for k, v in zip(e.keys, e.values, strict=True)}
        if isinstance(e, ast.Slice):
            return slice(None if e.lower is None else self.ev(e.lower),
                         None if e.upper is None else self.ev(e.upper),
                         None if e.step is None else self.ev(e.step))
        if isinstance(e, ast.Subscript):
            v = self.ev(e.value)
            return v[self.ev(e.slice)]
        raise OutsideSubset(f"emitted expression {type(e).__name__}")


def emit(h, expr):
    """Run the real NumpyCodegenMapper (source interpreted) on *expr*."""
    from pytools import UniqueNameGenerator
    vng = UniqueNameGenerator()
    mapper = NumpyCodegenMapper(numpy="np", numpy_backend="xp", vng=vng)
    res = h.call(mapper, expr)
    return mapper, res


def equal_denotation(h, clause, E, E2, arrays=None):
    from pytato.transform.lower_to_index_lambda import to_index_lambda
    arrays = arrays or ArrayModel()
    s1 = h.interp.getattr(E, "shape")
    s2 = h.interp.getattr(E2, "shape")
    if len(s1) != len(s2):
        h.fail(f"{clause}.shape-rank", f"{s1} vs {s2}")
        return
    for d, (p_, q_) in enumerate(zip(s1, s2, strict=True)):
        h.oblige(f"{clause}.shape[{d}]", shape_term(p_) == shape_term(q_))
    ivars = [z3.Int(f"i{d}") for d in range(len(s1))]
    box = in_box(ivars, s1)
    dens = []
    from pytato.array import InputArgumentBase
    for node in (E, E2):
        if isinstance(node, InputArgumentBase):
            f = arrays.fn_for(node, len(ivars))
            dens.append(f(*ivars) if ivars else f)
            continue
        il = node if isinstance(node, IndexLambda) else to_index_lambda(node)
        D = Den(arrays, il.bindings, lambda a: a.shape,
                size_param=size_param_term, cast_identity=True)
        dens.append(D.top(il.expr, {f"_{d}": v for d, v in enumerate(ivars)}))
    oblige_equal_den(h, f"{clause}.value", box, dens[1], dens[0],
                     props=("C14",))


def programs(tier):
    """label -> builder(h) -> pytato expression over placeholders"""
    P = {}

    def ph(h, name, r, shape=None):
        return mk_placeholder(h, name, r, shape=shape)
    for r in (1, 2, 3):
        for ax in range(r):
            P[f"roll;rank={r};axis={ax}"] = lambda h, r=r, ax=ax: pt.roll(
                ph(h, "a", r), h.int("shift"), ax)
    for r in (0, 1, 2):
        for ax in range(r + 1):
            def mk(h, r=r, ax=ax):
                shp = [h.nonneg(f"n{d}") for d in range(r)]
                return pt.stack([ph(h, "a", r, shp), ph(h, "b", r, shp)], ax)
            P[f"stack;rank={r};axis={ax}"] = mk
    for r in (1, 2):
        for ax in range(r):
            def mk(h, r=r, ax=ax):
                shp = [h.nonneg(f"n{d}") for d in range(r)]
                shp2 = list(shp)
                shp2[ax] = h.nonneg("m")
                return pt.concatenate([ph(h, "a", r, shp),
                                       ph(h, "b", r, shp2)], ax)
            P[f"concatenate;rank={r};axis={ax}"] = mk
    for r in (2, 3):
        for perm in itertools.permutations(range(r)):
            P[f"transpose;{list(perm)}"] = lambda h, r=r, perm=perm: \
                pt.transpose(ph(h, "a", r), perm)
    # reshape / broadcast_to / full need integer shapes in this target
    for old, new in [((2, 3), (3, 2)), ((6,), (2, 3)), ((2, 1, 3), (6,)),
                     ((4,), (2, 2))]:
        for order in ("C", "F"):
            P[f"reshape;{old}->{new};{order}"] = \
                lambda h, old=old, new=new, order=order: \
                pt.reshape(ph(h, "a", len(old), list(old)), new, order=order)
    for ins, o in [(["ij", "j"], "i"), (["ij", "jk"], "ik"), (["ij"], "ji"),
                   (["ii"], "i"), (["i", "j"], "ji"), (["ij", "ij"], ""),
                   (["ij", "jk"], "ki"), (["i", "i", "i"], "i")]:
        def mk(h, ins=ins, o=o):
            n = {c: h.nonneg(f"n_{c}") for c in set("".join(ins))}
            ops = [ph(h, f"a{k}", len(sp), [n[c] for c in sp])
                   for k, sp in enumerate(ins)]
            return pt.einsum(",".join(ins) + "->" + o, *ops)
        P["einsum;" + ",".join(ins) + "->" + o] = mk
    # indexing: every slice pattern / int / index arrays
    from contracts.c02_lowering import SLICE_PATS_ALL, build_index
    kinds1 = ["int", *[f"s{p}" for p in SLICE_PATS_ALL]]
    for k in kinds1:
        def mk(h, k=k):
            from contracts.slices import install_slice_contracts
            a = ph(h, "a", 1)
            idx, _ = build_index(h, [k])
            return a[idx]
        P[f"index;{k}"] = mk
    for combo in [("s111", "int"), ("int", "s111"), ("s011", "s101"),
                  ("s000", "s111"), ("s111", "s000")]:
        def mk(h, combo=combo):
            a = ph(h, "a", 2)
            idx, _ = build_index(h, list(combo))
            return a[idx]
        P["index;" + "/".join(combo)] = mk

    def adv(h):
        a = ph(h, "a", 2)
        i = mk_placeholder(h, "i", shape=[h.nonneg("B")], dtype=np.int64)
        return a[i, 1:]
    P["index;arr/s"] = adv

    def adv2(h):
        a = ph(h, "a", 3)
        B = h.nonneg("B")
        i = mk_placeholder(h, "i", shape=[B], dtype=np.int64)
        j = mk_placeholder(h, "j", shape=[B], dtype=np.int64)
        return a[i, :, j]
    P["index;arr/s/arr"] = adv2
    # every index lambda the API produces (integer shapes where the target
    # needs constants)
    from contracts.c19_raising import producers
    for lab, mkp in producers(tier).items():
        if lab.startswith(("full", "zeros_like", "broadcast_to")):
            continue
        P["lambda;" + lab] = lambda h, mkp=mkp: mkp(h)[0]
    P["lambda;full"] = lambda h: pt.full((3, 4), 2.5)
    P["lambda;zeros"] = lambda h: pt.zeros((3, 4))
    P["lambda;ones;int32"] = lambda h: pt.ones((3,), np.int32)
    P["lambda;broadcast_to"] = lambda h: pt.broadcast_to(
        ph(h, "s", 2, [1, 4]), (3, 4))
    P["lambda;zeros_like"] = lambda h: pt.zeros_like(ph(h, "a", 2, [3, 4]))

    # non-finite scalar constants (each must come out as itself: +inf, -inf
    # and nan are three different values)
    for nm, c in (("inf", np.inf), ("-inf", -np.inf), ("nan", np.nan)):
        P[f"const;{nm};full"] = lambda h, c=c: pt.full((3, 4), c)
        P[f"const;{nm};sub"] = lambda h, c=c: ph(h, "a", 1) - c
        P[f"const;{nm};where"] = lambda h, c=c: pt.where(
            ph(h, "m", 1, [h.nonneg("n0")]), ph(h, "a", 1, [h.nonneg("n0")]), c)
        P[f"const;{nm};less"] = lambda h, c=c: pt.less(ph(h, "a", 1), c)
        P[f"const;{nm};maximum"] = lambda h, c=c: pt.maximum(ph(h, "a", 1), c)

    # reductions that are *not* in the producers' normal form (the target
    # emits np.sum & co. for what the raiser recognises as a plain reduction)
    from contracts.c19_raising import reduce_lambda
    for k in ("lower-nonzero", "upper-partial", "transposed-out",
              "inner-not-subscript", "permuted-out-square",
              "permuted-out-square-concrete", "normal-rank3", "normal"):
        P[f"reduce-lambda;{k}"] = lambda h, k=k: reduce_lambda(h, k)

    def dict_out(h):
        a = ph(h, "a", 1)
        return pt.make_dict_of_named_arrays({"y": a + 1, "x": -a})
    P["dict-of-named-arrays"] = dict_out
    return P


@contract
class EmittedPrograms(Contract):
    name = "numpy.emit"
    functions = ("pytato.target.python.numpy_like:NumpyCodegenMapper.map_*",
                 "pytato.target.python.numpy_like:NumpyCodegenMapper."
                 "_map_index_base",
                 "pytato.target.python.numpy_like:_is_slice_trivial",
                 "pytato.target.python.numpy_like:first_true",
                 "pytato.target.python.numpy_like:_c99_callop_numpy_name",
                 "pytato.utils:get_einsum_specification")
    properties = ("C14",)
    max_paths = 4000

    def instances(self, tier):
        return [dict(label=k, which=k) for k in programs(tier)]

    def canaries(self, tier):
        return [(dict(label="roll;rank=2;axis=1", which="roll;rank=2;axis=1"),
                 "model-rolls-other-way", "numpy.emit.value")]

    def run(self, h, inst):
        from contracts.slices import install_slice_contracts
        install_slice_contracts(h)
        mk = programs("thorough")[inst["which"]]
        try:
            E = mk(h)
        except EngineSignal:
            raise
        except (ValueError, IndexError, TypeError, NotImplementedError):
            h.oblige("numpy.emit.program-rejected-at-build", z3.BoolVal(True))
            return
        if not isinstance(E, (Array, DictOfNamedArrays)):
            h.oblige("numpy.emit.scalar-result", z3.BoolVal(True))
            return
        try:
            mapper, res = emit(h, E)
        except EngineSignal:
            raise
        except NotImplementedError as e:
            # not-supported is an allowed answer (never wrong code)
            h.oblige("numpy.emit.not-supported-is-explicit", z3.BoolVal(True),
                     info=str(e)[:80])
            return
        except Exception as e:  # noqa: BLE001
            from pytato.raising import UnknownIndexLambdaExpr
            if isinstance(e, UnknownIndexLambdaExpr):
                # the raiser's explicit "not recognised": nothing is emitted
                h.oblige("numpy.emit.not-supported-is-explicit",
                         z3.BoolVal(True), info="UnknownIndexLambdaExpr")
                return
            h.fail("numpy.emit.no-other-exception",
                   f"{type(e).__name__}: {e}")
            return
        from pytato.transform import InputGatherer
        env = {}
        for inp in InputGatherer()(E):
            if getattr(inp, "name", None):
                env[inp.name] = inp
        code = EmittedCode("xp", "np", env)
        if h.canary == "model-rolls-other-way":
            NP_MODEL["roll"] = lambda a, shift, axis=None: pt.roll(
                a, -shift, axis)
        try:
            E2 = code.run(mapper.lines, res)
        except EngineSignal:
            raise
        except MissingAttr as e:
            h.fail("numpy.emit.attribute-exists-in-array-module",
                   f"the installed NumPy has no attribute '{e}'")
            return
        except Exception as e:  # noqa: BLE001
            h.fail("numpy.emit.emitted-code-runs",
                   f"{type(e).__name__}: {e}")
            return
        finally:
            NP_MODEL["roll"] = lambda a, shift, axis=None: pt.roll(
                a, shift, axis)
        h.oblige("numpy.emit.attribute-exists-in-array-module",
                 z3.BoolVal(all(hasattr(np, a) for a in code.attrs_used)),
                 info=sorted(set(code.attrs_used)))
        # every input the code reads is an argument under the user's name;
        # inputs the value does not depend on (zeros_like) may be omitted
        used = {n.id for st in mapper.lines for n in ast.walk(st)
                if isinstance(n, ast.Name)} & set(env)
        h.oblige("numpy.emit.arguments-are-the-user's-input-names",
                 z3.BoolVal(used <= mapper.arg_names <= set(env)))
        if isinstance(E, DictOfNamedArrays):
            h.oblige("numpy.emit.dict-keys", z3.BoolVal(
                isinstance(E2, dict) and set(E2) == set(E._data)))
            for k in E._data:
                equal_denotation(h, f"numpy.emit[{k}]", E._data[k], E2[k])
            return
        if not isinstance(E2, Array):
            h.fail("numpy.emit.result-is-array", type(E2).__name__)
            return
        equal_denotation(h, "numpy.emit", E, E2)

    def replay(self, inst, clause, model, info):
        return EMIT_REPLAY.format(which=inst["which"])


EMIT_REPLAY = '''
import sys
sys.path.insert(0, "/verif")
from pyvc.replay_numpy import replay_program
replay_program({which!r}, MODEL)
'''


@contract
class Unsupported(Contract):
    name = "numpy.unsupported"
    functions = ("pytato.target.python.numpy_like:NumpyCodegenMapper."
                 "map_size_param",
                 "pytato.target.python.numpy_like:NumpyCodegenMapper."
                 "map_csr_matmul")
    properties = ("C14",)

    def instances(self, tier):
        return [dict(label=k, case=k) for k in (
            "size-param", "csr-matmul", "loopy-call", "function-call",
            "distributed-recv", "distributed-send-holder")]

    def run(self, h, inst):
        case = inst["case"]
        if case == "size-param":
            E = pt.make_size_param("n")
        elif case == "csr-matmul":
            v = mk_placeholder(h, "v", shape=[5])
            c = mk_placeholder(h, "c", shape=[5], dtype=np.int32)
            r = mk_placeholder(h, "r", shape=[4], dtype=np.int32)
            x = mk_placeholder(h, "x", shape=[3])
            E = pt.sparse_matmul(pt.make_csr_matrix((3, 3), v, c, r), x)
        elif case == "function-call":
            # (a call that was not inlined)
            x = mk_placeholder(h, "x", shape=[4])
            E = pt.trace_call(lambda a: 2 * a, x) + 1
        elif case == "distributed-recv":
            x = mk_placeholder(h, "x", shape=[4])
            E = pt.make_distributed_recv(0, "t", (4,), np.float64) + x
        elif case == "distributed-send-holder":
            x = mk_placeholder(h, "x", shape=[4])
            E = pt.make_distributed_send_ref_holder(
                pt.make_distributed_send(x * 2, 1, "t"), x) + 1
        else:
            from pyvc import mapperlib as ml
            from pytato.loopy import LoopyCall
            E = ml.build_node(LoopyCall, "lc").obj["out"]
        try:
            emit(h, E)
        except EngineSignal:
            raise
        except NotImplementedError:
            h.oblige(f"numpy.unsupported.raises-not-supported[{case}]",
                     z3.BoolVal(True))
            return
        except Exception as e:  # noqa: BLE001
            from pytato.transform import UnsupportedArrayError
            h.oblige(f"numpy.unsupported.raises-not-supported[{case}]",
                     z3.BoolVal(isinstance(e, UnsupportedArrayError)),
                     info=f"{type(e).__name__}")
            return
        h.fail(f"numpy.unsupported.raises-not-supported[{case}]",
               "code was emitted for an unsupported construct")

    def replay(self, inst, clause, model, info):
        return UNSUPPORTED_REPLAY.format(case=inst["case"])


UNSUPPORTED_REPLAY = '''
import sys
sys.path.insert(0, "/verif")
sys.path.append("/verif/.deps")
import numpy as np
import pytato as pt
from pytools import UniqueNameGenerator
from pytato.target.python.numpy_like import NumpyCodegenMapper
from pytato.transform import UnsupportedArrayError
from pyvc.replaylib import reproduced, not_reproduced
case = {case!r}
x = pt.make_placeholder("x", (4,), np.float64)
if case == "size-param":
    E = pt.make_size_param("n")
elif case == "csr-matmul":
    v = pt.make_placeholder("v", (5,), np.float64)
    c = pt.make_placeholder("c", (5,), np.int32)
    r = pt.make_placeholder("r", (4,), np.int32)
    E = pt.sparse_matmul(pt.make_csr_matrix((3, 3), v, c, r),
                         pt.make_placeholder("y", (3,), np.float64))
elif case == "function-call":
    E = pt.trace_call(lambda a: 2 * a, x) + 1
elif case == "distributed-recv":
    E = pt.make_distributed_recv(0, "t", (4,), np.float64) + x
elif case == "distributed-send-holder":
    E = pt.make_distributed_send_ref_holder(
        pt.make_distributed_send(x * 2, 1, "t"), x) + 1
else:
    from pyvc import mapperlib as ml
    from pytato.loopy import LoopyCall
    E = ml.build_node(LoopyCall, "lc").obj["out"]
m = NumpyCodegenMapper(numpy="np", numpy_backend="xp", vng=UniqueNameGenerator())
try:
    m(E)
except (NotImplementedError, UnsupportedArrayError) as e:
    not_reproduced(f"not-supported error: {{type(e).__name__}}: {{e}}")
except Exception as e:
    reproduced(f"the NumPy-like target answers the unsupported construct "
               f"'{{case}}' with {{type(e).__name__}}: {{e}} instead of a "
               f"not-supported error")
reproduced(f"code was emitted for the unsupported construct '{{case}}'")
'''


@contract
class BoundProgram(Contract):
    name = "numpy.bound-program"
    functions = ("pytato.target.python.numpy_like:generate_numpy_like",
                 "pytato.target.python.numpy_like:NumpyCodegenMapper."
                 "map_data_wrapper",
                 "pytato.target.python.numpy_like:NumpyCodegenMapper."
                 "map_placeholder",
                 "pytato.target.python:BoundPythonProgram.__call__")
    properties = ("C14", "C15")

    def instances(self, tier):
        return [dict(label="two-inputs-two-wrapped")]

    def run(self, h, inst):
        from pytato.target.python import NumpyLikePythonTarget
        from pytato.target.python.numpy_like import generate_numpy_like

        class T(NumpyLikePythonTarget):
            numpy_like_module_name = "numpy"
            numpy_like_module_name_shorthand = "xp"

            def bind_program(self, program, entrypoint, expected_arguments,
                             bound_arguments):
                from pytato.target.python import BoundPythonProgram
                return BoundPythonProgram(
                    target=self, program=program, entrypoint=entrypoint,
                    expected_arguments=expected_arguments,
                    bound_arguments=bound_arguments)
        d1, d2 = np.arange(4.0), np.arange(4.0) + 10
        x = pt.make_placeholder("x", (4,))
        y = pt.make_placeholder("_pt_data", (4,))   # adversarial user name
        w1, w2 = pt.make_data_wrapper(d1), pt.make_data_wrapper(d2)
        E = x + y + w1 * w2
        prg = h.call(generate_numpy_like, E, T(), "f", False, (), ())
        bound = dict(prg.bound_arguments)
        h.oblige("bound.wrapped-data-handed-back-as-is", z3.BoolVal(
            len(bound) == 2 and {id(v) for v in bound.values()}
            == {id(d1), id(d2)}))
        h.oblige("bound.generated-names-avoid-user-names", z3.BoolVal(
            not (set(bound) & {"x", "_pt_data"})))
        h.oblige("bound.expected=user-names+bound-names", z3.BoolVal(
            prg.expected_arguments == frozenset({"x", "_pt_data", *bound})))
        got = h.call(prg.__call__, x=np.ones(4), _pt_data=np.ones(4) * 2)
        h.oblige("bound.computes-numpy-value", z3.BoolVal(bool(np.array_equal(
            got, np.ones(4) + 2 + d1 * d2))))
        try:
            h.call(prg.__call__, x=np.ones(4), _pt_data=np.ones(4),
                   **{next(iter(bound)): d1})
            h.fail("bound.rebinding-rejected", "accepted")
        except EngineSignal:
            raise
        except ValueError:
            h.oblige("bound.rebinding-rejected", z3.BoolVal(True))
        # extra (unexpected) keyword arguments are filtered, not passed on
        got2 = h.call(prg.__call__, x=np.ones(4), _pt_data=np.ones(4) * 2,
                      unused=1)
        h.oblige("bound.only-expected-arguments-passed", z3.BoolVal(bool(
            np.array_equal(got2, got))))


# {{{ typed scalar literals, executed (bounded stand-in: real NumPy dtypes)

def typed_scalar_table(tier, seed):
    """The emitted program is *executed* with the installed NumPy on small
    arrays for every combination of array dtype x typed NumPy scalar x
    operation; its result must have the dtype the expression declares and the
    values of the reference evaluation.  (The deductive part works in exact
    arithmetic and cannot see precision or promotion.)  Python scalars are
    left out: pytato types them strongly, a listed C03 finding."""
    import operator

    from pytato.target.python import (BoundPythonProgram,
                                      NumpyLikePythonTarget)
    from pytato.target.python.numpy_like import generate_numpy_like
    from pyvc.replaylib import eval_array

    class T(NumpyLikePythonTarget):
        numpy_like_module_name = "numpy"
        numpy_like_module_name_shorthand = "np"

        def bind_program(self, program, entrypoint, expected_arguments,
                         bound_arguments):
            return BoundPythonProgram(
                target=self, program=program, entrypoint=entrypoint,
                expected_arguments=expected_arguments,
                bound_arguments=bound_arguments)
    ops = {"mul": operator.mul, "add": operator.add,
           "sub": operator.sub, "rsub": lambda a, s: s - a,
           "rmul": lambda a, s: s * a, "radd": lambda a, s: s + a,
           "greater": lambda a, s: pt.greater(a, s),
           "where": lambda a, s: pt.where(pt.greater(a, s), a, s),
           "maximum": lambda a, s: pt.maximum(a, s)}
    scalars = [np.float64(0.1), np.float32(0.5), np.int64(3), np.int32(2),
               np.complex128(1 + 2j), np.bool_(True)]
    dtypes = [np.float32, np.float64, np.int32, np.int64]
    failures, n = [], 0
    rng = np.random.default_rng(5)
    for dt in dtypes:
        x = (rng.integers(-3, 4, (5,)) * (0.3 if np.dtype(dt).kind == "f"
                                          else 1)).astype(dt)
        for sc in scalars:
            for opn, op in ops.items():
                if isinstance(sc, np.complexfloating) and opn in (
                        "greater", "where", "maximum"):
                    continue
                a = pt.make_placeholder("a", (5,), dt)
                try:
                    e = op(a, sc)
                    if not isinstance(e, pt.Array):
                        continue       # (NumPy took the operation over)
                    bp = generate_numpy_like(e, T(), "f", False, (), ())
                except Exception:  # noqa: BLE001
                    continue           # rejected / unsupported: not this check
                n += 1
                key = f"{np.dtype(dt).name}|{opn}|{type(sc).__name__}"
                try:
                    with np.errstate(all="ignore"):
                        got = np.asarray(bp(a=x))
                        want = eval_array(e, {"a": x})
                except Exception as ex:  # noqa: BLE001
                    failures.append(dict(key=key, what=f"emitted program "
                                         f"raised {type(ex).__name__}: {ex}"))
                    continue
                if got.dtype != e.dtype:
                    failures.append(dict(
                        key=key, what=f"{opn}({np.dtype(dt).name} array, "
                        f"{type(sc).__name__}({sc})): the emitted program "
                        f"computes {got.dtype}, the expression declares "
                        f"{e.dtype}", replay_src=TYPED_REPLAY.format(
                            dt=np.dtype(dt).name, sc=repr(sc), opn=opn)))
                elif not np.allclose(got, want.astype(got.dtype),
                                     rtol=1e-6 if got.dtype.itemsize >= 8
                                     else 1e-3, equal_nan=True):
                    failures.append(dict(
                        key=key, what=f"{opn}({np.dtype(dt).name} array, "
                        f"{type(sc).__name__}({sc})): values differ from the "
                        "reference evaluation"))
    # constant-filled arrays and casts: the emitted program must produce the
    # dtype the expression declares (zeros/ones/full/astype/arange for every
    # result dtype -- an omitted or widened dtype= argument is invisible to
    # the exact-arithmetic proof)
    makers = {"zeros": lambda dt: pt.zeros((3,), dt),
              "ones": lambda dt: pt.ones((2, 2), dt),
              "full": lambda dt: pt.full((3,), 2, dt),
              "zeros+1/3": lambda dt: (pt.zeros((3,), dt) + 1) / 3,
              "astype": lambda dt: pt.make_placeholder(
                  "a", (5,), np.int32).astype(dt) * 2,
              "zeros_like": lambda dt: pt.zeros_like(pt.make_placeholder(
                  "a", (5,), dt)),
              "arange": lambda dt: pt.arange(5, dtype=dt)}
    for mk_name, mk in makers.items():
        for dt in (np.float16, np.float32, np.float64, np.int8, np.int32,
                   np.int64, np.complex64, np.complex128, np.bool_):
            try:
                e = mk(dt)
                bp = generate_numpy_like(e, T(), "f", False, (), ())
            except Exception:  # noqa: BLE001
                continue
            n += 1
            key = f"const|{mk_name}|{np.dtype(dt).name}"
            xin = np.arange(5).astype(np.int32 if mk_name == "astype" else dt)
            try:
                with np.errstate(all="ignore"):
                    got = np.asarray(bp(a=xin) if "a" in bp.expected_arguments
                                     else bp())
                    want = eval_array(e, {"a": xin})
            except Exception as ex:  # noqa: BLE001
                failures.append(dict(key=key, what=f"emitted program raised "
                                     f"{type(ex).__name__}: {ex}"))
                continue
            if got.dtype != e.dtype or not np.allclose(
                    got, want.astype(got.dtype), equal_nan=True):
                failures.append(dict(
                    key=key, what=f"{mk_name} with dtype {np.dtype(dt).name}: "
                    f"the emitted program gives {got.dtype} "
                    f"{got.tolist()!r:.80}, the expression declares "
                    f"{e.dtype} {want.tolist()!r:.80}",
                    replay_src=CONST_REPLAY.format(key=key)))
    return dict(name="typed-scalar-table", kind="bounded", evaluations=n,
                failures=failures,
                note="emitted programs executed with the installed NumPy: "
                     "array dtype x typed NumPy scalar x operation")


CONST_REPLAY = '''
import sys
sys.path.insert(0, "/verif"); sys.path.append("/verif/.deps")
from pyvc.replaylib import reproduced, not_reproduced
from contracts.c14_numpy import typed_scalar_table
for f in typed_scalar_table("quick", 1)["failures"]:
    if f["key"] == {key!r}:
        reproduced(f["what"])
not_reproduced("emitted program has the declared dtype and values")
'''


TYPED_REPLAY = '''
import sys
sys.path.insert(0, "/verif"); sys.path.append("/verif/.deps")
import numpy as np
from numpy import float64, float32, int64, int32, complex128, bool_
from pyvc.replaylib import reproduced, not_reproduced
from contracts.c14_numpy import typed_scalar_table
r = typed_scalar_table("quick", 1)
want = "{dt}|{opn}|"
for f in r["failures"]:
    if f["key"].startswith(want):
        reproduced(f["what"])
not_reproduced("emitted program has the declared dtype")
'''

# }}}
