"""C10 -- mismatched or cyclic communication is diagnosed, never partitioned.

dist.faults     every single fault (drop / duplicate / retag / redirect one
                send or one receive) at every communication operation of the
                listed valid programs, and the listed cyclic / self-send
                programs: the real find_distributed_partition +
                verify_distributed_partition (interpreted, every rank) raise a
                diagnostic on some rank; none returns a partition.
                (That valid programs are never rejected is dist.find, C09.)
dist.ids        _send_to_comm_id / _recv_to_comm_id for symbolic ranks: raise
                iff source == destination; identifier fields exact.
dist.gather     _LocalSendRecvDepGatherer for symbolic ranks and tags, two
                sends / two receives in every structural arrangement
                (siblings, chained through passthrough data, nested in the
                sent data): Duplicate*Error iff the identifiers are equal.
dist.verify     verify_distributed_partition on hand-built partitions with
                symbolic ranks and tags: Duplicate/Missing errors iff their
                condition.

"Diagnosed" is read as: some rank raises (verify_distributed_partition
raises on rank 0 only, by design); the weaker reading of "on the affected
ranks".
"""
from __future__ import annotations

import numpy as np
import z3

import pytato as pt

from contracts.c09_partition import spmd
from pyvc import dist_programs as D
from pyvc.core import Contract, contract
from pyvc.graphmodel import SymVal
from pyvc.sym import EngineSignal


@contract
class SingleFaults(Contract):
    name = "dist.faults"
    functions = ("pytato.distributed.partition:find_distributed_partition",
                 "pytato.distributed.partition:_LocalSendRecvDepGatherer.*",
                 "pytato.distributed.partition:_calculate_dependency_levels",
                 "pytato.distributed.partition:_schedule_task_batches",
                 "pytato.distributed.verify:verify_distributed_partition")
    properties = ("C10",)
    max_paths = 50

    def instances(self, tier):
        out = []
        for prog in D.PROGRAMS:
            for size in (2, 3):
                if tier != "thorough" and size == 3 and prog not in (
                        "halo2", "multisend", "forwarding"):
                    continue
                for st in ("chain", "siblings"):
                    if st == "siblings" and tier != "thorough":
                        continue
                    for r, ns, nr in D.count_ops(prog, size):
                        for kind in D.FAULT_KINDS:
                            n = ns if kind.endswith("-send") else nr
                            if "redirect" in kind and size < 3:
                                continue
                            for i in range(n):
                                out.append(dict(
                                    label=f"{prog};ranks={size};{st};{kind}"
                                          f"@rank{r}#{i}",
                                    prog=prog, size=size, staple=st,
                                    kind=kind, rank=r, index=i))
        for prog in D.INVALID_PROGRAMS:
            for size in (2, 3):
                out.append(dict(label=f"{prog};ranks={size}", prog=prog,
                                size=size, staple="chain", kind=None, rank=0,
                                index=0))
        # pairs of faults (C10's quantifier): all pairs in the thorough tier,
        # every 9th pair in the quick tier
        import itertools
        for prog in ("pingpong", "ring", "halo2", "multisend",
                     "recv_reused_later", "forwarding"):
            for size in (2, 3):
                if size == 3 and prog not in ("ring", "forwarding"):
                    continue
                singles = []
                for r, ns, nr in D.count_ops(prog, size):
                    for kind in D.FAULT_KINDS:
                        if "redirect" in kind and size < 3:
                            continue
                        n = ns if kind.endswith("-send") else nr
                        singles += [(kind, r, i) for i in range(n)]
                pairs = [(f1, f2) for f1, f2 in itertools.combinations(
                    singles, 2) if (f1[1], f1[0][-4:], f1[2]) != (
                        f2[1], f2[0][-4:], f2[2])]
                if tier != "thorough":
                    pairs = pairs[::9]
                for f1, f2 in pairs:
                    out.append(dict(
                        label=f"{prog};ranks={size};pair:{f1[0]}@rank{f1[1]}"
                              f"#{f1[2]}+{f2[0]}@rank{f2[1]}#{f2[2]}",
                        prog=prog, size=size, staple="chain", kind="pair",
                        rank=0, index=0, pair=[list(f1), list(f2)]))
        return out

    def canaries(self, tier):
        return [(dict(label="pingpong;ranks=2;chain;no-fault", prog="pingpong",
                      size=2, staple="chain", kind="none", rank=0, index=0),
                 "valid-program-must-be-diagnosed", "dist.faults.diagnosed")]

    def run(self, h, inst):
        fault = None
        if inst["kind"] == "pair":
            fault = [D.Fault(*f) for f in inst["pair"]]
        elif inst["kind"] not in (None, "none"):
            fault = D.Fault(inst["kind"], inst["rank"], inst["index"])
        try:
            ctxs, res, raised = spmd(h, inst["size"], inst["prog"],
                                     fault=fault, staple=inst["staple"],
                                     number=False)
        except D.NotApplicable:
            return
        what = inst["kind"] or inst["prog"]
        # "on the affected ranks": the rank that owns the missing or surplus
        # endpoint of a mismatched message must itself raise (the peer, which
        # holds a perfectly good operation, need not)
        if fault is not None and ctxs and len(ctxs) == inst["size"]:
            owners = D.fault_owners(ctxs, inst["size"])
            if inst["kind"] == "pair" and not owners:
                # the two faults cancel: every message has exactly one send
                # and one receive again.  Then either the program is accepted
                # and the partition is sound, or it is cyclic and says so.
                from pytools.graph import CycleError

                from pytato.distributed.verify import \
                    PartitionInducedCycleError
                if res is None:
                    ok = all(isinstance(e, (CycleError,
                                            PartitionInducedCycleError))
                             for _s, e in raised.values()) and bool(raised)
                    h.oblige("dist.faults.matching-program-rejected-only-if-"
                             "cyclic", z3.BoolVal(ok),
                             info={r: f"{type(e).__name__}: {e}"[:120]
                                   for r, (_s, e) in raised.items()})
                else:
                    bad = D.check_global([s_ for s_, _, _ in res])
                    h.oblige("dist.faults.matching-program-partition-sound",
                             z3.BoolVal(not bad), info=bad[:3])
                return
            silent = sorted(owners - set(raised))
            if inst["kind"] == "pair":
                # with two faults one rank may diagnose its own and stop
                # before the other reaches its check: the other is then left
                # waiting in a collective (MPI aborts the job); what must not
                # happen is that an owner *returns a partition*
                blocked = set(getattr(spmd, "last_blocked", {}) or {})
                silent = sorted(owners - set(raised) - blocked)
            h.oblige(f"dist.faults.diagnosed-on-the-rank-owning-the-faulty-"
                     f"endpoint[{what}]", z3.BoolVal(not silent),
                     info=dict(silent_ranks=silent,
                               raised={r: type(e).__name__
                                       for r, (_s, e) in raised.items()}))
        h.oblige(f"dist.faults.diagnosed[{what}]", z3.BoolVal(res is None),
                 info="find and verify returned normally on every rank"
                 if res is not None else None)
        if res is None:
            from pytato.distributed.verify import (
                DistributedPartitionVerificationError)
            from pytools.graph import CycleError
            ok = all(isinstance(e, (DistributedPartitionVerificationError,
                                    CycleError, ValueError, AssertionError,
                                    NotImplementedError))
                     for _st, e in raised.values())
            h.oblige(f"dist.faults.raises-a-diagnostic[{what}]",
                     z3.BoolVal(ok),
                     info={r: f"{st}: {type(e).__name__}: {e}"[:160]
                           for r, (st, e) in raised.items()})

    def replay(self, inst, clause, model, info):
        return FAULT_REPLAY.format(pair=inst.get("pair"), **{
            k: inst[k] for k in ("prog", "size", "staple", "kind", "rank",
                                 "index")})


FAULT_REPLAY = '''
import sys
sys.path.insert(0, "/verif")
from pyvc.replay_dist import replay_fault
replay_fault({prog!r}, {size!r}, {staple!r}, {kind!r}, {rank!r}, {index!r},
             pair={pair!r})
'''


# {{{ symbolic sub-contracts

def sym_send(h, data, k):
    from pytato.distributed.nodes import DistributedSend
    d, t = h.int(f"dest{k}"), SymVal(f"tag{k}")
    return DistributedSend(data=data, dest_rank=d, comm_tag=t,
                           tags=frozenset()), d, t


def sym_recv(h, k, extra_tags=frozenset()):
    from pytato.array import _get_default_axes
    from pytato.distributed.nodes import DistributedRecv
    s, t = h.int(f"src{k}"), SymVal(f"rtag{k}")
    return DistributedRecv(src_rank=s, comm_tag=t, shape=(4,),
                           dtype=np.dtype(np.float64),
                           axes=_get_default_axes(1), tags=extra_tags), s, t


@contract
class CommIds(Contract):
    name = "dist.ids"
    functions = ("pytato.distributed.partition:_send_to_comm_id",
                 "pytato.distributed.partition:_recv_to_comm_id")
    properties = ("C10",)

    def instances(self, tier):
        return [dict(label="send"), dict(label="recv")]

    def canaries(self, tier):
        return [(dict(label="send"), "never-raises", "dist.ids.")]

    def run(self, h, inst):
        from pytato.distributed import partition as P
        local = h.int("local")
        x = pt.make_placeholder("x", (4,), np.float64)
        if inst["label"] == "send":
            node, other, tag = sym_send(h, x, 0)
            fn = P._send_to_comm_id
        else:
            node, other, tag = sym_recv(h, 0)
            fn = P._recv_to_comm_id
        try:
            cid = h.call(fn, local, node)
        except EngineSignal:
            raise
        except NotImplementedError:
            h.oblige("dist.ids.raises=>self-communication",
                     local.t == other.t)
            return
        if h.canary == "never-raises":
            h.oblige("dist.ids.returns", z3.BoolVal(False))
        h.oblige("dist.ids.returns=>not-self-communication",
                 local.t != other.t)
        src, dst = (local, other) if inst["label"] == "send" else \
            (other, local)
        h.oblige("dist.ids.fields-exact", z3.And(
            z3.BoolVal(cid.src_rank is src), z3.BoolVal(cid.dest_rank is dst),
            z3.BoolVal(cid.comm_tag is tag)))


ARRANGEMENTS = ("siblings", "chained", "nested-in-sent-data",
                "reversed-chain")


@contract
class GatherDuplicates(Contract):
    name = "dist.gather"
    functions = ("pytato.distributed.partition:_LocalSendRecvDepGatherer."
                 "map_distributed_send_ref_holder",
                 "pytato.distributed.partition:_LocalSendRecvDepGatherer."
                 "map_distributed_recv",
                 "pytato.distributed.partition:_LocalSendRecvDepGatherer."
                 "combine")
    properties = ("C10",)

    def instances(self, tier):
        return [dict(label=f"two-sends;{a}", kind="send", arr=a)
                for a in ARRANGEMENTS] + [
                dict(label="two-recvs;siblings", kind="recv", arr="siblings"),
                dict(label="two-recvs;nested-in-sent-data", kind="recv",
                     arr="nested-in-sent-data")]

    def canaries(self, tier):
        return [(dict(label="two-sends;siblings", kind="send",
                      arr="siblings"), "same-tag-suffices",
                 "dist.gather.")]

    def run(self, h, inst):
        from pytato.distributed.nodes import make_distributed_send_ref_holder
        from pytato.distributed.partition import _LocalSendRecvDepGatherer
        from pytato.distributed.verify import (DuplicateRecvError,
                                               DuplicateSendError)
        local = h.int("local")
        x = pt.make_placeholder("x", (4,), np.float64)
        y = pt.make_placeholder("y", (4,), np.float64)
        arr = inst["arr"]
        if inst["kind"] == "send":
            if arr == "nested-in-sent-data":
                s1, d1, t1 = sym_send(h, x * 2, 1)
                h1 = make_distributed_send_ref_holder(s1, y)
                s2, d2, t2 = sym_send(h, h1 * 3, 2)
                out = make_distributed_send_ref_holder(s2, x)
            else:
                s1, d1, t1 = sym_send(h, x * 2, 1)
                s2, d2, t2 = sym_send(h, x * 3, 2)
                if arr == "siblings":
                    out = make_distributed_send_ref_holder(s1, x) + \
                        make_distributed_send_ref_holder(s2, y)
                elif arr == "chained":
                    out = make_distributed_send_ref_holder(
                        s2, make_distributed_send_ref_holder(s1, x))
                else:
                    out = make_distributed_send_ref_holder(
                        s1, make_distributed_send_ref_holder(s2, x))
            h.assume(local.t != d1.t)
            h.assume(local.t != d2.t)
            same = z3.And(d1.t == d2.t, t1.u == t2.u)
            err = DuplicateSendError
        else:
            r1, s1_, t1 = sym_recv(h, 1)
            r2, s2_, t2 = sym_recv(h, 2, frozenset({pt.tags.ImplStored()}))
            if arr == "siblings":
                out = r1 + r2
            else:
                snd, d, _t = sym_send(h, r1 * 2, 3)
                h.assume(local.t != d.t)
                out = make_distributed_send_ref_holder(snd, r2)
            h.assume(local.t != s1_.t)
            h.assume(local.t != s2_.t)
            same = z3.And(s1_.t == s2_.t, t1.u == t2.u)
            err = DuplicateRecvError
        if h.canary == "same-tag-suffices":
            same = t1.u == t2.u
        g = h.call(_LocalSendRecvDepGatherer, local_rank=local)
        try:
            h.call(g, out)
        except EngineSignal:
            raise
        except err:
            h.oblige(f"dist.gather.duplicate-error=>same-identifier[{arr}]",
                     same)
            return
        except Exception as e:  # noqa: BLE001
            h.fail(f"dist.gather.no-other-exception[{arr}]",
                   f"{type(e).__name__}: {e}")
            return
        h.oblige(f"dist.gather.accepted=>identifiers-differ[{arr}]",
                 z3.Not(same))
        n = len(g.local_send_id_to_send_node) if inst["kind"] == "send" \
            else len(g.local_recv_id_to_recv_node)
        h.oblige(f"dist.gather.accepted=>both-recorded[{arr}]",
                 z3.BoolVal(n == 2))

    def replay(self, inst, clause, model, info):
        return GATHER_REPLAY.format(kind=inst["kind"], arr=inst["arr"])


GATHER_REPLAY = '''
import sys
sys.path.insert(0, "/verif")
import numpy as np, pytato as pt
from pyvc.replaylib import reproduced, not_reproduced
from pytato.distributed.partition import _LocalSendRecvDepGatherer
from pytato.distributed.verify import DuplicateSendError, DuplicateRecvError
kind, arr = {kind!r}, {arr!r}
x = pt.make_placeholder("x", (4,), np.float64)
y = pt.make_placeholder("y", (4,), np.float64)
H = pt.make_distributed_send_ref_holder
S = pt.make_distributed_send
if kind == "send":
    if arr == "nested-in-sent-data":
        out = H(S(H(S(x * 2, 1, "t"), y) * 3, 1, "t"), x)
    elif arr == "siblings":
        out = H(S(x * 2, 1, "t"), x) + H(S(x * 3, 1, "t"), y)
    elif arr == "chained":
        out = H(S(x * 3, 1, "t"), H(S(x * 2, 1, "t"), x))
    else:
        out = H(S(x * 2, 1, "t"), H(S(x * 3, 1, "t"), x))
else:
    r1 = pt.make_distributed_recv(1, "t", (4,), np.float64)
    r2 = pt.make_distributed_recv(1, "t", (4,), np.float64,
                                  tags=frozenset({{pt.tags.ImplStored()}}))
    out = r1 + r2 if arr == "siblings" else H(S(r1 * 2, 1, "u"), r2)
g = _LocalSendRecvDepGatherer(local_rank=0)
try:
    g(out)
except (DuplicateSendError, DuplicateRecvError) as e:
    not_reproduced(f"diagnosed: {{type(e).__name__}}")
reproduced(f"two {{kind}}s with the same (source, destination, tag) arranged "
           f"'{{arr}}' were accepted; recorded: "
           f"{{len(g.local_send_id_to_send_node)}} send(s), "
           f"{{len(g.local_recv_id_to_recv_node)}} receive(s)")
'''

# }}}


# {{{ verify_distributed_partition on hand-built partitions

class OneRankComm:
    """gather/bcast of a one-rank world (identity transport)."""
    rank, size = 0, 1

    def gather(self, obj, root=0):
        return [obj]

    def bcast(self, obj, root=0):
        return obj

    def barrier(self):
        pass


@contract
class VerifyChecks(Contract):
    name = "dist.verify"
    functions = ("pytato.distributed.verify:verify_distributed_partition",)
    properties = ("C10", "C09")
    max_paths = 4000

    def instances(self, tier):
        out = []
        for layout in ("same-name", "two-names"):
            for ns, nr in ((2, 1), (1, 2), (2, 2), (1, 1)):
                if ns < 2 and layout == "same-name":
                    continue
                out.append(dict(label=f"sends={ns};recvs={nr};{layout}",
                                ns=ns, nr=nr, layout=layout))
        return out

    def canaries(self, tier):
        return [(dict(label="sends=1;recvs=1;two-names", ns=1, nr=1,
                      layout="two-names"), "accept-implies-nothing",
                 "dist.verify.")]

    def run(self, h, inst):
        from pytato.distributed.partition import (DistributedGraphPart,
                                                  DistributedGraphPartition)
        from pytato.distributed.verify import (
            DuplicateRecvError, DuplicateSendError, MissingRecvError,
            MissingSendError, verify_distributed_partition)
        x = pt.make_placeholder("x", (4,), np.float64)
        sends, recvs = [], []
        for k in range(inst["ns"]):
            s, d, t = sym_send(h, x, k)
            sends.append((s, d.t, t.u))
        for k in range(inst["nr"]):
            r, s_, t = sym_recv(h, k)
            recvs.append((r, s_.t, t.u))
        if inst["layout"] == "same-name":
            n2s = {"s": [s for s, _, _ in sends]}
        else:
            n2s = {f"s{k}": [s] for k, (s, _, _) in enumerate(sends)}
        p0 = DistributedGraphPart(
            pid=0, needed_pids=frozenset(), user_input_names=frozenset("x"),
            partition_input_names=frozenset(), output_names=frozenset(n2s),
            name_to_recv_node={}, name_to_send_nodes=n2s)
        n2r = {f"r{k}": r for k, (r, _, _) in enumerate(recvs)}
        p1 = DistributedGraphPart(
            pid=1, needed_pids=frozenset({0}), user_input_names=frozenset(),
            partition_input_names=frozenset(n2r),
            output_names=frozenset({"out"}), name_to_recv_node=n2r,
            name_to_send_nodes={})
        part = DistributedGraphPartition(
            parts={0: p0, 1: p1},
            name_to_output={**dict.fromkeys(n2s, x), "out": x + 1},
            overall_output_names=("out",))
        # identifiers: sends (0, dest, tag), receives (src, 0, tag)
        S = [(z3.IntVal(0), d, t) for _, d, t in sends]
        Rv = [(s_, z3.IntVal(0), t) for _, s_, t in recvs]

        def eq(a, b):
            return z3.And(a[0] == b[0], a[1] == b[1], a[2] == b[2])
        dup_s = z3.Or([eq(S[i], S[j]) for i in range(len(S))
                       for j in range(i)] + [z3.BoolVal(False)])
        dup_r = z3.Or([eq(Rv[i], Rv[j]) for i in range(len(Rv))
                       for j in range(i)] + [z3.BoolVal(False)])
        miss_s = z3.Or([z3.Not(z3.Or([eq(r, s) for s in S]))
                        for r in Rv] + [z3.BoolVal(False)])
        miss_r = z3.Or([z3.Not(z3.Or([eq(s, r) for r in Rv]))
                        for s in S] + [z3.BoolVal(False)])
        try:
            h.call(verify_distributed_partition, OneRankComm(), part)
        except EngineSignal:
            raise
        except DuplicateSendError:
            h.oblige("dist.verify.duplicate-send-error=>duplicate-send", dup_s)
            return
        except DuplicateRecvError:
            h.oblige("dist.verify.duplicate-recv-error=>duplicate-recv", dup_r)
            return
        except MissingSendError:
            h.oblige("dist.verify.missing-send-error=>recv-without-send",
                     miss_s)
            return
        except MissingRecvError:
            h.oblige("dist.verify.missing-recv-error=>send-without-recv",
                     miss_r)
            return
        except Exception as e:  # noqa: BLE001
            h.fail("dist.verify.no-other-exception",
                   f"{type(e).__name__}: {e}")
            return
        ok = z3.Not(z3.Or(dup_s, dup_r, miss_s, miss_r))
        if h.canary == "accept-implies-nothing":
            ok = z3.And(ok, z3.BoolVal(False))
        h.oblige("dist.verify.accepted=>sends-and-receives-one-to-one", ok)

    def replay(self, inst, clause, model, info):
        return VERIFY_REPLAY.format(ns=inst["ns"], nr=inst["nr"],
                                    layout=inst["layout"])


VERIFY_REPLAY = '''
import sys, itertools
sys.path.insert(0, "/verif")
import numpy as np, pytato as pt
from pyvc.replaylib import reproduced, not_reproduced
from pytato.distributed.partition import DistributedGraphPart, DistributedGraphPartition
from pytato.distributed.verify import (verify_distributed_partition,
    DistributedPartitionVerificationError)
ns, nr, layout = {ns!r}, {nr!r}, {layout!r}
class Comm:
    rank, size = 0, 1
    def gather(self, o, root=0): return [o]
    def bcast(self, o, root=0): return o
x = pt.make_placeholder("x", (4,), np.float64)
for tags in itertools.product(("t", "u"), repeat=ns + nr):
    sends = [pt.make_distributed_send(x, 0, t) for t in tags[:ns]]
    recvs = [pt.make_distributed_recv(0, t, (4,), np.float64) for t in tags[ns:]]
    n2s = {{"s": sends}} if layout == "same-name" else {{f"s{{k}}": [s] for k, s in enumerate(sends)}}
    n2r = {{f"r{{k}}": r for k, r in enumerate(recvs)}}
    part = DistributedGraphPartition(parts={{
        0: DistributedGraphPart(pid=0, needed_pids=frozenset(), user_input_names=frozenset("x"),
             partition_input_names=frozenset(), output_names=frozenset(n2s),
             name_to_recv_node={{}}, name_to_send_nodes=n2s),
        1: DistributedGraphPart(pid=1, needed_pids=frozenset({{0}}), user_input_names=frozenset(),
             partition_input_names=frozenset(n2r), output_names=frozenset({{"out"}}),
             name_to_recv_node=n2r, name_to_send_nodes={{}})}},
        name_to_output={{**dict.fromkeys(n2s, x), "out": x + 1}}, overall_output_names=("out",))
    good = sorted(tags[:ns]) == sorted(tags[ns:]) and len(set(tags[:ns])) == ns
    try:
        verify_distributed_partition(Comm(), part); accepted = True
    except (DistributedPartitionVerificationError, AssertionError):
        accepted = False
    if accepted != good:
        reproduced(f"send tags {{tags[:ns]}}, receive tags {{tags[ns:]}} ({{layout}}): "
                   f"{{'accepted' if accepted else 'rejected'}} but sends and receives are "
                   f"{{'' if good else 'not '}}one-to-one")
not_reproduced("verify agrees with one-to-one matching on all tag assignments")
'''

# }}}


# {{{ cross-rank cycles among parts

@contract
class VerifyCycles(Contract):
    """verify_distributed_partition on partitions whose parts wait for each
    other *across ranks*: the real partitions of listed programs, with all
    parts of a rank fused into one (all receives at its beginning, all sends
    at its end).  Oracle: the part graph over (rank, pid) -- a part needs its
    intra-rank predecessors and, for every receive, the part that sends the
    message -- has a cycle, i.e. executing the partition deadlocks.  Then a
    diagnostic must be raised (on the root rank at least); an acyclic fused
    partition must be accepted."""
    name = "dist.verify.cycles"
    functions = ("pytato.distributed.verify:verify_distributed_partition",
                 "pytato.distributed.verify:_run_partition_diagnostics")
    properties = ("C10",)
    max_paths = 50

    PROGS = ("pingpong", "ring", "halo2", "multisend", "forwarding", "nocomm")

    def instances(self, tier):
        return [dict(label=f"{p};ranks={n};fused", prog=p, size=n)
                for p in self.PROGS for n in (2, 3)
                if p in D.PROGRAMS and not (n == 3 and tier != "thorough"
                                            and p not in ("ring", "pingpong"))]

    def run(self, h, inst):
        from pytato.distributed.partition import (DistributedGraphPart,
                                                  DistributedGraphPartition)
        from pytato.distributed.verify import verify_distributed_partition
        from pyvc import fakempi
        size = inst["size"]
        try:
            ctxs, res, raised = spmd(h, size, inst["prog"], verify=False,
                                     number=False)
        except D.NotApplicable:
            return
        if res is None:
            h.oblige("dist.verify.cycles.program-has-a-partition",
                     z3.BoolVal(False), info=str(raised)[:200])
            return
        fused = []
        for sym, _n, _x in res:
            parts = list(sym.parts.values())
            outputs = frozenset().union(*[p.output_names for p in parts])
            recvs, sends = {}, {}
            for p_ in parts:
                recvs.update(p_.name_to_recv_node)
                for nm, nodes in p_.name_to_send_nodes.items():
                    sends.setdefault(nm, []).extend(nodes)
            fp = DistributedGraphPart(
                pid=0, needed_pids=frozenset(),
                user_input_names=frozenset().union(
                    *[p_.user_input_names for p_ in parts]),
                partition_input_names=frozenset().union(
                    *[p_.partition_input_names for p_ in parts]) - outputs,
                output_names=outputs, name_to_recv_node=recvs,
                name_to_send_nodes=sends)
            fused.append(DistributedGraphPartition(
                parts={0: fp}, name_to_output=sym.name_to_output,
                overall_output_names=sym.overall_output_names))
        # oracle: rank r waits for rank s iff r receives something from s
        waits = {r: {rv.src_rank for rv in
                     fused[r].parts[0].name_to_recv_node.values()}
                 for r in range(size)}

        def cyclic():
            color = {}

            def visit(u):
                color[u] = 1
                for v in waits.get(u, ()):
                    if color.get(v) == 1 or (v not in color and visit(v)):
                        return True
                color[u] = 2
                return False
            return any(u not in color and visit(u) for u in range(size))
        deadlocks = cyclic()
        raised = {}

        def program(comm):
            try:
                h.call(verify_distributed_partition, comm, fused[comm.rank])
            except (EngineSignal, fakempi.NeedOthers):
                raise
            except Exception as e:  # noqa: BLE001
                raised[comm.rank] = e
                raise
            return True
        _w, outcomes = fakempi.run_spmd(
            size, program, call=lambda f, *a: h.call(f, *a),
            record_exceptions=True, passthrough=(EngineSignal,))
        diagnosed = bool(raised) or any(
            isinstance(o, fakempi.RankRaised) for o in outcomes)
        info = {r: f"{type(e).__name__}: {e}"[:100] for r, e in raised.items()}
        if deadlocks:
            h.oblige("dist.verify.cycles.deadlocking-partition-is-diagnosed",
                     z3.BoolVal(diagnosed), info=dict(waits={
                         r: sorted(w) for r, w in waits.items()}))
        else:
            h.oblige("dist.verify.cycles.acyclic-partition-is-accepted",
                     z3.BoolVal(not diagnosed), info=info)

# }}}
