"""C03 -- argument validation and shape inference of the constructors.

For every axis argument in [-ndim-1, ndim+1] (the property's range) and
symbolic axis lengths: if the constructor returns normally then NumPy accepts
the same call (spec predicates written from NumPy's documentation, validated
against NumPy on samples: contracts/specgrid.py for slices and //, %; sampled replays of pyvc/report.py otherwise) and ``.shape``/``.ndim`` of the result
evaluate without raising and equal NumPy's shape.  Over-rejection is allowed.
"""
from __future__ import annotations

import itertools

import numpy as np
import z3

import pytato as pt
from pytato.array import Array

from contracts.c01_builders import build
from pyvc.core import Contract, contract
from pyvc.ptlib import mk_placeholder, shape_term
from pyvc.sym import EngineSignal, z_of


def eval_shape(h, clause, res, props=("C03",)):
    """'.shape' and '.ndim' are available immediately, without raising."""
    try:
        shp = h.interp.getattr(res, "shape")
        nd = h.interp.getattr(res, "ndim")
        h.oblige(f"{clause}.ndim-consistent", z3.BoolVal(nd == len(shp)),
                 props=props)
        return shp
    except EngineSignal:
        raise
    except Exception as e:  # noqa: BLE001
        h.fail(f"{clause}.shape-available-at-build-time",
               f"{type(e).__name__}: {e}", props=props)
        return None


def oblige_shape(h, clause, shp, want, props=("C03",)):
    if len(shp) != len(want):
        h.fail(f"{clause}.shape-rank", f"{len(shp)} != {len(want)}",
               props=props)
        return
    for d, (a, b) in enumerate(zip(shp, want, strict=True)):
        h.oblige(f"{clause}.shape[{d}]",
                 shape_term(a) == (b if z3.is_expr(b) else shape_term(b)),
                 props=props)


@contract
class AxisArguments(Contract):
    name = "validate.axis"
    functions = ("pytato.array:roll", "pytato.array:stack",
                 "pytato.array:concatenate", "pytato.array:expand_dims",
                 "pytato.array:squeeze", "pytato.array:transpose",
                 "pytato.array:Stack.shape", "pytato.array:Concatenate.shape")
    properties = ("C03", "C01")

    def instances(self, tier):
        out = []
        for fn in ("roll", "stack", "concatenate", "expand_dims", "squeeze"):
            for r in (0, 1, 2, 3):
                for ax in range(-r - 1, r + 2):
                    out.append(dict(label=f"{fn};rank={r};axis={ax}", fn=fn,
                                    rank=r, axis=ax))
        for r in (1, 2, 3):
            for axes in itertools.product(range(-1, r + 1), repeat=r):
                if tier != "thorough" and r == 3 and len(set(axes)) < 3 \
                        and sum(axes) % 3:
                    continue
                out.append(dict(label=f"transpose;rank={r};axes={list(axes)}",
                                fn="transpose", rank=r, axis=list(axes)))
        out.append(dict(label="expand_dims;rank=1;axis=(0,0)",
                        fn="expand_dims", rank=1, axis=[0, 0]))
        out.append(dict(label="expand_dims;rank=1;axis=(0,2)",
                        fn="expand_dims", rank=1, axis=[0, 2]))
        out.append(dict(label="expand_dims;rank=1;axis=(-1,0)",
                        fn="expand_dims", rank=1, axis=[-1, 0]))
        # tuples of new axes in *any* order (NumPy places them at the
        # normalised positions, whatever the order they are listed in),
        # repeated and out-of-range entries included
        for r, k in ((2, 2), (1, 3)) if tier != "thorough" else \
                ((2, 2), (1, 3), (3, 2), (2, 3)):
            out_nd = r + k
            for axes in itertools.product(range(-out_nd - 1, out_nd + 1),
                                          repeat=k):
                if k == 3 and tier != "thorough" and sum(axes) % 4:
                    continue
                out.append(dict(
                    label=f"expand_dims;rank={r};axis={tuple(axes)}",
                    fn="expand_dims", rank=r, axis=list(axes)))
        return out

    def canaries(self, tier):
        return [(dict(label="stack;rank=1;axis=1", fn="stack", rank=1,
                      axis=1), "numpy-rejects-last-axis",
                 "validate.axis.accepted=>numpy-accepts")]

    def run(self, h, inst):
        fn, r, ax = inst["fn"], inst["rank"], inst["axis"]
        ns = [h.nonneg(f"n{d}") for d in range(r)]
        a = mk_placeholder(h, "a", shape=ns)
        b = mk_placeholder(h, "b", shape=ns)
        nz = [shape_term(n) for n in ns]
        clause = "validate.axis"
        if fn == "roll":
            res = build(h, clause, pt.roll, a, 2, ax)
            ok = (-r <= ax < r) or r == 0   # 0-d: numpy roll(axis) errors too
            ok = (-r <= ax < r)
            if r == 0:
                # pytato returns the 0-d operand for any axis; numpy rejects
                # an axis on a 0-d array
                ok = False
            want = nz
        elif fn == "stack":
            res = build(h, clause, pt.stack, [a, b], ax)
            ok = -(r + 1) <= ax < r + 1
            if h.canary == "numpy-rejects-last-axis":
                ok = ok and ax != r
            p = ax % (r + 1) if ok else 0
            want = [*nz[:p], z3.IntVal(2), *nz[p:]]
        elif fn == "concatenate":
            res = build(h, clause, pt.concatenate, [a, b], ax)
            ok = r >= 1 and -r <= ax < r
            p = ax % r if ok else 0
            want = [2 * nz[d] if d == p else nz[d] for d in range(r)]
        elif fn == "expand_dims":
            axarg = tuple(ax) if isinstance(ax, list) else ax
            res = build(h, clause, pt.expand_dims, a, axarg)
            axs = ax if isinstance(ax, list) else [ax]
            out_nd = r + len(axs)
            ok = all(-out_nd <= x < out_nd for x in axs) and \
                len({x % out_nd for x in axs}) == len(axs)
            want = []
            if ok:
                norm = sorted(x % out_nd for x in axs)
                src = iter(nz)
                want = [z3.IntVal(1) if d in norm else next(src)
                        for d in range(out_nd)]
        elif fn == "squeeze":
            res = build(h, clause, pt.squeeze, a, [ax])
            ok = -r <= ax < r
            want = None
            if ok and res is not None:
                p = ax % r
                # numpy additionally requires that axis to have length 1
                h.oblige(f"{clause}.squeeze-axis-has-length-1", nz[p] == 1,
                         props=("C03",))
                want = [nz[d] for d in range(r) if d != p]
        else:
            res = build(h, clause, pt.transpose, a, ax)
            ok = len(ax) == r and all(-r <= x < r for x in ax) and \
                len({x % r for x in ax}) == r
            want = [nz[x % r] for x in ax] if ok else []
        if res is None:
            return
        if fn == "roll" and r == 0:
            # documented shortcut: rolling a 0-d array returns it unchanged
            h.oblige(f"{clause}.roll-0d-returns-operand",
                     z3.BoolVal(res is a), props=("C03",))
            return
        h.oblige(f"{clause}.accepted=>numpy-accepts", z3.BoolVal(bool(ok)),
                 props=("C03",), info=f"{fn} rank={r} axis={ax}")
        if not ok or not isinstance(res, Array):
            return
        # expand_dims has no lowering of its own: it *is* a C-order reshape of
        # the operand to the shape it computes, and NumPy's expand_dims is the
        # C-order reshape to NumPy's shape -- so, given lower.reshape, its
        # value (C01) is right exactly when this shape is
        props = ("C03", "C01") if fn == "expand_dims" else ("C03",)
        if fn == "expand_dims":
            from pytato.array import Reshape
            h.oblige(f"{clause}.expand_dims-is-a-c-order-reshape-of-the-"
                     "operand", z3.BoolVal(
                         isinstance(res, Reshape) and res.array is a
                         and res.order == "C"), props=("C01",))
        shp = eval_shape(h, clause, res, props)
        if shp is not None and want is not None:
            oblige_shape(h, clause, shp, want, props)

    def replay(self, inst, clause, model, info):
        return AXIS_REPLAY.format(inst=inst)


AXIS_REPLAY = '''
import sys
sys.path.insert(0, "/verif")
import numpy as np, pytato as pt
from pyvc.replaylib import M_from, mint, reproduced
M = M_from(MODEL)
inst = {inst!r}
fn, r, ax = inst["fn"], inst["rank"], inst["axis"]
shape = tuple(max(0, mint(M, f"n{{d}}", 2)) if fn != "squeeze" else 1 for d in range(r))
a = pt.make_placeholder("a", shape, np.float64); b = pt.make_placeholder("b", shape, np.float64)
na = np.zeros(shape)
calls = dict(
    roll=(lambda: pt.roll(a, 2, ax), lambda: np.roll(na, 2, ax)),
    stack=(lambda: pt.stack([a, b], ax), lambda: np.stack([na, na], ax)),
    concatenate=(lambda: pt.concatenate([a, b], ax), lambda: np.concatenate([na, na], ax)),
    expand_dims=(lambda: pt.expand_dims(a, tuple(ax) if isinstance(ax, list) else ax),
                 lambda: np.expand_dims(na, tuple(ax) if isinstance(ax, list) else ax)),
    squeeze=(lambda: pt.squeeze(a, [ax]), lambda: np.squeeze(na, ax)),
    transpose=(lambda: pt.transpose(a, ax), lambda: np.transpose(na, ax)))
pf, nf = calls[fn]
try:
    want = nf().shape
except Exception as e:
    want = e
try:
    node = pf()
except Exception as e:
    print("not reproduced: pytato rejects", type(e).__name__); sys.exit(0)
try:
    got = tuple(int(s) for s in node.shape)
except Exception as e:
    reproduced(f"{{fn}}(rank {{r}}, axis={{ax}}) was accepted but .shape raises {{type(e).__name__}}: {{e}} (NumPy: {{want!r}})")
if isinstance(want, Exception):
    reproduced(f"{{fn}}(rank {{r}}, axis={{ax}}) accepted with shape {{got}}; NumPy rejects: {{want}}")
if got != want:
    reproduced(f"{{fn}}(rank {{r}}, axis={{ax}}): shape {{got}} vs NumPy {{want}}")
print("not reproduced"); sys.exit(0)
'''


@contract
class ReshapeValidation(Contract):
    name = "validate.reshape"
    functions = ("pytato.array:reshape", "pytato.array:Array.reshape",
                 "pytato.array:Array.size")
    properties = ("C03",)

    def instances(self, tier):
        out = []
        for ro in (0, 1, 2):
            for kinds in itertools.chain.from_iterable(
                    itertools.product(["m", "-1"], repeat=k)
                    for k in (1, 2, 3)):
                out.append(dict(label=f"old-rank={ro};new={'/'.join(kinds)}",
                                ro=ro, kinds=list(kinds)))
        return out

    def run(self, h, inst):
        ro, kinds = inst["ro"], inst["kinds"]
        ns = [h.nonneg(f"n{d}") for d in range(ro)]
        a = mk_placeholder(h, "a", shape=ns)
        new = [h.int(f"m{d}") if k == "m" else -1
               for d, k in enumerate(kinds)]
        for k, m in zip(kinds, new, strict=True):
            if k == "m":
                h.assume(m.t != -1)   # the unknown-axis marker is its own kind
        res = build(h, "validate.reshape", pt.reshape, a, tuple(new))
        if res is None:
            return
        size = z3.IntVal(1)
        for n in ns:
            size = size * shape_term(n)
        n_unknown = kinds.count("-1")
        known = z3.IntVal(1)
        for k, m in zip(kinds, new, strict=True):
            if k == "m":
                known = known * z_of(m)
        # NumPy: at most one -1, other entries >= 0; sizes must agree
        conds = [z3.BoolVal(n_unknown <= 1)]
        conds += [z_of(m) >= 0 for k, m in zip(kinds, new, strict=True)
                  if k == "m"]
        if n_unknown == 0:
            conds.append(known == size)
        elif n_unknown == 1:
            conds.append(z3.And(known > 0, size % known == 0))
        h.oblige("validate.reshape.accepted=>numpy-accepts", z3.And(conds),
                 props=("C03",))
        shp = eval_shape(h, "validate.reshape", res)
        if shp is None or n_unknown > 1:
            return
        want = [z_of(m) if k == "m" else size / known
                for k, m in zip(kinds, new, strict=True)]
        oblige_shape(h, "validate.reshape", shp, want)


@contract
class MatmulShapes(Contract):
    name = "validate.matmul"
    functions = ("pytato.array:matmul", "pytato.array:dot",
                 "pytato.array:Array.__matmul__", "pytato.array:einsum",
                 "pytato.array:Einsum.shape")
    properties = ("C03",)

    def instances(self, tier):
        out = []
        for ra in (1, 2, 3, 4) if tier == "thorough" else (1, 2, 3):
            for rb in (1, 2, 3, 4) if tier == "thorough" else (1, 2, 3):
                out.append(dict(label=f"matmul;{ra}x{rb}", fn="matmul", ra=ra,
                                rb=rb))
        for ra in (1, 2, 3):
            for rb in (1, 2, 3):
                out.append(dict(label=f"dot;{ra}x{rb}", fn="dot", ra=ra, rb=rb))
        return out

    def run(self, h, inst):
        fn, ra, rb = inst["fn"], inst["ra"], inst["rb"]
        k = h.nonneg("k")
        if fn == "matmul":
            # numpy.matmul: stack dims broadcast, (.., n, k) @ (.., k, m)
            nstack = max(ra - 2, rb - 2, 0)
            stack = [h.nonneg(f"s{d}") for d in range(nstack)]
            sa = stack[nstack - max(ra - 2, 0):] + \
                ([h.nonneg("n"), k] if ra >= 2 else [k])
            sb = stack[nstack - max(rb - 2, 0):] + \
                ([k, h.nonneg("m")] if rb >= 2 else [k])
            want = [shape_term(s) for s in stack] + \
                ([shape_term(sa[-2])] if ra >= 2 else []) + \
                ([shape_term(sb[-1])] if rb >= 2 else [])
        else:
            # numpy.dot: sum over last axis of a and second-to-last of b
            sa = [h.nonneg(f"a{d}") for d in range(ra - 1)] + [k]
            sb = ([h.nonneg(f"b{d}") for d in range(rb - 2)]
                  + [k] + [h.nonneg("m")]) if rb >= 2 else [k]
            want = [shape_term(s) for s in sa[:-1]] + \
                [shape_term(s) for s in (sb[:-2] + sb[-1:] if rb >= 2
                                         else [])]
        a = mk_placeholder(h, "a", shape=sa)
        b = mk_placeholder(h, "b", shape=sb)
        res = build(h, "validate.matmul", getattr(pt, fn), a, b)
        if res is None or not isinstance(res, Array):
            return
        shp = eval_shape(h, f"validate.{fn}", res)
        if shp is not None:
            oblige_shape(h, f"validate.{fn}[{ra}x{rb}]", shp, want)


@contract
class EinsumLengths(Contract):
    """einsum with one index on three operand axes, each of which is
    literally 1 or one of two independent symbolic lengths: NumPy accepts
    exactly when all lengths other than 1 agree (a length-1 axis broadcasts);
    accepted => NumPy accepts, and the inferred length is NumPy's."""
    name = "validate.einsum-lengths"
    functions = ("pytato.array:einsum",
                 "pytato.array:_normalize_einsum_in_subscript",
                 "pytato.array:Einsum.shape")
    properties = ("C03",)

    def instances(self, tier):
        return [dict(label=f"{spec};lengths={''.join(k)}", spec=spec,
                     kinds=list(k))
                for spec in ("i,i,i->i", "ij,ij,ij->ij", "i,i,i->")
                for k in itertools.product("1ab", repeat=3)]

    def run(self, h, inst):
        a_, b_ = h.nonneg("a"), h.nonneg("b")
        lens = [dict([("1", 1), ("a", a_), ("b", b_)])[k]
                for k in inst["kinds"]]
        two = inst["spec"].startswith("ij")
        ops = [mk_placeholder(h, f"x{i}", shape=[n, 3] if two else [n])
               for i, n in enumerate(lens)]
        res = build(h, "validate.einsum-lengths", pt.einsum, inst["spec"],
                    *ops)
        if res is None:
            return
        zl = [shape_term(n) for n in lens]
        non1 = [z for z in zl]
        ok = z3.And([z3.Or(x == 1, y == 1, x == y)
                     for i, x in enumerate(non1) for y in non1[:i]])
        h.oblige("validate.einsum-lengths.accepted=>numpy-accepts", ok,
                 props=("C03",), info=inst["kinds"])
        h.assume(ok)
        shp = eval_shape(h, "validate.einsum-lengths", res)
        if shp is None or inst["spec"].endswith("->"):
            return
        big = zl[0]
        for z in zl[1:]:
            big = z3.If(big == 1, z, big)
        want = [big, z3.IntVal(3)] if two else [big]
        oblige_shape(h, "validate.einsum-lengths", shp, want)

    def replay(self, inst, clause, model, info):
        return EINSUM_LEN_REPLAY.format(inst=inst)


EINSUM_LEN_REPLAY = '''
import sys
sys.path.insert(0, "/verif")
import numpy as np, pytato as pt
from pyvc.replaylib import M_from, mint, reproduced, not_reproduced
M = M_from(MODEL)
inst = {inst!r}
a, b = max(0, mint(M, "a", 3)), max(0, mint(M, "b", 4))
lens = [dict([("1", 1), ("a", a), ("b", b)])[k] for k in inst["kinds"]]
two = inst["spec"].startswith("ij")
shapes = [(n, 3) if two else (n,) for n in lens]
try:
    want = np.einsum(inst["spec"], *[np.zeros(s) for s in shapes]).shape
except ValueError as e:
    want = e
try:
    node = pt.einsum(inst["spec"], *[pt.make_placeholder(f"x{{i}}", s, np.float64)
                                     for i, s in enumerate(shapes)])
    got = tuple(int(s) for s in node.shape)
except ValueError as e:
    not_reproduced(f"pytato rejects: {{e}}")
except AssertionError as e:
    reproduced(f"einsum({{inst['spec']!r}}) of shapes {{shapes}} is accepted but its "
               f".shape raises AssertionError (NumPy: {{want!r}})")
if isinstance(want, Exception):
    reproduced(f"einsum({{inst['spec']!r}}) of shapes {{shapes}} is accepted with shape "
               f"{{got}}; NumPy rejects: {{want}}")
if got != want:
    reproduced(f"einsum({{inst['spec']!r}}) of shapes {{shapes}}: shape {{got}} vs NumPy {{want}}")
not_reproduced("agrees with NumPy")
'''
