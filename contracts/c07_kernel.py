"""C07 (and the pytato half of C01's back end): the loopy kernel built by
the real ``generate_loopy`` computes the program, whatever tags are attached.

For each listed program over placeholders with *symbolic sizes* (size
parameters; reduction axes static, as pytato requires) and each assignment of
tags to its intermediate nodes (none / ImplStored / ImplSubstitution /
ImplInlined / Named / PrefixNamed / user-defined array, axis and reduction
tags, mixed), the real code generator is interpreted and the kernel it returns
is given its meaning by ``pyvc/lpden.py``:

kernel.outputs       the kernel's output arguments are the program's output
                     names with the declared shapes and dtypes -- the same for
                     every tag assignment;
kernel.value         every output denotes, at every index and for every size
                     and input, the value the *untagged* pytato program
                     denotes (``den.py``; that this is NumPy's value is C01 /
                     C02);
kernel.covers        every temporary/output is written on its whole shape;
kernel.in-bounds     every read of every instruction is within the shape of
                     what it reads, under its guards (C11 at kernel level);
kernel.deps          every instruction depends (transitively) on the writers
                     of everything it reads, also through substitution rules
                     and reduction bounds.

What remains trusted below this line: loopy itself (preprocessing,
scheduling, C generation) and the execution.
"""
from __future__ import annotations

import itertools

import numpy as np
import z3

import pytato as pt
from pytato.array import DataWrapper, IndexLambda, Placeholder
from pytato.transform.lower_to_index_lambda import to_index_lambda

from pyvc.core import Contract, contract
from pyvc.den import ArrayModel, Den
from pyvc.lpden import KernelDen
from pyvc.ptlib import (VerifAxisTag, VerifTag, contains_array_app, in_box,
                        oblige_equal_den,
                        shape_term, size_param_term)
from pyvc.sym import EngineSignal, OutsideSubset

# {{{ programs: builder(T) -> dict name -> array;  T(k, x) tags node k


def _inputs():
    n = pt.make_size_param("n")
    a = pt.make_placeholder("a", (n, 4), np.float64)
    b = pt.make_placeholder("b", (4,), np.float64)
    c = pt.make_placeholder("c", (n, 4), np.float64)
    return n, a, b, c


def p_elementwise(T):
    _n, a, b, c = _inputs()
    s = T(0, a + c)
    t = T(1, pt.sin(s) * 2)
    u = T(2, t + b)
    return {"o": u - s, "p": T(3, pt.where(pt.greater(a, 0), s, t))}


def p_reductions(T):
    _n, a, b, c = _inputs()
    s = T(0, a * c)
    r1 = T(1, pt.sum(s, axis=1))
    r2 = T(2, pt.amax(s + b, axis=1))
    return {"o": r1 + r2, "q": T(3, s @ b)}


def p_chain(T):
    _n, a, b, c = _inputs()
    s = T(0, a + 1)
    t = T(1, s * c)
    u = T(2, pt.sum(t, axis=1))
    v = T(3, u * 3)
    return {"o": v, "s": s}


def p_indexing(T):
    _n, a, b, c = _inputs()
    s = T(0, a + c)
    t = T(1, s[:, 1:3])
    u = T(2, pt.roll(s, 1, axis=1))
    return {"o": T(3, t * 2), "p": u + s, "r": pt.transpose(T(4, s + 1))}


def p_einsum(T):
    _n, a, b, c = _inputs()
    m = pt.make_placeholder("m", (4, 4), np.float64)
    s = T(0, a @ m)
    t = T(1, pt.einsum("ij,j->i", s, b))
    return {"o": t, "p": T(2, pt.einsum("ij,ij->i", s, c))}


def p_datawrapper(T):
    _n, a, b, c = _inputs()
    w = pt.make_data_wrapper(np.arange(4.0))
    s = T(0, a * w)
    return {"o": T(1, s + b), "w2": T(2, w + b)}


def p_stack_concat(T):
    _n, a, b, c = _inputs()
    s = T(0, pt.stack([a, c], axis=0))
    t = T(1, pt.concatenate([a, c * 2], axis=1))
    u = T(2, pt.pad(a, ((0, 0), (1, 2)), constant_values=7.0)) \
        if False else T(2, a - c)
    return {"o": s * 2, "p": T(3, t + 1), "q": u}


def p_static(T):
    # static shapes: reshape, pad, expand_dims, squeeze, broadcast_to
    x = pt.make_placeholder("x", (3, 4), np.float64)
    y = pt.make_placeholder("y", (4,), np.float64)
    s = T(0, x + y)
    r = T(1, pt.reshape(s, (4, 3)))
    q = T(2, pt.reshape(s, (2, 6), order="F"))
    w = T(3, pt.pad(s, ((1, 0), (0, 2)), constant_values=((5, 6), (7, 8))))
    return {"o": r * 2, "p": q + 1, "w": w,
            "e": pt.expand_dims(T(4, s * 3), 1),
            "bt": pt.broadcast_to(y, (3, 4)) + s}


def p_mixed_dtypes(T):
    n = pt.make_size_param("n")
    i = pt.make_placeholder("i", (n, 4), np.int64)
    f = pt.make_placeholder("f", (n, 4), np.float32)
    m = pt.make_placeholder("m", (n, 4), np.bool_)
    s = T(0, i * 2 + 1)
    t = T(1, pt.where(m, s, i // 3))
    u = T(2, pt.logical_and(pt.less(i, 2), m))
    v = T(3, f.astype(np.float64) + s)
    return {"o": t % 5, "u": u, "v": v, "mx": pt.maximum(s, i),
            "any": pt.any(T(4, pt.logical_or(u, m)), axis=1)}


def p_outputs_are_inputs(T):
    _n, a, b, c = _inputs()
    s = T(0, a + 1)
    return {"a_out": a, "s1": s, "s2": s, "t": T(1, s * 2)}


def p_advanced_index(T):
    x = pt.make_placeholder("x", (5, 4), np.float64)
    idx = pt.make_placeholder("idx", (3,), np.int64)
    s = T(0, x * 2)
    g = T(1, s[idx])
    g2 = T(2, s[idx, :2])
    return {"o": g + 1, "p": g2, "q": T(3, s[::-1, 1])}


def p_nested_reductions(T):
    _n, a, b, c = _inputs()
    r = T(0, pt.sum(a * c, axis=1))          # (n,)
    s = T(1, a * pt.expand_dims(r, 1))       # uses a reduction per element
    t = T(2, pt.sum(s, axis=1))              # reduction over reductions
    return {"o": t, "p": T(3, pt.amax(s, axis=1) - r)}


def p_calls(T):
    _n, a, b, c = _inputs()

    def f(x, y):
        # (position 1: an odd position never gets a Named tag -- the body is
        # instantiated twice, and a Named name must be unique)
        return T(1, x * 2) + y

    u = pt.trace_call(f, a, c)
    v = pt.trace_call(f, T(0, u + 1), a)
    d = pt.tag_all_calls_to_be_inlined(pt.transform.deduplicate(
        pt.make_dict_of_named_arrays({"o": T(2, v * b), "p": u})))
    return {k: d[k].expr for k in d}


def p_csr(T):
    vals = pt.make_placeholder("vals", (6,), np.float64)
    cols = pt.make_placeholder("cols", (6,), np.int32)
    rs = pt.make_placeholder("rs", (4,), np.int32)
    x = pt.make_placeholder("x", (5, 2), np.float64)
    # (row starts that are themselves computed: the reduction bounds then
    # read a temporary)
    mat = pt.make_csr_matrix((3, 5), T(4, vals * 2), cols, T(3, rs + 0))
    y = T(0, mat @ T(1, x + 1))
    return {"o": T(2, y * 2)}


def p_tagged_inputs(T):
    # tags on inputs (where allowed), inputs returned as outputs and used
    n = pt.make_size_param("n")
    a = T(0, pt.make_placeholder("a", (n, 4), np.float64))
    w = T(1, pt.make_data_wrapper(np.arange(4.0)))
    s = T(2, a + w)
    return {"a_out": a, "s": s, "t": T(3, s * a)}


PROGRAMS = {"calls": p_calls, "csr": p_csr, "tagged_inputs": p_tagged_inputs, "stack_concat": p_stack_concat, "static": p_static,
            "mixed_dtypes": p_mixed_dtypes,
            "outputs_are_inputs": p_outputs_are_inputs,
            "advanced_index": p_advanced_index,
            "nested_reductions": p_nested_reductions,
            "elementwise": p_elementwise, "reductions": p_reductions,
            "chain": p_chain, "indexing": p_indexing, "einsum": p_einsum,
            "datawrapper": p_datawrapper}
NPOS = {"calls": 3, "csr": 5, "tagged_inputs": 4, "stack_concat": 4, "static": 5, "mixed_dtypes": 5,
        "outputs_are_inputs": 2, "advanced_index": 4, "nested_reductions": 4,
        "elementwise": 4, "reductions": 4, "chain": 4, "indexing": 5,
        "einsum": 3, "datawrapper": 3}


def taggers(tier, npos):
    from pytato.tags import ImplInlined, ImplStored, Named, PrefixNamed
    from pytato.target.loopy import ImplSubstitution
    S, U, I = ImplStored(), ImplSubstitution(), ImplInlined()   # noqa: E741

    def const(tag):
        return lambda k, x: x.tagged(tag)

    def by(seq):
        return lambda k, x: x.tagged(seq[k % len(seq)]) \
            if seq[k % len(seq)] is not None else x

    def user(k, x):
        x = x.tagged(VerifTag(k))
        if x.ndim:
            x = x.with_tagged_axis(0, VerifAxisTag(k))
        if isinstance(x, IndexLambda) and x.var_to_reduction_descr:
            r = sorted(x.var_to_reduction_descr)[0]
            x = x.with_tagged_reduction(r, VerifTag(100 + k))
        return x

    def named(k, x):
        return x.tagged(Named(f"usr_{k}")) if k % 2 == 0 else \
            x.tagged(PrefixNamed(f"pfx{k}"))
    out = {"none": lambda k, x: x, "all-stored": const(S),
           "all-substitution": const(U), "all-inlined": const(I),
           "stored/subst": by([S, U]), "subst/stored": by([U, S]),
           "subst/none/stored": by([U, None, S]),
           "user-tags": user, "named": named,
           "named+stored": lambda k, x: named(k, x).tagged(S),
           # one prefix for everything that is tagged -- inputs included: the
           # generated names must still be pairwise different
           "same-prefix": const(PrefixNamed("w")),
           "same-prefix+stored": lambda k, x: x.tagged(
               PrefixNamed("w")).tagged(S),
           "same-prefix+subst": lambda k, x: x.tagged(
               PrefixNamed("w")).tagged(U),
           # a prefix that is the name of a size parameter / a placeholder
           # of the programs ("n", "a"): user names are reserved first
           "prefix-is-an-input-name": lambda k, x: x.tagged(
               PrefixNamed("n" if k % 2 else "a"))}
    if tier == "thorough":
        for combo in itertools.product([None, S, U, I], repeat=min(npos, 4)):
            out["combo:" + "".join("-" if t is None else type(t).__name__[4]
                                   for t in combo)] = by(list(combo))
    return out

# }}}


def pytato_den(h, arrays, node, ivars):
    from pytato.array import InputArgumentBase
    if isinstance(node, InputArgumentBase):
        f = arrays.fn_for(node, len(ivars))
        return f(*ivars) if ivars else f
    il = node if isinstance(node, IndexLambda) else to_index_lambda(node)
    D = Den(arrays, il.bindings, lambda a: a.shape,
            size_param=size_param_term, cast_identity=True)
    return D.top(il.expr, {f"_{d}": v for d, v in enumerate(ivars)})


@contract
class KernelMeaning(Contract):
    name = "kernel"
    functions = ("pytato.target.loopy.codegen:generate_loopy",
                 "pytato.target.loopy.codegen:CodeGenMapper.*",
                 "pytato.target.loopy.codegen:InlinedExpressionGenMapper.*",
                 "pytato.target.loopy.codegen:add_store",
                 "pytato.target.loopy.codegen:add_substitution",
                 "pytato.target.loopy.codegen:StoredResult.to_loopy_expression",
                 "pytato.target.loopy.codegen:InlinedResult.to_loopy_expression",
                 "pytato.target.loopy.codegen:SubstitutionRuleResult."
                 "to_loopy_expression",
                 "pytato.target.loopy.codegen:domain_for_shape",
                 "pytato.codegen:preprocess",
                 "pytato.codegen:CodeGenPreprocessor.*")
    # (C05: "lowering/preprocessing for code generation" preserves every
    # output -- pytato.codegen.preprocess is the first half of generate_loopy,
    # and what the kernel is validated against is the program before it)
    properties = ("C07", "C01", "C11", "C16", "C05")
    max_paths = 20

    def instances(self, tier):
        out = []
        for prog, npos in NPOS.items():
            for tg in taggers(tier, npos):
                out.append(dict(label=f"{prog};{tg}", prog=prog, tagging=tg))
        return out

    def canaries(self, tier):
        return [(dict(label="chain;all-stored", prog="chain",
                      tagging="all-stored"), "untagged-program-plus-one",
                 "kernel.value", ("C07",)),
                (dict(label="chain;all-stored", prog="chain",
                      tagging="all-stored"), "tight-bounds",
                 "kernel.in-bounds", ("C11",))]

    def run(self, h, inst):
        from pyvc.sym import EngineFault
        try:
            return self._run(h, inst)
        except EngineFault as e:
            # translation validation: a kernel the denotation cannot give a
            # meaning to (one name for two things of different rank, an
            # instruction reading what nothing writes) is rejected -- on the
            # unchanged tree every listed program has a denotation
            h.fail("kernel.wellformed.has-a-denotation", str(e)[:300],
                   props=("C07", "C01", "C15", "C05"))

    def _run(self, h, inst):
        import loopy as lp
        prog = inst["prog"]
        if prog.startswith("random:"):
            seed = int(prog.split(":")[1])
            T = (lambda k, x: x) if inst["tagging"] == "none" else \
                random_tagger(int(inst["tagging"].split(":")[1]), "quick")
            # (as code generation expects: de-duplicated programs)
            def dd(d):
                r = pt.transform.deduplicate(pt.make_dict_of_named_arrays(d))
                return {k: r[k].expr for k in r}
            ref = dd(random_program(seed, lambda k, x: x))
            tagged = dd(random_program(seed, T))
        else:
            T = taggers("thorough" if inst["tagging"].startswith("combo:")
                        else "quick", NPOS[prog])[inst["tagging"]]
            ref = PROGRAMS[prog](lambda k, x: x)         # untagged program
            if prog == "calls":
                # meaning of a program with calls = meaning of the program
                # with the calls inlined (the inliner is under contract, C12)
                rd = pt.inline_calls(pt.make_dict_of_named_arrays(ref))
                ref = {k: rd[k].expr for k in rd}
            tagged = PROGRAMS[prog](T)
        # the two programs are over *equal* inputs: identify them by name
        try:
            bp = h.call(pt.generate_loopy, tagged)
        except EngineSignal:
            raise
        except Exception as e:  # noqa: BLE001
            h.fail("kernel.code-generation-succeeds",
                   f"{type(e).__name__}: {e}", props=("C07", "C01"))
            return
        knl = bp.program.default_entrypoint
        arrays = ArrayModel()
        inputs = {}
        from pytato.transform import InputGatherer
        ref_inputs = {}
        for out_ in ref.values():
            for i in InputGatherer()(out_):
                if isinstance(i, Placeholder):
                    ref_inputs[i.name] = i
                elif isinstance(i, DataWrapper):
                    ref_inputs[id(i.data)] = i
        for arg in knl.args:
            if isinstance(arg, lp.ValueArg):
                continue
            if arg.name in ref_inputs:
                inputs[arg.name] = ref_inputs[arg.name]
        data_by_content = {}
        for o in ref.values():
            for i in InputGatherer()(o):
                if isinstance(i, DataWrapper):
                    data_by_content[i.data.tobytes()] = i
        for name, data in bp.bound_arguments.items():
            dw = data_by_content.get(np.asarray(data).tobytes())
            if dw is not None:
                inputs[name] = dw
        K = KernelDen(knl, arrays, inputs,
                      size_param=lambda nm: z3.Int(f"sp_{nm}"))
        for nm in knl.arg_dict:
            if isinstance(knl.arg_dict[nm], lp.ValueArg):
                h.assume(z3.Int(f"sp_{nm}") >= 0)
        P = ("C07", "C01", "C05")
        # -- well-formedness: every iname is declared by exactly one domain
        #    (a name shared by two loop/reduction domains merges them)
        import islpy as isl
        decl: dict = {}
        for dom in knl.domains:
            for nm in dom.get_var_names(isl.dim_type.set):
                decl[nm] = decl.get(nm, 0) + 1
        twice = sorted(nm for nm, c in decl.items() if c != 1)
        h.oblige("kernel.wellformed.each-iname-declared-by-one-domain",
                 z3.BoolVal(not twice), props=P, info=twice)
        argnames = [a.name for a in knl.args]
        h.oblige("kernel.wellformed.argument-names-unique",
                 z3.BoolVal(len(set(argnames)) == len(argnames)), props=P,
                 info=argnames)
        # arguments, temporaries, inames and substitution rules live in one
        # name space of the kernel: a name used for two of them denotes two
        # things (an input read where a temporary was meant, ...)
        groups = dict(argument=set(argnames),
                      temporary=set(knl.temporary_variables),
                      iname=set(decl), rule=set(knl.substitutions))
        clash = sorted(
            (nm, a_, b_) for a_ in groups for b_ in groups if a_ < b_
            for nm in groups[a_] & groups[b_])
        h.oblige("kernel.wellformed.one-name-one-thing", z3.BoolVal(not clash),
                 props=(*P, "C15"), info=clash)
        # -- outputs: names, shapes, dtypes
        outs = {a.name for a in knl.args if getattr(a, "is_output", False)}
        h.oblige("kernel.outputs.names", z3.BoolVal(outs == set(ref)),
                 props=P, info=sorted(outs))
        for name, expr in sorted(ref.items()):
            if name not in knl.arg_dict:
                continue
            arg = knl.arg_dict[name]
            h.oblige(f"kernel.outputs.dtype[{name}]", z3.BoolVal(
                arg.dtype.numpy_dtype == expr.dtype), props=P)
            kshape = K.shape_terms(name)
            if len(kshape) != expr.ndim:
                h.fail(f"kernel.outputs.rank[{name}]", "rank differs",
                       props=P)
                continue
            for d, (ks, es) in enumerate(zip(kshape, expr.shape, strict=True)):
                h.oblige(f"kernel.outputs.shape[{name}][{d}]",
                         ks == shape_term(es), props=(*P, "C16"))
            ivars = [z3.Int(f"i{d}") for d in range(expr.ndim)]
            box = in_box(ivars, expr.shape)
            try:
                got = K.output(name, ivars)
            except OutsideSubset:
                raise
            want = pytato_den(h, arrays, expr, ivars)
            if h.canary == "untagged-program-plus-one" and z3.is_expr(want):
                want = want + 1
            oblige_equal_den(h, f"kernel.value[{name}]", box, got, want,
                             props=(*P, "C16"))
        # -- per instruction: in-bounds, dependencies; per variable: covers
        for insn in knl.instructions:
            _env, box, sh = K.instruction(insn)
            for k_, acc in enumerate([*sh.accesses, *sh.input_accesses]):
                vname = acc.name
                shp = sh.shape_terms(vname)
                for d, (idx, hi) in enumerate(zip(acc.indices, shp,
                                                  strict=True)):
                    if sh.is_data_dependent(idx):
                        # data-dependent index (advanced indexing): validity
                        # of the index *values* is the caller's obligation
                        continue
                    if h.canary == "tight-bounds":
                        hi = hi - 1
                    h.oblige(
                        f"kernel.in-bounds[{insn.id}:{vname}#{k_}.{d}]",
                        z3.Implies(z3.And(box, acc.guard),
                                   z3.And(idx >= 0, idx < hi)),
                        props=("C11", "C07"))
            need = {K.writer(v).id for v in sh.reads.get(insn.id, ())
                    if v in K.writers}
            missing = sorted(need - K.deps(insn.id) - {insn.id})
            h.oblige(f"kernel.deps[{insn.id}]", z3.BoolVal(not missing),
                     props=P, info=missing)
        for vname in K.writers:
            w = K.writer(vname)
            winames = K.writer_indices(w)
            shp = K.shape_terms(vname)
            env = {i: z3.Int(i) for i in sorted(w.within_inames)}
            for d, iname in enumerate(winames):
                lo, hi = K.iname_bounds(iname, env, w)
                h.oblige(f"kernel.covers[{vname}][{d}]",
                         z3.Or(z3.And(lo == 0, hi == shp[d]),
                               # empty axis: nothing to write
                               z3.And(shp[d] == 0, hi <= lo)), props=P)


@contract
class KernelOrderIndependence(Contract):
    name = "kernel.order"
    functions = ("pytato.target.loopy.codegen:generate_loopy",
                 "pytato.codegen:preprocess",
                 "pytato.target.loopy.codegen:CodeGenMapper."
                 "map_dict_of_named_arrays")
    properties = ("C01", "C17")
    max_paths = 20

    def instances(self, tier):
        return [dict(label=f"{p};{o}", prog=p, order=o)
                for p in PROGRAMS for o in ("reversed", "rotated")]

    def canaries(self, tier):
        return [(dict(label="chain;reversed", prog="chain", order="reversed"),
                 "compare-with-another-program", "kernel.order.")]

    @staticmethod
    def observe(bp):
        from pyvc.det_programs import observe_kernel
        return observe_kernel(bp)

    def run(self, h, inst):
        prog = inst["prog"]
        ident = lambda k, x: x   # noqa: E731
        outs = PROGRAMS[prog](ident)
        names = list(outs)
        if inst["order"] == "reversed":
            names2 = names[::-1]
        else:
            names2 = names[1:] + names[:1]
        outs2_all = PROGRAMS[prog](ident)
        if h.canary:
            outs2_all = PROGRAMS["elementwise" if prog != "elementwise"
                                 else "chain"](ident)
            names2 = list(outs2_all)
        outs2 = {k: outs2_all[k] for k in names2}
        try:
            o1 = self.observe(h.call(pt.generate_loopy, outs))
            o2 = self.observe(h.call(pt.generate_loopy, outs2))
        except EngineSignal:
            raise
        except Exception as e:  # noqa: BLE001
            h.fail("kernel.order.code-generation-succeeds",
                   f"{type(e).__name__}: {e}")
            return
        diff = None
        if o1 != o2:
            for part, (x, y) in enumerate(zip(o1, o2, strict=True)):
                if x != y:
                    diff = f"part {part}: {x!r:.200} vs {y!r:.200}"
                    break
        h.oblige("kernel.order.same-kernel-for-every-output-order",
                 z3.BoolVal(o1 == o2), info=diff)

    def replay(self, inst, clause, model, info):
        return ORDER_REPLAY.format(prog=inst["prog"], order=inst["order"])


ORDER_REPLAY = '''
import sys
sys.path.insert(0, "/verif"); sys.path.append("/verif/.deps")
import pytato as pt
from pyvc.replaylib import reproduced, not_reproduced
from contracts.c07_kernel import PROGRAMS, KernelOrderIndependence as K
prog, order = {prog!r}, {order!r}
ident = lambda k, x: x
outs = PROGRAMS[prog](ident)
names = list(outs)
names2 = names[::-1] if order == "reversed" else names[1:] + names[:1]
o2all = PROGRAMS[prog](ident)
o1 = K.observe(pt.generate_loopy(outs))
o2 = K.observe(pt.generate_loopy({{k: o2all[k] for k in names2}}))
if o1 != o2:
    for x, y in zip(o1, o2):
        if x != y:
            reproduced(f"kernels differ for output orders {{names}} / {{names2}}:\\n  {{x!r:.300}}\\n  {{y!r:.300}}")
not_reproduced("same kernel for both output orders")
'''


# {{{ random DAGs (C01's "all DAGs over ..." approximated by seeded sampling)

def random_program(seed, T):
    """A random DAG with sharing over the inputs a,c:(n,4) b:(4,) m:(4,4);
    6..12 operations drawn from the element-wise / reduction / einsum /
    indexing / joining repertoire; 1..3 outputs.  Deterministic in *seed*."""
    import random
    rnd = random.Random(seed)
    n = pt.make_size_param("n")
    a = pt.make_placeholder("a", (n, 4), np.float64)
    c = pt.make_placeholder("c", (n, 4), np.float64)
    b = pt.make_placeholder("b", (4,), np.float64)
    m = pt.make_placeholder("m", (4, 4), np.float64)
    pool = {"n4": [a, c], "4": [b], "44": [m], "n": [], "4n": [], "n2": [],
            "s": []}
    made = []

    def pick(kind):
        return rnd.choice(pool[kind]) if pool[kind] else None

    def add(kind, x):
        x = T(len(made), x)
        pool[kind].append(x)
        made.append((kind, x))
    nops = rnd.randint(6, 12)
    tries = 0
    while len(made) < nops and tries < 200:
        tries += 1
        op = rnd.choice(["add", "mul", "sub", "scal", "bcast", "where", "max",
                         "sin", "exp", "sumr", "maxr", "mat", "mv", "roll",
                         "tr", "slice", "concat", "stack0", "outer", "sumn",
                         "addn", "sum4n", "neg", "cmpwhere"])
        x, y = pick("n4"), pick("n4")
        if op == "add":
            add("n4", x + y)
        elif op == "mul":
            add("n4", x * y)
        elif op == "sub":
            add("n4", x - y)
        elif op == "scal":
            add("n4", x * rnd.choice([2, 0.5, -3]) + rnd.choice([1, 2.5]))
        elif op == "bcast":
            add("n4", x + pick("4"))
        elif op == "where":
            add("n4", pt.where(pt.greater(x, y), x, y * 2))
        elif op == "cmpwhere":
            add("n4", pt.where(pt.logical_and(pt.less(x, 1), pt.greater(y, 0)),
                               x, 0.0))
        elif op == "max":
            add("n4", pt.maximum(x, y))
        elif op == "sin":
            add("n4", pt.sin(x))
        elif op == "exp":
            add("n4", pt.exp(x) if rnd.random() < 0.5 else pt.abs(x))
        elif op == "neg":
            add("n4", -x)
        elif op == "sumr":
            add("n", pt.sum(x, axis=1))
        elif op == "maxr":
            add("n", pt.amax(x, axis=1))
        elif op == "mat":
            add("n4", x @ pick("44"))
        elif op == "mv":
            add("n", x @ pick("4"))
        elif op == "roll":
            add("n4", pt.roll(x, rnd.choice([1, -1, 2]), axis=1))
        elif op == "tr":
            add("4n", pt.transpose(x))
        elif op == "slice":
            add("n2", x[:, rnd.choice([slice(1, 3), slice(0, 4, 2),
                                       slice(3, 1, -1)])])
        elif op == "concat" and pool["n2"]:
            add("n4", pt.concatenate([pick("n2"), pick("n2")], axis=1))
        elif op == "stack0":
            add("44", pt.stack([pick("4"), pick("4"), pick("4"), pick("4")]))
        elif op == "outer" and pool["n"]:
            add("n4", pt.einsum("i,j->ij", pick("n"), pick("4")))
        elif op == "sumn" and pool["n"]:
            add("n", pick("n") + pick("n") * 2)
        elif op == "addn" and pool["n"]:
            add("n4", x + pt.expand_dims(pick("n"), 1))
        elif op == "sum4n" and pool["4n"]:
            add("n", pt.sum(pick("4n"), axis=0))
    nout = rnd.randint(1, 3)
    cands = [x for _k, x in made]
    outs = {}
    for i in range(nout):
        outs[f"out{i}"] = cands[-1 - i] if i < len(cands) else cands[0]
    return outs


def random_tagger(seed, tier):
    import random

    from pytato.tags import ImplInlined, ImplStored
    from pytato.target.loopy import ImplSubstitution
    rnd = random.Random(seed * 7919 + 13)
    choice = {}

    def T(k, x):
        if k not in choice:
            choice[k] = rnd.choice([None, None, ImplStored(),
                                    ImplSubstitution(), ImplInlined()])
        return x if choice[k] is None else x.tagged(choice[k])
    return T


def _install_random():
    import os
    base_seed = int(os.environ.get("VERIF_SEED", "1") or 1)

    class RandomKernels(KernelMeaning):
        name = "kernel.random"
        max_paths = 20

        def instances(self, tier):
            k = 48 if tier != "thorough" else 400
            out = []
            for i in range(k):
                s = base_seed * 100000 + i
                out.append(dict(label=f"seed={s};untagged", prog=f"random:{s}",
                                tagging="none"))
                out.append(dict(label=f"seed={s};random-tags",
                                prog=f"random:{s}", tagging=f"random:{s}"))
            return out

        def canaries(self, tier):
            return []
    contract(RandomKernels)


_install_random()

# }}}


# {{{ the one tag that is a promise: AssumeNonNegative

def _install_assume_nonnegative():
    """C07 for ``AssumeNonNegative``: with the promise kept (premise: tagged
    index arrays hold values in [0, n)), the lowered index expression denotes
    NumPy's indexing -- i.e. what the untagged program denotes -- also when
    *other* index arrays of the same expression are untagged and negative.
    The instances are those of the C02 advanced-index contracts that carry
    the tag."""
    from contracts import c02_lowering as c02

    def variant(base, vname, contiguous):
        class V(base):
            name = vname
            properties = ("C07",)
            props_for_all_clauses = ("C07",)

            def instances(self, tier):
                out, per = [], {}
                for i in c02.adv_instances("thorough", contiguous):
                    if not any(k == "arrnn" for k in i["kinds"]):
                        continue
                    if tier != "thorough":
                        # two or three index entries, fully symbolic slices,
                        # three broadcast patterns per combination
                        key = tuple(i["kinds"])
                        if len(key) > 2 + (not contiguous) or "s000" in key \
                                or "int" in key or per.get(key, 0) >= 3:
                            continue
                        per[key] = per.get(key, 0) + 1
                    elif len(i["kinds"]) > 3:
                        continue
                    out.append(dict(i, label=i["label"] + ";promise-kept"))
                return out

            def canaries(self, tier):
                return []
        V.__name__ = V.__qualname__ = "AssumeNonNegative" + base.__name__
        return contract(V)
    variant(c02.LowerContiguousAdvancedIndex,
            "tags.assume-nonnegative.contiguous", True)
    variant(c02.LowerNonContiguousAdvancedIndex,
            "tags.assume-nonnegative.non-contiguous", False)


_install_assume_nonnegative()

# }}}
