"""Per-property metadata that goes into the evidence files."""

GLOBAL_TRUSTED = [
    "z3 (z3-solver 5.1.0 wheel); cvc5 1.0.3 CLI for z3 unknowns",
    "pyvc itself: AST interpreter, symbolic scalars, path explorer, VC "
    "generator (guarded by canaries, CPython differential, mutant self-test)",
    "index-lambda semantics as defined in pyvc/den.py is what code generation "
    "implements",
    "library code called natively on symbolic values: pymbolic expression "
    "constructors, constantdict, pytools (UniqueNameGenerator, Taggable), "
    "dataclasses, numpy dtype objects",
]

GLOBAL_ASSUMPTIONS = [
    "Python ints (and NumPy integer scalars used as sizes/indices) are "
    "mathematical integers",
    "decorators memoize_method / cached_property are transparent (pure "
    "methods)",
    "__debug__ is True (asserts live), as under the test suite",
    "structure (ranks, tuple lengths, operand counts, index kinds) is "
    "enumerated up to the stated bound; inside an instance every obligation "
    "is proved for all integer values",
]

PROPERTIES = {}
EXTRAS = {}


def prop(pid, **kw):
    PROPERTIES[pid] = kw


prop("C02",
     level="proof",
     level_text=(
         "Deductive proof, per node kind and structural instance, that the "
         "index lambda returned by the real to_index_lambda denotes NumPy's "
         "definition for ALL axis lengths, shifts, slice parameters and "
         "output indices (z3 over unbounded integers); structure is "
         "enumerated within the property's own scope."),
     level_note=(
         "Trusted: z3, the pyvc interpreter/VC generator, the index-lambda "
         "semantics of pyvc/den.py, NumPy-definition spec functions "
         "(validated against NumPy on samples), pymbolic constructors run "
         "natively. Reshape is proved on concrete shapes only (bounded in "
         "shape, symbolic in indices)."),
     technique="contract-based deductive verification: symbolic execution of "
               "the real source to per-path VCs, discharged by z3",
     design_ref="DESIGN.md §6 C02",
     explanation=(
         "Every high-level node kind is built through its public constructor "
         "(source interpreted), lowered with the real to_index_lambda "
         "(source interpreted) on symbolic axis lengths/shifts/slice "
         "parameters, and the denotation of the returned expression is "
         "proved equal to NumPy's definition for all output indices; shape, "
         "dtype, axes, tags proved equal to the node's."),
     structural_bound=(
         "rank<=3 quick / <=4 thorough; <=3 operands; index tuples of "
         "length<=2 quick / <=3 thorough; reshape on concrete shapes with "
         "axes 0..3 (quick) / 0..5 (thorough); einsum specs from a generated "
         "list"),
     trusted_base=["NumPy-definition spec functions in contracts/"
                   "c02_lowering.py (validated against NumPy on samples: "
                   "slice and //,% definitions on a grid by "
                   "contracts/specgrid.py; every other spec transitively, by "
                   "the sampled replays -- real code vs NumPy on premise "
                   "models of proved obligations)"],
     assumptions=["exact (ring) arithmetic for einsum/CSR values"],
     unverified_surroundings=[
         "pymbolic's construction of expression objects",
         "that loopy code generation gives the expression the meaning of "
         "pyvc/den.py (C01 back half)"])

prop("C11",
     level="proof",
     level_text=(
         "Deductive proof at the IndexLambda level: for every node kind and "
         "every expression-producing public function in scope, every affine "
         "or quasi-affine array subscript of the produced expression lies "
         "within the accessed array's bounds for ALL axis lengths, parameters "
         "and iteration points, under the conjunction of the If-guards it "
         "sits under (z3 over unbounded integers)."),
     level_note=(
         "Decided on the index lambdas pytato itself builds (where its index "
         "arithmetic lives); loopy's translation of domains and subscripts "
         "to C loops and the reduction-bound temporaries of CodeGenMapper are "
         "trusted, not verified. Data-dependent subscripts (index arrays, CSR "
         "row pointers) are excluded as the property states; the inner access "
         "into the index array is checked."),
     technique="contract-based deductive verification: symbolic execution of "
               "the real source to per-path VCs, discharged by z3",
     design_ref="DESIGN.md §6 C11",
     explanation=(
         "Same runs as C02 plus the expression builders with guards (pad, "
         "broadcasting, where, reductions, eye, arange): the denotation walk "
         "records every Subscript with its guard stack; one VC per access "
         "component."),
     structural_bound="as C02; builders: rank<=3, <=3 operands",
     trusted_base=["loopy's code generation from IndexLambda to loops "
                   "(domain_for_shape result is used as is)"],
     assumptions=["iteration domain of an IndexLambda is the box of its shape "
                  "and the half-open boxes of its reduction bounds"],
     unverified_surroundings=[
         "pytato.target.loopy.codegen (CodeGenMapper, InlinedExpressionGenMapper, "
         "domain_for_shape) and loopy itself"])

prop("C04",
     level="proof",
     level_text=(
         "Deductive proof per node kind, for all field values: the hand-"
         "written equality method returns True only if EVERY dataclass field "
         "(taken by reflection from the running classes) is related and "
         "False only if some field differs; the generated hash reads only "
         "equality-related fields; pickling state is the field list; the "
         "dispatcher/memo of EqualityComparer.rec obeys its contract."),
     level_note=(
         "Fields hold opaque symbolic values (== is a z3 atom), children are "
         "opaque arrays related by an uninterpreted congruence R; tuple/dict "
         "fields are enumerated in length/key-set (0..3 entries). Reflexivity/"
         "symmetry/transitivity and 'rebuilt copy equals original' follow "
         "from the iff-characterisation by the induction of DESIGN Appendix "
         "A.3 (argued, not machine-checked). CPython pickle transport and "
         "content-hashing of tuple/frozenset/constantdict are trusted."),
     technique="contract-based deductive verification: symbolic execution of "
               "the real equality/hash source over a reflective data model, "
               "VCs discharged by z3",
     design_ref="DESIGN.md §6 C04",
     explanation="see contracts/c04_equality.py docstring",
     structural_bound="tuple/mapping fields with 0..3 entries, equal and "
                      "unequal lengths, differing key sets, differing entry "
                      "kinds",
     trusted_base=["hash of tuple/frozenset/constantdict is content-based",
                   "dataclasses.fields reflects the data model"],
     assumptions=["R (child equality) is a congruence for tags/axes/shape/"
                  "dtype (induction hypothesis)"],
     unverified_surroundings=["CPython pickle", "pymbolic expression "
                              "equality (expr field)"])

prop("C13",
     level="proof",
     level_text=(
         "Deductive proof per (mapper class, node kind): the real map_* "
         "source, interpreted on a node whose children are opaque arrays, "
         "invokes the recursion on every declared array child (data model by "
         "reflection) and, for transformations, returns its argument itself "
         "when nothing changed; every rec/cache implementation satisfies its "
         "memoisation contract for arbitrary (symbolically equal or unequal) "
         "keys, including reporting key collisions; the mapper cloned for a "
         "function body reports at least what its parent reports (all four "
         "combinations of the two switches); the real Mapper.rec look-up "
         "resolves a method for every general-purpose mapper x node kind."),
     level_note=(
         "The whole-graph statements (once per node, one result per shared "
         "node, no more distinct results than inputs) follow from these "
         "per-function contracts by the DAG inductions of DESIGN Appendix "
         "A.1 (machine-checked in Lean 4, lemmas/Memo.lean, thorough tier) and A.2 (argued on paper). Collections are enumerated with 0..3 "
         "entries. Mapper constructors and pymbolic's optimize_mapper output "
         "run as they are (the generated source is what is interpreted)."),
     technique="contract-based deductive verification: symbolic execution of "
               "the real mapper methods over a reflective data model with "
               "recursion replaced by its contract",
     design_ref="DESIGN.md §6 C13",
     explanation="see contracts/c13_mappers.py and contracts/c13_caches.py",
     structural_bound="every structural mapper class x every node kind; "
                      "tuple/mapping fields with 2-3 entries incl. mixed "
                      "int/array shape and index entries",
     trusted_base=["dataclasses.fields reflects the data model",
                   "dict/set semantics of CPython for hash-0 keys"],
     assumptions=["composition lemma A.2 (paper); A.1 is checked by Lean in "
                  "the thorough tier"],
     unverified_surroundings=["mappers with bespoke state not in the "
                              "structural list (code generation mappers, "
                              "visualization)"])

prop("C05",
     level="proof",
     level_text=(
         "Deductive proof per transformation method: with the recursion "
         "replaced by its contract (children map to value-equal images), the "
         "real map_* source returns the homomorphic image of the node (same "
         "class, every array child the image of the corresponding child, "
         "every other field equal), so the value is preserved by congruence; "
         "the input node, its nested records and its tuple/dict objects are "
         "not written; tag-adding operations change tags only; dead-code "
         "elimination rewrites exactly pytato.zero lambdas. In addition "
         "(contract transform.value, translation validation): every public "
         "pass is run on seeded random DAGs and special programs and its "
         "output is proved (z3, all sizes, inputs and indices) to denote "
         "what the program as written denotes, with names, shapes and dtypes "
         "kept, only the program's inputs read and the input graph unchanged."),
     level_note=(
         "Value preservation is over the congruence 'a node's value is a "
         "function of its class, its non-array fields and its children's "
         "values' (trusted meaning of nodes; lowering itself is C02). "
         "Idempotence of deduplicate/DCE/MPMS is checked per sampled program "
         "(transform.idempotent: the pass applied to its own output returns "
         "a structurally equal graph with the same stored nodes -- executed, "
         "not deduced); whole-graph statements follow by the induction of "
         "DESIGN Appendix A.4 (paper). "
         "unify_axes_tags' equation solving and AxesTagsEquationCollector are "
         "not verified (they only choose which tags are added)."),
     technique="contract-based deductive verification: symbolic execution of "
               "the real transformation methods with recursion replaced by "
               "its contract",
     design_ref="DESIGN.md §6 C05",
     explanation="see contracts/c05_transforms.py, c13_caches.py",
     structural_bound="every copy-family mapper x node kind; all children "
                      "changed / exactly one child changed / none",
     trusted_base=["dataclasses.replace", "Taggable.tagged of pytools"],
     assumptions=["[[image(c)]] = [[c]] for every child (induction "
                  "hypothesis)"],
     unverified_surroundings=["pytato.transform.metadata (unify_axes_tags "
                              "solver)", "MPMSMaterializer.map_* bookkeeping "
                              "beyond _materialize_if_mpms"])

prop("C20",
     level="proof",
     level_text=(
         "Deductive proof per node kind, for arbitrary (opaque) children: the "
         "three users/predecessor implementations record the same collection "
         "for a node; every traversal reaches all declared children and "
         "post-visits after them (=> topological order); counters add exactly "
         "one per first visit with the right key; the materialised-node "
         "predicate is exactly the documented set; TagCountMapper counts a "
         "node iff it carries a tag of every requested type (leaf x tag-set "
         "x query table, and a whole graph with shared nodes and a size "
         "parameter); every general-purpose mapper resolves a method for "
         "every node kind through the real Mapper.rec look-up "
         "(mappers.dispatch)."),
     level_note=(
         "Whole-graph statements (counts equal number of distinct nodes, "
         "topological order) follow by the inductions of DESIGN Appendix "
         "A.1/A.5 (machine-checked in Lean 4, lemmas/Memo.lean, thorough tier) from the per-function contracts. Shapes of the "
         "children are enumerated as integer-valued and as array-valued "
         "(size-parameter) shapes."),
     technique="contract-based deductive verification: symbolic execution of "
               "the real analysis mappers over a reflective data model",
     design_ref="DESIGN.md §6 C20",
     explanation="see contracts/c20_analysis.py, c13_mappers.py, "
                 "c13_caches.py",
     structural_bound="every node kind; 2-3 entries per collection field; "
                      "int and array-valued child shapes",
     trusted_base=["dataclasses.fields reflects the data model"],
     assumptions=["the Lean model of lemmas/Memo.lean (memoisation contract "
                  "+ child coverage over an abstract DAG) is what the "
                  "per-node contracts establish"],
     unverified_surroundings=["_recursively_get_all_users (queue loop)"])

prop("C01",
     level="proof",
     level_text=(
         "PARTIAL claim: (1) deductive proof that every expression-building "
         "public function (operators with broadcasting and scalars both ways, "
         "comparisons, logical ops, where/maximum/minimum, math functions, "
         "astype, reductions over every axis subset, full/zeros/eye, pad, "
         "broadcast_to, matmul/dot/vdot) and every lowering rule (C02) "
         "returns an IndexLambda whose denotation is NumPy's pointwise "
         "definition for ALL operand values, axis lengths and indices; (2) "
         "per listed program (translation validation, contract 'kernel'): "
         "the loopy kernel the real generate_loopy returns denotes the "
         "program for all sizes, inputs and indices."),
     level_note=(
         "NOT decided: that loopy (preprocessing, scheduling, C generation), "
         "the C compiler and the run time execute the kernel's documented "
         "meaning; that code generation never fails for programs outside the "
         "listed ones. Exact arithmetic: casts to the result dtype are read "
         "as identity; floating-point rounding out of scope."),
     technique="contract-based deductive verification: symbolic execution of "
               "the real source to per-path VCs, discharged by z3",
     design_ref="DESIGN.md §6 C01",
     explanation="see contracts/c01_builders.py and c02_lowering.py",
     structural_bound="rank<=3, <=3 operands, the listed broadcast patterns",
     trusted_base=["index-lambda semantics (pyvc/den.py)",
                   "NumPy-definition spec functions in the contracts"],
     assumptions=["exact arithmetic; casts value-preserving; no overflow"],
     unverified_surroundings=[
         "loopy, the C compiler, pyopencl (below the kernel pytato builds); "
         "pytato.target.loopy.codegen beyond the listed programs"])

prop("C03",
     level="proof",
     level_text=(
         "Deductive proof for shapes: every constructor / operator that "
         "returns normally was accepted by NumPy's rule (broadcasting, axis "
         "range, index range) and its eagerly inferred .shape equals NumPy's "
         "for ALL axis lengths and parameters, with .shape/.ndim evaluated in "
         "the same run (rejected when built, not later). Dtypes: the plumbing "
         "is covered by an exhaustive finite run-time contract against NumPy "
         "itself over the property's complete dtype x operator x scalar-kind "
         "product (bounded stand-in, not counted as proved)."),
     level_note=(
         "Over-rejection by pytato is allowed by the statement and not "
         "flagged. NumPy's accept/shape rules are spec functions written from "
         "its documentation and validated against NumPy on samples. The "
         "dtype table is NumPy's C code: executed, not deduced."),
     technique="contract-based deductive verification (shapes) + exhaustive "
               "finite run-time contract against NumPy (dtypes, bounded)",
     design_ref="DESIGN.md §6 C03",
     explanation="see contracts/c01_builders.py, c02_lowering.py, "
                 "c03_validation.py, c03_dtypes.py",
     structural_bound="rank<=3; every axis argument in [-ndim-1, ndim+1]",
     trusted_base=["NumPy itself as dtype oracle (installed version)"],
     assumptions=[],
     unverified_surroundings=["numpy.result_type / promote_types (C code)"])


def _c03_dtypes(tier, seed):
    from contracts.c03_dtypes import dtype_table
    return dtype_table(tier, seed)


EXTRAS.setdefault("C03", []).append(_c03_dtypes)

prop("C19",
     level="proof",
     level_text=(
         "Deductive proof: for every index lambda the public API produces "
         "and for hand-built near-misses of every expression head the matcher "
         "inspects x every operand class, whatever "
         "index_lambda_to_high_level_op returns denotes (NumPy meaning of the "
         "operation on the identified operands, broadcast) the same pointwise "
         "function as the lambda for ALL indices, axis lengths and operand "
         "values; API-produced lambdas are recognised with operands in the "
         "producer's order; anything else raises UnknownIndexLambdaExpr and "
         "no other exception."),
     level_note=(
         "Non-commutative operations are uninterpreted functions, so operand "
         "order matters. Casts that NumPy's own promotion performs "
         "(promote_types(src, dst) == dst) are read as identity; every other "
         "cast (astype away from the operand's dtype) is an uninterpreted "
         "function, so an operation that ignores it is refuted. The case "
         "analysis over term heads is complete for the matcher's bounded "
         "look-ahead; operand ranks 0..2."),
     technique="contract-based deductive verification: symbolic execution of "
               "the real raiser + denotational equivalence VCs (z3)",
     design_ref="DESIGN.md §6 C19",
     explanation="see contracts/c19_raising.py",
     structural_bound="operand rank 0..2; 17 heads x 9 operand classes "
                      "(pairs); reductions with 9 bound/shape/permutation "
                      "variants; astype for 5 dtype pairs",
     trusted_base=["index-lambda semantics (pyvc/den.py)"],
     assumptions=["exact arithmetic; promotion casts value-preserving"],
     unverified_surroundings=[])

prop("C06",
     level="proof",
     level_text=(
         "Deductive proof over an abstract value semantics (einsum with one "
         "open operand slot is a linear map; nothing else is assumed "
         "algebraic): every map_* of the distributive-law mapper satisfies "
         "[[result]] = L_ctx([[x]]) given the same for its recursive calls, "
         "for every binary operation x operand kind x position and every "
         "answer of the distribution policy; the no-broadcast rewrite is "
         "proved value-preserving through the verified lowering for all axis "
         "lengths and indices."),
     level_note=(
         "Exact (ring) arithmetic: floating-point reassociation is out of "
         "scope. Linearity of einsum in one operand is an axiom (its "
         "definition). The whole-expression statement follows by structural "
         "induction (DESIGN Appendix A.6, paper). The raiser used at the call "
         "site is the C19 contract. Whole programs (contract einsum.programs: "
         "seeded random DAGs, shared broadcast operands, constant-filled "
         "summands): the no-broadcast rewrite is proved per program by z3 "
         "(all sizes, inputs, indices); the distributive law on whole "
         "programs is a BOUNDED stand-in (both graphs evaluated on sampled "
         "inputs at three sizes) because linearity of an uninterpreted "
         "reduction is outside the pointwise denotation."),
     technique="contract-based deductive verification: symbolic execution of "
               "the real rewriter + VCs over uninterpreted linear maps (z3 "
               "with quantified linearity axioms) / denotational equality",
     design_ref="DESIGN.md §6 C06",
     explanation="see contracts/c06_einsum.py",
     structural_bound="19 operand forms x {inside/outside a distribution "
                      "context}; einsums with 1..3 operands, every policy "
                      "answer; no-broadcast: einsum specs over <=2 letters "
                      "with every single unit axis and all-unit",
     trusted_base=["einsum is multilinear (axiom)", "node value is a "
                   "congruence of kind/parameters/children values"],
     assumptions=["exact arithmetic"],
     unverified_surroundings=[])

prop("C12",
     level="proof",
     level_text=(
         "Deductive proof per function: trace_call (every mixture of up to 3 "
         "positional/keyword arguments x the three return conventions) builds "
         "a definition whose parameter set, placeholder names and binding "
         "names coincide with each binding being the argument itself; the "
         "placeholder substitutor never recurses into a substitution (no "
         "capture); the inliner replaces parameters by bindings, passes the "
         "result through its own recursion, keeps names and tags; one clone "
         "(name space) per function body. In addition (contract "
         "calls.programs, translation validation): for listed programs -- one "
         "definition called several times with the same arrays in different "
         "parameter positions, call sites producing equal sub-expressions, "
         "caller and body sharing placeholder names, nested calls, keyword "
         "arguments, the three return conventions -- the call-free graph "
         "returned by the real inline_calls is proved (z3, all input values "
         "and indices) to denote what applying the Python functions directly "
         "denotes."),
     level_note=(
         "Value preservation of inlining follows from these contracts plus "
         "the copy-mapper contracts (C05) by congruence; arguments are opaque "
         "arrays, bodies are small real expressions over the parameter "
         "placeholders. Nesting depth and repeated call sites in general "
         "follow by the induction over the call structure (paper); the "
         "listed whole programs exercise them concretely. clone_for_callee "
         "cache separation and the propagation of the collision-reporting "
         "switches is contracts/c13_caches.py."),
     technique="contract-based deductive verification: symbolic execution of "
               "the real outlining/inlining source with recursion replaced by "
               "its contract",
     design_ref="DESIGN.md §6 C12",
     explanation="see contracts/c12_calls.py",
     structural_bound="n+m <= 3 arguments; 2 parameters / 2 results in the "
                      "inliner instances; 6 whole programs with 2-3 call "
                      "sites, nesting depth 2",
     trusted_base=[], assumptions=[],
     unverified_surroundings=["deduplicate() after inlining (C05/C13 "
                              "contracts)"])

prop("C14",
     level="proof",
     level_text=(
         "Deductive proof per emitted program family: the ast statements the "
         "real NumpyCodegenMapper emits are interpreted under NumPy's "
         "semantics (np.<f> := the pytato constructor proved in C01-C03 to "
         "denote NumPy's definition) and the resulting expression is proved "
         "to denote the same pointwise function as the source program for "
         "ALL axis lengths, shifts, slice parameters and indices; every "
         "array-module attribute referred to exists in the installed NumPy; "
         "unsupported constructs raise NotImplementedError; argument "
         "collection / pre-binding of wrapped data follows its contract."),
     level_note=(
         "The meaning of emitted NumPy calls rests on C01/C02/C03 (pytato "
         "constructors = NumPy definitions) -- a composition, stated here. "
         "ast.unparse/exec of the final module text is CPython (trusted); "
         "the statements are taken before unparsing. dtype of results is not "
         "part of this proof (exact arithmetic)."),
     technique="contract-based deductive verification: symbolic execution of "
               "the real emitter, emitted AST interpreted under a verified "
               "NumPy model, denotational equality VCs (z3)",
     design_ref="DESIGN.md §6 C14",
     explanation="see contracts/c14_numpy.py",
     structural_bound="every node kind the target supports at rank<=3, every "
                      "slice None-pattern, all API-produced index lambdas "
                      "(0-d operands included), +-inf/nan constants, 8 "
                      "hand-built reduction lambdas around the normal form; "
                      "6 unsupported constructs",
     trusted_base=["ast.unparse + exec (CPython)", "C01/C02/C03 as the NumPy "
                   "model"],
     assumptions=["exact arithmetic; dtypes not compared"],
     unverified_surroundings=["pytato.target.python.jax (needs JAX)"])

prop("C15",
     level="proof",
     level_text=(
         "Deductive proof over the name generator's contract (fresh names are "
         "outside its set; add reserves): the real generate_loopy / "
         "preprocess / _generate_name_for_temp source, interpreted, reserves "
         "every user-chosen name (inputs, size parameters, output keys) in a "
         "generator before that generator hands out a colliding-capable "
         "name; a Named tag yields exactly its name and reserves it or "
         "raises; a second input object with a seen name raises "
         "NameClashError; placeholders keep their names; wrapped data objects "
         "are pre-bound unmodified."),
     level_note=(
         "Freedom from collisions for ALL user namings follows from the "
         "generator contract plus the proved event order, because no branch "
         "of the code depends on the spelling of a user name other than "
         "through the generator (parametricity in names -- argued). The event "
         "traces are those of six program shapes covering every naming site "
         "(temporaries, substitutions, data wrappers, reductions, size "
         "parameters, outputs that are inputs). Names loopy invents itself "
         "(accumulators, make_reduction_inames_unique) are checked only for "
         "pairwise distinctness on the generated kernels of those shapes."),
     technique="contract-based deductive verification: event-order "
               "obligations on the trace of the interpreted real source under "
               "an assumed generator contract",
     design_ref="DESIGN.md §6 C15",
     explanation="see contracts/c15_names.py",
     structural_bound="six program shapes x the adversarial name set of the "
                      "property (temp_0, pt_temp, x_dim0, acc_x, acc_o, ...)",
     trusted_base=["pytools.UniqueNameGenerator satisfies its contract",
                   "loopy's own name generation"],
     assumptions=["parametricity of the code in user names"],
     unverified_surroundings=["loopy (make_reduction_inames_unique, "
                              "accumulator names)"])

prop("C18",
     level="proof",
     level_text=(
         "Deductive information-flow proof of the pytato-owned feeders of the "
         "persistent key: for two arbitrary (symbolic) ndarrays, equal "
         "streams fed to the hash imply equal contents, shape and dtype, and "
         "the stream does not depend on memory layout or address; reduction "
         "operations feed their (process-stable) type; no node dataclass "
         "field other than non_equality_tags is excluded from the generic "
         "field walk and no node class overrides it."),
     level_note=(
         "pytools' KeyBuilder (the generic dataclass field walk, hashing of "
         "tuples/str/frozenset/dtype, stability across processes) is "
         "external and assumed injective and process-stable on what it is "
         "fed. The symbolic ndarray models the observations the feeder can "
         "make (contents in C order, layout-dependent bytes, strides, shape, "
         "dtype, address)."),
     technique="contract-based deductive verification: information-flow "
               "obligations over a symbolic ndarray, discharged by z3",
     design_ref="DESIGN.md §6 C18",
     explanation="see contracts/c18_keys.py",
     structural_bound="pairs of arrays; all pairs of reduction operations; "
                      "every node dataclass",
     trusted_base=["pytools.persistent_dict.KeyBuilder"],
     assumptions=["numpy: tobytes()/data.tobytes() in C order depend on the "
                  "logical contents only"],
     unverified_surroundings=["pytools KeyBuilder, loopy's LoopyKeyBuilder"])

prop("C16",
     level="proof",
     level_text=(
         "Deductive proof, for affine shape components built by the real "
         "operator overloads with symbolic integer coefficients over 1..3 "
         "size parameters, that are_shape_components_equal decides equality "
         "for all non-negative parameter values (both directions), that "
         "_is_non_negative/_is_non_positive are sound and complete, that "
         "stack, broadcasting, where, einsum and call-argument checking "
         "accept exactly when the axis lengths are equal for all sizes (or "
         "literally one, for broadcasting), that the inferred shapes "
         "evaluate to NumPy's at every valuation, and that builders and "
         "lowering stay correct (values, bounds, shapes) when axis lengths "
         "are symbolic."),
     level_note=(
         "islpy is replaced by its assumed contract (pyvc/islmodel.py, "
         "affine forms as coefficient vectors; the one closed form it uses is "
         "proved as a lemma). 'One compiled kernel serves every size' -- the "
         "execution of loopy-generated code -- is not decided; the proof "
         "ends at the IndexLambda / shape level."),
     technique="contract-based deductive verification: VCs generated from "
               "the real source by symbolic interpretation, z3",
     design_ref="DESIGN.md §6 C16",
     explanation="see contracts/c16_symshapes.py",
     structural_bound="tree forms sum/rev/nested/sub/neg/partial/bare/int of "
                      "affine expressions over <= 3 parameters; coefficients "
                      "unbounded (symbolic); operand ranks <= 3",
     trusted_base=["islpy (assumed contract: pyvc/islmodel.py)",
                   "pymbolic EvaluationMapper / substitute"],
     assumptions=["shape components are affine in the size parameters "
                  "(pytato's documented requirement)"],
     unverified_surroundings=["loopy code generation and execution for "
                              "parametric sizes (shape_to_scalar_expression, "
                              "kernel value arguments)"])

prop("C17",
     level="exploration",
     level_text=(
         "For each listed program (multi-output DAGs with sharing, stored "
         "intermediates, reductions; 2- and 3-rank halo exchanges in one and "
         "two rounds) the real generators, the partitioner and the tag "
         "numbering are interpreted while every set/frozenset yields its "
         "elements in an adversarially chosen order: the generated Python "
         "source, the loopy instructions/arguments/temporaries/domains, the "
         "output order, the partition description, the contributions to the "
         "collectives and the tag numbers must equal the reference run's. "
         "Exhaustive over the permutations of each dynamic iteration site "
         "(one site permuted per path), bounded in the programs."),
     level_note=(
         "Not a proof for all programs: the programs are a finite list. "
         "Order-dependence that needs two sites permuted at once is not "
         "explored. Object addresses (id) and global counters are not "
         "varied; id() is used in the anchored modules only as a cache key "
         "(survey in DESIGN.md)."),
     evaluation_rule=(
         "one evaluation = one interpreted execution of a generator / the "
         "partitioner for one listed program under one choice of iteration "
         "order (site, permutation); distinct by construction (decision "
         "vectors are enumerated); non-trivial = a set iteration site was "
         "actually permuted on that path (the all-reference path is the "
         "trivial one)"),
     technique="contract-based: 2-safety postcondition (result equals the "
               "reference run) checked by interpreting the real source under "
               "an adversarial set-iteration-order model -- bounded stand-in, "
               "not a proof",
     design_ref="DESIGN.md §6 C17",
     explanation="see contracts/c17_determinism.py",
     structural_bound="listed programs; all permutations of sets of <= 4 "
                      "elements (rotations, reversal, adjacent swaps beyond), "
                      "one site per path",
     trusted_base=["loopy (make_kernel, add_and_infer_dtypes, ...) run "
                   "natively: its own determinism is assumed",
                   "fake MPI collectives (pyvc/fakempi.py)"],
     assumptions=["natives not classified as order-revealing treat set "
                  "arguments order-insensitively (listed in evidence)"],
     unverified_surroundings=["loopy's C code generation", "mpi4py"])

prop("C09",
     level="exploration",
     level_text=(
         "The real find_distributed_partition, verify_distributed_partition "
         "and number_distributed_tags are interpreted on every rank of listed "
         "2- and 3-rank programs (ping-pong, ring, two-round halo exchange, "
         "one array sent several times, receive returned as output, receive "
         "reused in a later part, forwarding of a received array, sent and "
         "stored arrays reused later, ranks without communication) and the "
         "clause list of C09 is checked on the result by an independent "
         "checker; number_distributed_tags and the part-construction block "
         "are in addition proved for symbolic tags / ranks."),
     level_note=(
         "Whole-graph reasoning for all programs is outside what per-function "
         "contracts carry here; the program list is finite. MPI is replaced "
         "by its assumed contract (pyvc/fakempi.py)."),
     technique="contract-based: postcondition (the clause list) checked on "
               "the real code interpreted over listed programs; deductive "
               "sub-contracts (z3) for tag numbering and part construction",
     design_ref="DESIGN.md §6 C09/C10",
     explanation="see contracts/c09_partition.py",
     structural_bound="10 program shapes x 2..3 ranks x 2 ways of attaching "
                      "sends",
     trusted_base=["fake MPI collectives (pyvc/fakempi.py)"],
     assumptions=["MPI delivers collectives as specified in pyvc/fakempi.py"],
     unverified_surroundings=["mpi4py", "execute_distributed_partition"])

prop("C10",
     level="exploration",
     level_text=(
         "Every single fault (drop, duplicate, retag, redirect of one send or "
         "one receive) at every communication operation of the listed valid "
         "programs, plus cyclic and self-send programs, is run through the "
         "real find_distributed_partition and verify_distributed_partition "
         "(interpreted on every rank): some rank must raise a diagnostic and "
         "no partition may be returned; the identifier constructors, the "
         "duplicate detection of the dependency gatherer and the checks of "
         "verify_distributed_partition are in addition proved for symbolic "
         "ranks and tags."),
     level_note=(
         "Pairs of faults: all pairs on six program shapes in the thorough "
         "tier, every 9th in the quick tier; for a pair the rank owning a "
         "faulty endpoint must not return a partition (it raises, or is left "
         "waiting in a collective because the other owner already raised); "
         "pairs that cancel must be accepted with a sound partition or be "
         "rejected as cyclic. 'On the affected ranks' is read as: the rank "
         "owning the missing or surplus endpoint raises."),
     technique="contract-based: postcondition checked on the real code "
               "interpreted over enumerated single faults; deductive "
               "sub-contracts (z3) for symbolic ranks/tags",
     design_ref="DESIGN.md §6 C09/C10",
     explanation="see contracts/c10_faults.py",
     structural_bound="10 valid program shapes x 2..3 ranks x 8 fault kinds x "
                      "every operation; 3 invalid program shapes",
     trusted_base=["fake MPI collectives (pyvc/fakempi.py)"],
     assumptions=["MPI delivers collectives as specified in pyvc/fakempi.py"],
     unverified_surroundings=["mpi4py", "execute_distributed_partition"])

prop("C07",
     level="translation_validation",
     level_text=(
         "Per listed program and tag assignment, the loopy kernel returned by "
         "the real generate_loopy (interpreted from source) is given its "
         "meaning by pyvc/lpden.py and proved (z3) to denote, for ALL sizes "
         "(size parameters), inputs and indices, what the untagged pytato "
         "program denotes; output names, shapes and dtypes are those of the "
         "program for every tag assignment; every temporary is written on its "
         "whole shape, every read is in bounds, and every instruction depends "
         "on the writers of what it reads (also through substitution rules "
         "and reduction bounds)."),
     level_note=(
         "Programs and tag assignments are listed (6 program shapes x 10 "
         "assignments in the quick tier, all 4^k combinations of "
         "none/stored/substitution/inlined in the thorough tier); sizes, "
         "inputs and indices are universally quantified. loopy itself "
         "(preprocessing, scheduling, C generation) and the execution are "
         "outside: the claim ends at the kernel pytato hands to loopy."),
     technique="contract-based translation validation: the kernel produced "
               "by the real code generator is denoted to z3 and proved equal "
               "to the denotation of the source program, per program",
     design_ref="DESIGN.md §12 (C07)",
     explanation="see contracts/c07_kernel.py and pyvc/lpden.py",
     structural_bound="listed programs x listed tag assignments",
     trusted_base=["kernel semantics as stated in pyvc/lpden.py",
                   "loopy (make_kernel, isl domains, pw_aff_to_expr) run "
                   "natively to *read* the kernel"],
     assumptions=["loopy implements its instruction language as documented "
                  "(single-assignment temporaries + dependencies)"],
     unverified_surroundings=["loopy preprocessing/scheduling/C generation",
                              "execution (pyopencl)"])

prop("C08",
     level="exploration",
     level_text=(
         "Two contracts over the listed multi-rank programs. (1) "
         "exec.schedules: the real execute_distributed_partition is "
         "interpreted per rank while MPI.Request.Waitsome returns every "
         "non-empty subset of the pending receives that message passing "
         "permits to have arrived (a message can arrive once the local sends "
         "among the causal ancestors of its send are posted); on EVERY such "
         "schedule the call returns, raises nothing (a KeyError would be a "
         "value read before it is produced or after it is released; the "
         "executor's final reference-count asserts are live), executes every "
         "part once, posts exactly the right payloads and returns the "
         "outputs of the unpartitioned evaluation. (2) dist.find.value "
         "(translation validation): the partition returned by the real "
         "find_distributed_partition, wired together by its messages and "
         "part-output names, denotes for ALL inputs what the unpartitioned "
         "global data-flow graph denotes."),
     level_note=(
         "Exhaustive over schedules per rank, bounded in programs (10 shapes "
         "x 2..3 ranks). Assume/guarantee across ranks: each rank is checked "
         "against the same contract of the others (they post what the global "
         "graph says, eventually) -- together with C09's acyclic global part "
         "graph this gives termination; the composition argument itself is "
         "on paper (DESIGN 12.4). MPI, pyopencl.array.to_device and the "
         "per-part programs are replaced by contracts; their real "
         "implementations are not exercised."),
     evaluation_rule=(
         "one evaluation = one interpreted execution of the executor for one "
         "rank of one program under one complete choice of arrival subsets "
         "(all choices enumerated by path forks, hence distinct), or one "
         "partition/program pair for the value contract; non-trivial = it "
         "generated at least one obligation"),
     technique="contract-based: postconditions of the real executor checked "
               "by interpretation under an adversarial scheduler contract "
               "(exhaustive over permitted arrival orders); translation "
               "validation of the partition's values with z3",
     design_ref="DESIGN.md §12.4 (C08)",
     explanation="see contracts/c08_executor.py and contracts/"
                 "c09_partition.py (value_preserved)",
     structural_bound="10 program shapes x 2..3 ranks; every rank; every "
                      "permitted sequence of arrival subsets",
     trusted_base=["MPI contract (fake communicator, Waitsome as adversary)",
                   "per-part programs = NumPy evaluation of the part's "
                   "expressions (pyvc/replaylib.eval_array)",
                   "index-lambda semantics (pyvc/den.py)"],
     assumptions=["every posted message is eventually delivered to the "
                  "matching receive, and only then",
                  "other ranks satisfy the same contract (assume/guarantee)"],
     unverified_surroundings=["mpi4py", "pyopencl",
                              "generate_code_for_partition / loopy execution "
                              "of the parts"])


def _lean_composition_lemmas(tier, seed):
    """Appendix A.1, A.3, A.4/A.6, A.5 (whole-graph statements from the
    per-node contracts), machine-checked: lemmas/Memo.lean is compiled by Lean 4 (+Mathlib) in the
    thorough tier.  A failure here is a fault of the argument, not a property
    violation."""
    import os
    import re
    import subprocess
    import time
    name = "lean-composition-lemmas"
    src = os.path.join(os.path.dirname(os.path.dirname(
        os.path.abspath(__file__))), "lemmas", "Memo.lean")
    theorems = re.findall(r"^theorem (\S+)", open(src).read(), re.M)
    if tier != "thorough":
        return dict(name=name, kind="lemma", evaluations=0, failures=[],
                    note="compiled in the thorough tier only "
                         "(./check C13 --tier thorough); " +
                         f"{len(theorems)} theorems in lemmas/Memo.lean")
    t0 = time.time()
    try:
        p = subprocess.run(["lean", src], capture_output=True, text=True,
                           timeout=1500, check=False)
    except (OSError, subprocess.TimeoutExpired) as e:
        return dict(name=name, kind="fault", fault=f"lean: {e}", failures=[],
                    evaluations=0)
    out = p.stdout + p.stderr
    bad = p.returncode != 0 or "error" in out or "sorry" in out
    axioms = re.findall(r"depends on axioms: \[(.*?)\]", out)
    extra_axioms = [a for a in axioms
                    if set(x.strip() for x in a.split(",")) -
                    {"propext", "Quot.sound", "Classical.choice"}]
    if bad or extra_axioms or not axioms:
        return dict(name=name, kind="fault",
                    fault="lean did not accept lemmas/Memo.lean:\n" +
                          out[-1500:], failures=[], evaluations=0)
    return dict(name=name, kind="lemma", evaluations=len(theorems),
                obligations=len(theorems), discharged=len(theorems),
                failures=[], backend="Lean 4 kernel (lean + Mathlib)",
                seconds=round(time.time() - t0, 1), theorems=theorems,
                axioms=sorted(set(axioms)))


for _p in ("C13", "C20", "C04", "C05"):
    EXTRAS.setdefault(_p, []).append(_lean_composition_lemmas)


def _c18_native_pairs(tier, seed):
    from contracts.c18_keys import native_key_pairs
    return native_key_pairs(tier, seed)


EXTRAS.setdefault("C18", []).append(_c18_native_pairs)


def _c14_typed_scalars(tier, seed):
    from contracts.c14_numpy import typed_scalar_table
    return typed_scalar_table(tier, seed)


EXTRAS.setdefault("C14", []).append(_c14_typed_scalars)


def _spec_grid(tier, seed):
    from contracts.specgrid import spec_grid
    return spec_grid(tier, seed)


for _p in ("C02", "C03", "C11", "C01"):
    EXTRAS.setdefault(_p, []).append(_spec_grid)
