"""C19 -- raising an index lambda to a high-level operation never misreads it.

soundness   whatever ``index_lambda_to_high_level_op`` returns, applying that
            operation (NumPy's pointwise meaning, operands broadcast) to the
            identified operands equals the denotation of the index lambda for
            ALL indices and operand values -- checked on the index lambdas the
            public API produces and on hand-built near-misses of every head
            the matcher inspects x every operand class (exact broadcast
            subscript, permuted, offset, constant index, 0-d variable, scalar,
            NaN, compound term);
completeness every API-produced lambda is recognised as the expected
            operation with its operands in the producer's order;
otherwise   UnknownIndexLambdaExpr -- never another exception.
"""
from __future__ import annotations

import itertools
import operator

import numpy as np
import z3

import pymbolic.primitives as p
import pytato as pt
from pytato.array import Array, IndexLambda, _get_default_axes
from pytato.raising import (BinaryOp, BinaryOpType, BroadcastOp, C99CallOp,
                            FullOp, LogicalNotOp, ReduceOp, WhereOp,
                            ZerosLikeOp, index_lambda_to_high_level_op)

from contracts.c01_builders import A, b2i, bidx, lit
from pyvc.core import Contract, contract
from pyvc.den import ArrayModel, Den, Reduction, as_int, uf
from pyvc.ptlib import (in_box, mk_placeholder, oblige_equal_den, shape_term,
                        size_param_term)
from pyvc.sym import EngineSignal, py_floordiv, py_mod

B = BinaryOpType
BIN_SEM = {
    B.ADD: lambda a, b: a + b, B.SUB: lambda a, b: a - b,
    B.MULT: lambda a, b: a * b,
    B.TRUEDIV: lambda a, b: uf("op_truediv", 2)(a, b),
    B.FLOORDIV: py_floordiv, B.MOD: py_mod,
    B.POWER: lambda a, b: uf("op_pow", 2)(a, b),
    B.LOGICAL_OR: lambda a, b: b2i(z3.Or(a != 0, b != 0)),
    B.LOGICAL_AND: lambda a, b: b2i(z3.And(a != 0, b != 0)),
    B.BITWISE_OR: lambda a, b: uf("op_bitor", 2)(a, b),
    B.BITWISE_AND: lambda a, b: uf("op_bitand", 2)(a, b),
    B.BITWISE_XOR: lambda a, b: uf("op_bitxor", 2)(a, b),
    B.LESS: lambda a, b: b2i(a < b), B.LESS_EQUAL: lambda a, b: b2i(a <= b),
    B.GREATER: lambda a, b: b2i(a > b),
    B.GREATER_EQUAL: lambda a, b: b2i(a >= b),
    B.EQUAL: lambda a, b: b2i(a == b), B.NOT_EQUAL: lambda a, b: b2i(a != b),
}


def operand_value(arrays, o, iv, out_shape):
    if isinstance(o, Array):
        return A(arrays, o, bidx(iv, o.shape, out_shape))
    if isinstance(o, float) and o != o:
        return z3.Int("nan_float64")
    if isinstance(o, (np.floating,)) and o != o:
        return z3.Int("nan_float64")
    if isinstance(o, (bool, int, float)):
        return lit(o)
    if isinstance(o, np.generic):
        return lit(o.item())
    z = getattr(o, "t", None)
    if z is not None:
        return z
    raise EngineSignal(f"operand {o!r}")


def op_semantics(arrays, op, il):
    """callable(iv) -> z3 term | Reduction : NumPy meaning of a HighLevelOp."""
    out_shape = il.shape
    val = lambda o, iv: operand_value(arrays, o, iv, out_shape)  # noqa: E731
    if isinstance(op, FullOp):
        return lambda iv: val(op.fill_value, iv)
    if isinstance(op, BinaryOp):
        f = BIN_SEM[op.binary_op]
        return lambda iv: f(val(op.x1, iv), val(op.x2, iv))
    if isinstance(op, C99CallOp):
        return lambda iv: uf("call_pytato.c99." + op.function,
                             len(op.args))(*[val(a, iv) for a in op.args])
    if isinstance(op, WhereOp):
        return lambda iv: z3.If(val(op.condition, iv) != 0, val(op.then, iv),
                                val(op.else_, iv))
    if isinstance(op, BroadcastOp):
        return lambda iv: val(op.x, iv)
    if isinstance(op, LogicalNotOp):
        return lambda iv: b2i(val(op.x, iv) == 0)
    if isinstance(op, ZerosLikeOp):
        return lambda iv: z3.IntVal(0)
    if isinstance(op, ReduceOp):
        x = op.x
        axes = dict(op.axes)

        def sem(iv):
            rv = {ax: z3.Int(f"r_{name}") for ax, name in axes.items()}
            keep = [d for d in range(len(x.shape)) if d not in axes]
            idx = [rv[d] if d in rv else iv[keep.index(d)]
                   for d in range(len(x.shape))]
            return Reduction(op.op, [(axes[ax], z3.IntVal(0),
                                      shape_term(x.shape[ax]))
                                     for ax in sorted(axes)],
                             A(arrays, x, idx),
                             {axes[ax]: rv[ax] for ax in axes})
        return sem
    raise EngineSignal(f"unknown op {op!r}")


def promotion_casts_only(il):
    """Which casts may be read as the identity: those NumPy's own promotion
    performs when the raised operation is applied to the operands (the target
    dtype absorbs the operand's: int64 -> float64 inside ``a_int + b``).  A
    cast *away* from the operand's dtype (``astype(float32)`` of a float64
    array, ``astype(int8)``) changes values; it stays an uninterpreted
    function, so an operation that ignores it does not reproduce the lambda.
    Where the operand's dtype is not evident the cast is read as identity."""
    def policy(e):
        inner = e.inner_expr
        name = None
        if isinstance(inner, p.Subscript) and isinstance(inner.aggregate,
                                                         p.Variable):
            name = inner.aggregate.name
        elif isinstance(inner, p.Variable):
            name = inner.name
        if name is None or name not in il.bindings:
            return True
        src = np.dtype(il.bindings[name].dtype)
        dst = np.dtype(e.dtype)
        try:
            return np.promote_types(src, dst) == dst
        except TypeError:
            return True
    return policy


def raise_and_check(h, clause, il, arrays, expect=None):
    from pytato.raising import UnknownIndexLambdaExpr
    try:
        op = h.call(index_lambda_to_high_level_op, il)
    except EngineSignal:
        raise
    except UnknownIndexLambdaExpr:
        if expect is not None:
            h.fail(f"{clause}.recognised", "reported as unknown",
                   props=("C19",))
        else:
            h.oblige(f"{clause}.unknown-is-reported", z3.BoolVal(True))
        return None
    except NotImplementedError:
        h.oblige(f"{clause}.not-implemented-is-explicit", z3.BoolVal(True))
        return None
    except Exception as e:  # noqa: BLE001
        h.fail(f"{clause}.no-other-exception", f"{type(e).__name__}: {e}")
        return None
    ivars = [z3.Int(f"i{d}") for d in range(len(il.shape))]
    box = in_box(ivars, il.shape)
    D = Den(arrays, il.bindings, lambda a: h.interp.getattr(a, "shape"),
            size_param=size_param_term,
            cast_identity=promotion_casts_only(il))
    D.inline_index_lambdas = False
    got = D.top(il.expr, {f"_{d}": v for d, v in enumerate(ivars)})
    try:
        want = op_semantics(arrays, op, il)(ivars)
    except EngineSignal:
        raise
    except Exception as e:  # noqa: BLE001
        h.fail(f"{clause}.operation-applicable",
               f"{type(op).__name__}: {type(e).__name__}: {e}")
        return op
    oblige_equal_den(h, f"{clause}.sound", box, got, want, props=("C19",))
    if expect is not None:
        ok = expect(op)
        h.oblige(f"{clause}.expected-operation", z3.BoolVal(bool(ok)),
                 info=repr(op)[:120])
    return op


# {{{ API producers

def producers(tier):
    """label -> builder(h) returning (il, expectation)"""
    P = {}

    def two(h, pa="nn", pb="1n"):
        from contracts.c01_builders import mk_bcast_operand
        r = max(len(pa), len(pb))
        common = [h.nonneg(f"n{d}") for d in range(r)]
        return (mk_bcast_operand(h, "a", pa, common),
                mk_bcast_operand(h, "b", pb, common))

    binops = {"add": (operator.add, B.ADD), "sub": (operator.sub, B.SUB),
              "mul": (operator.mul, B.MULT),
              "truediv": (operator.truediv, B.TRUEDIV),
              "floordiv": (operator.floordiv, B.FLOORDIV),
              "mod": (operator.mod, B.MOD), "pow": (operator.pow, B.POWER)}
    for nm, (f, bt) in binops.items():
        def mk(h, f=f, bt=bt):
            a, b = two(h)
            return f(a, b), lambda op: isinstance(op, BinaryOp) and \
                op.binary_op == bt and op.x1 is a and op.x2 is b
        P[f"{nm};array-array"] = mk
        for sc in (2.5, 3):
            def mkl(h, f=f, bt=bt, sc=sc):
                a, _ = two(h, "nn", "nn")
                return f(sc, a), lambda op: isinstance(op, BinaryOp) and \
                    op.binary_op == bt and op.x1 == sc and op.x2 is a
            P[f"{nm};scalar-left;{sc}"] = mkl

            def mkr(h, f=f, bt=bt, sc=sc):
                a, _ = two(h, "nn", "nn")
                # a - c is built as a + (-c): either reading is the same
                # operation on the same operands in the same order
                return f(a, sc), lambda op: isinstance(op, BinaryOp) and \
                    op.x1 is a and ((op.binary_op == bt and op.x2 == sc) or (
                        bt == B.SUB and op.binary_op == B.ADD
                        and op.x2 == -sc))
            P[f"{nm};scalar-right;{sc}"] = mkr
    cmps = {"equal": B.EQUAL, "not_equal": B.NOT_EQUAL, "less": B.LESS,
            "less_equal": B.LESS_EQUAL, "greater": B.GREATER,
            "greater_equal": B.GREATER_EQUAL, "logical_and": B.LOGICAL_AND,
            "logical_or": B.LOGICAL_OR}
    for nm, bt in cmps.items():
        def mk(h, nm=nm, bt=bt):
            a, b = two(h)
            return getattr(pt, nm)(a, b), lambda op: isinstance(
                op, BinaryOp) and op.binary_op == bt and op.x1 is a \
                and op.x2 is b
        P[f"{nm};array-array"] = mk

        def mks(h, nm=nm, bt=bt):
            a, _ = two(h, "n", "n")
            return getattr(pt, nm)(3, a), lambda op: isinstance(
                op, BinaryOp) and op.binary_op == bt and op.x1 == 3 \
                and op.x2 is a
        P[f"{nm};scalar-left"] = mks

    def where(h):
        from contracts.c01_builders import mk_bcast_operand
        common = [h.nonneg("n0"), h.nonneg("n1")]
        c = mk_bcast_operand(h, "c", "nn", common)
        a = mk_bcast_operand(h, "a", "n", common)
        b = mk_bcast_operand(h, "b", "1n", common)
        return pt.where(c, a, b), lambda op: isinstance(op, WhereOp) and \
            op.condition is c and op.then is a and op.else_ is b
    P["where"] = where

    def where_sc(h):
        a, _ = two(h, "n", "n")
        return pt.where(a, 2.5, a), lambda op: isinstance(op, WhereOp) and \
            op.condition is a and op.then == 2.5 and op.else_ is a
    P["where;scalar"] = where_sc
    for fn, c99 in [("sin", "sin"), ("abs", "abs"), ("arccos", "acos"),
                    ("isnan", "isnan"), ("exp", "exp"), ("sqrt", "sqrt")]:
        def mk(h, fn=fn, c99=c99):
            a, _ = two(h, "nn", "nn")
            return getattr(pt, fn)(a), lambda op: isinstance(
                op, C99CallOp) and op.function == c99 and len(op.args) == 1 \
                and op.args[0] is a
        P[f"{fn}"] = mk

    # 0-dimensional operands (the producers write ``in_0[()]`` / a bare
    # variable for them): math calls, two-argument calls with a scalar,
    # binary operations mixing ranks, where, logical not
    def zd(h, name):
        return mk_placeholder(h, name, shape=[])
    for fn, c99 in [("sin", "sin"), ("abs", "abs"), ("isnan", "isnan"),
                    ("exp", "exp")]:
        def mk0(h, fn=fn, c99=c99):
            s_ = zd(h, "s")
            return getattr(pt, fn)(s_), lambda op: isinstance(
                op, C99CallOp) and op.function == c99 and len(op.args) == 1 \
                and op.args[0] is s_
        P[f"{fn};0d"] = mk0

    def atan2_0d(h):
        s_, t_ = zd(h, "s"), zd(h, "t")
        return pt.arctan2(s_, t_), lambda op: isinstance(op, C99CallOp) and \
            op.function == "atan2" and op.args[0] is s_ and op.args[1] is t_
    P["arctan2;0d"] = atan2_0d

    def atan2_sc(h):
        t_ = zd(h, "t")
        return pt.arctan2(0.5, t_), lambda op: isinstance(op, C99CallOp) and \
            op.function == "atan2" and op.args[0] == 0.5 and op.args[1] is t_
    P["arctan2;scalar-left;0d"] = atan2_sc

    def atan2_sc1(h):
        a, _ = two(h, "n", "n")
        return pt.arctan2(a, 0.5), lambda op: isinstance(op, C99CallOp) and \
            op.function == "atan2" and op.args[0] is a and op.args[1] == 0.5
    P["arctan2;scalar-right"] = atan2_sc1
    for nm, (f, bt) in binops.items():
        def mk0(h, f=f, bt=bt):
            s_ = zd(h, "s")
            a, _ = two(h, "n", "n")
            return f(s_, a), lambda op: isinstance(op, BinaryOp) and \
                op.binary_op == bt and op.x1 is s_ and op.x2 is a
        P[f"{nm};0d-array"] = mk0

        def mk00(h, f=f, bt=bt):
            s_, t_ = zd(h, "s"), zd(h, "t")
            return f(s_, t_), lambda op: isinstance(op, BinaryOp) and \
                op.binary_op == bt and op.x1 is s_ and op.x2 is t_
        P[f"{nm};0d-0d"] = mk00

    def where0(h):
        c_, s_, t_ = zd(h, "c"), zd(h, "s"), zd(h, "t")
        return pt.where(c_, s_, t_), lambda op: isinstance(op, WhereOp) and \
            op.condition is c_ and op.then is s_ and op.else_ is t_
    P["where;0d"] = where0

    def lnot0(h):
        s_ = zd(h, "s")
        return pt.logical_not(s_), lambda op: isinstance(op, LogicalNotOp) \
            and op.x is s_
    P["logical_not;0d"] = lnot0

    def zl0(h):
        s_ = zd(h, "s")
        return pt.zeros_like(s_), lambda op: isinstance(
            op, (FullOp, ZerosLikeOp))
    P["zeros_like;0d"] = zl0

    def atan2(h):
        a, b = two(h, "n", "n")
        return pt.arctan2(a, b), lambda op: isinstance(op, C99CallOp) and \
            op.function == "atan2" and op.args[0] is a and op.args[1] is b
    P["arctan2"] = atan2

    def neg(h):
        a, _ = two(h, "nn", "nn")
        return -a, lambda op: isinstance(op, BinaryOp) and \
            op.binary_op == B.MULT and op.x1 == -1 and op.x2 is a
    P["neg"] = neg

    def lnot(h):
        a, _ = two(h, "nn", "nn")
        return pt.logical_not(a), lambda op: isinstance(op, LogicalNotOp) \
            and op.x is a
    P["logical_not"] = lnot

    def full(h):
        return pt.full((h.nonneg("n0"), h.nonneg("n1")), 2.5), \
            lambda op: isinstance(op, FullOp) and op.fill_value == 2.5
    P["full"] = full

    def zeros_like(h):
        a, _ = two(h, "nn", "nn")
        return pt.zeros_like(a), lambda op: isinstance(
            op, (FullOp, ZerosLikeOp))
    P["zeros_like"] = zeros_like

    def bto(h):
        from contracts.c01_builders import mk_bcast_operand
        common = [h.nonneg("n0"), h.nonneg("n1")]
        s = mk_bcast_operand(h, "s", "1n", common)
        return pt.broadcast_to(s, tuple(common)), \
            lambda op: isinstance(op, BroadcastOp) and op.x is s
    P["broadcast_to"] = bto

    # astype is *not* one of the operations the property lists (fill, binary
    # operation, math call, where, reduction, broadcast, logical not), and a
    # cast away from the operand's dtype changes values: whatever the raiser
    # answers must reproduce the lambda, so "unknown" is the expected answer
    # and a BroadcastOp of the operand is a misreading (expectation None: no
    # particular operation is demanded, soundness is)
    for src, dst in ((np.float64, np.float32), (np.int64, np.int8),
                     (np.int64, np.float64), (np.float64, np.float64),
                     (np.int32, np.int64)):
        def astype(h, src=src, dst=dst):
            a = mk_placeholder(h, "a", shape=[h.nonneg("n0"), h.nonneg("n1")],
                               dtype=src)
            return a.astype(dst), None
        P[f"astype;{np.dtype(src).name}->{np.dtype(dst).name}"] = astype
    for fn in ("sum", "amax", "prod", "all"):
        for r, ax in [(1, (0,)), (2, (0,)), (2, (1,)), (2, (0, 1)),
                      (3, (0, 2)), (3, (1,))]:
            def mk(h, fn=fn, r=r, ax=ax):
                a = mk_placeholder(h, "a", r)
                return getattr(pt, fn)(a, ax), lambda op: isinstance(
                    op, ReduceOp) and op.x is a and \
                    sorted(op.axes) == sorted(ax)
            P[f"{fn};rank={r};axis={ax}"] = mk
    return P

# }}}


@contract
class RaiseProducers(Contract):
    name = "raising.producers"
    functions = ("pytato.raising:index_lambda_to_high_level_op",
                 "pytato.raising:_as_array_or_scalar",
                 "pytato.raising:_is_idx_lambda_broadcast_op",
                 "pytato.raising:_is_normal_reduce_expr",
                 "pytato.raising:TypeCastDropper.map_type_cast",
                 "pytato.cmath:zeros_like")
    properties = ("C19",)

    def instances(self, tier):
        return [dict(label=k, which=k) for k in producers(tier)]

    def canaries(self, tier):
        return [(dict(label="sub;scalar-left;2.5", which="sub;scalar-left;2.5"),
                 "commute", "raising.producers.sound")]

    def run(self, h, inst):
        mk = producers("thorough")[inst["which"]]
        arrays = ArrayModel()
        try:
            il, expect = mk(h)
        except EngineSignal:
            raise
        except ValueError:
            # the producer rejected this valuation (e.g. a reduction over a
            # possibly empty axis): nothing to raise
            h.oblige("raising.producers.producer-rejects", z3.BoolVal(True))
            return
        except Exception as e:  # noqa: BLE001
            h.fail("raising.producers.producer-builds",
                   f"{type(e).__name__}: {e}")
            return
        if not isinstance(il, IndexLambda):
            h.fail("raising.producers.producer-is-index-lambda",
                   type(il).__name__)
            return
        if h.canary == "commute":
            BIN_SEM[B.SUB] = lambda a, b: b - a
        try:
            raise_and_check(h, "raising.producers", il, arrays, expect)
        finally:
            BIN_SEM[B.SUB] = lambda a, b: a - b

    def replay(self, inst, clause, model, info):
        return PRODUCER_REPLAY.format(which=inst["which"],
                                      model=dict(model or {}))


PRODUCER_REPLAY = '''
import sys
sys.path.insert(0, "/verif")
from pyvc.replay_raising import replay_producer
replay_producer({which!r}, {model!r})
'''


# {{{ hand-built near misses

OPERAND_CLASSES = ["exact", "permuted", "offset", "const-index", "var0d",
                   "scalar", "nan", "compound", "exact-bcast"]
HEADS = ["Sum", "Sub", "Product", "Quotient", "FloorDiv", "Remainder",
         "Power", "Comparison<", "LogicalAnd", "BitwiseXor", "If", "Call1",
         "Call2", "Zero", "LogicalNot", "Bare", "Sum3", "SumNegProd3",
         "SumNegProd2", "Prod3"]


def mk_operand(h, cls, name, n0, n1):
    """(scalar expression, binding or None)"""
    v0, v1 = p.Variable("_0"), p.Variable("_1")
    if cls == "exact":
        a = mk_placeholder(h, name, shape=[n0, n1])
        return p.Subscript(p.Variable(name), (v0, v1)), a
    if cls == "exact-bcast":
        a = mk_placeholder(h, name, shape=[1, n1])
        return p.Subscript(p.Variable(name), (0, v1)), a
    if cls == "permuted":
        a = mk_placeholder(h, name, shape=[n0, n1])
        return p.Subscript(p.Variable(name), (v1, v0)), a
    if cls == "offset":
        a = mk_placeholder(h, name, shape=[n0, n1])
        return p.Subscript(p.Variable(name), (v0, v1 + 1)), a
    if cls == "const-index":
        a = mk_placeholder(h, name, shape=[n0, n1])
        return p.Subscript(p.Variable(name), (0, v1)), a
    if cls == "var0d":
        a = mk_placeholder(h, name, shape=[])
        return p.Variable(name), a
    if cls == "scalar":
        return 2.5, None
    if cls == "nan":
        return p.NaN(np.float64), None
    a = mk_placeholder(h, name, shape=[n0, n1])
    return p.Subscript(p.Variable(name), (v0, v1)) + 1, a


def mk_head(head, xs):
    if head == "Sum":
        return xs[0] + xs[1]
    if head == "Sub":
        return xs[0] - xs[1]
    if head == "Product":
        return xs[0] * xs[1]
    if head == "Quotient":
        return p.Quotient(xs[0], xs[1])
    if head == "FloorDiv":
        return p.FloorDiv(xs[0], xs[1])
    if head == "Remainder":
        return p.Remainder(xs[0], xs[1])
    if head == "Power":
        return p.Power(xs[0], xs[1])
    if head == "Comparison<":
        return p.Comparison(xs[0], "<", xs[1])
    if head == "LogicalAnd":
        return p.LogicalAnd((xs[0], xs[1]))
    if head == "BitwiseXor":
        return p.BitwiseXor((xs[0], xs[1]))
    if head == "If":
        return p.If(xs[0], xs[1], xs[0])
    if head == "Call1":
        return p.Call(p.Variable("pytato.c99.sin"), (xs[0],))
    if head == "Call2":
        return p.Call(p.Variable("pytato.c99.atan2"), (xs[0], xs[1]))
    if head == "Zero":
        return p.Call(p.Variable("pytato.zero"), (xs[0],))
    if head == "LogicalNot":
        return p.LogicalNot(xs[0])
    if head == "Bare":
        return xs[0]
    if head == "Sum3":
        return p.Sum((xs[0], xs[1], xs[0]))
    if head == "SumNegProd3":
        # x + (-1)*y*x: *not* x - y
        return p.Sum((xs[0], p.Product((-1, xs[1], xs[0]))))
    if head == "SumNegProd2":
        # x + (-1)*y: how the API spells x - y
        return p.Sum((xs[0], p.Product((-1, xs[1]))))
    if head == "Prod3":
        return p.Product((xs[0], xs[1], xs[0]))
    raise KeyError(head)


@contract
class RaiseNearMisses(Contract):
    name = "raising.near-misses"
    functions = RaiseProducers.functions
    properties = ("C19",)

    def instances(self, tier):
        out = []
        for head in HEADS:
            unary = head in ("Call1", "Zero", "LogicalNot", "Bare")
            classes2 = OPERAND_CLASSES if tier == "thorough" else \
                ["exact", "permuted", "scalar", "var0d"]
            for c1 in OPERAND_CLASSES:
                if c1 in ("scalar", "nan") and unary and head == "Bare":
                    continue
                for c2 in ([None] if unary else classes2):
                    if c2 in ("scalar", "nan") and c1 in ("scalar", "nan"):
                        continue
                    out.append(dict(label=f"{head};{c1};{c2}", head=head,
                                    c1=c1, c2=c2))
        for k in ("lower-nonzero", "upper-partial", "both-off", "normal",
                  "transposed-out", "inner-not-subscript",
                  "permuted-out-square", "permuted-out-square-concrete",
                  "normal-rank3"):
            out.append(dict(label=f"Reduce;{k}", head="Reduce", c1=k, c2=None))
        return out

    def run(self, h, inst):
        from constantdict import constantdict
        arrays = ArrayModel()
        n0, n1 = h.nonneg("n0"), h.nonneg("n1")
        head = inst["head"]
        if head == "Reduce":
            return self.reduce(h, inst["c1"], arrays)
        bindings = {}
        e1, b1 = mk_operand(h, inst["c1"], "x", n0, n1)
        if b1 is not None:
            bindings["x"] = b1
        xs = [e1]
        if inst["c2"] is not None:
            e2, b2 = mk_operand(h, inst["c2"], "y", n0, n1)
            if b2 is not None:
                bindings["y"] = b2
            xs.append(e2)
        else:
            xs.append(e1)
        try:
            expr = mk_head(head, xs)
        except TypeError:
            h.oblige("raising.near-misses.n/a", z3.BoolVal(True))
            return
        il = IndexLambda(expr=expr, shape=(n0, n1), dtype=np.dtype(np.float64),
                         bindings=constantdict(bindings),
                         axes=_get_default_axes(2), tags=frozenset(),
                         var_to_reduction_descr=constantdict())
        raise_and_check(h, f"raising.near-misses[{inst['label']}]", il, arrays)

    def reduce(self, h, kind, arrays):
        il = reduce_lambda(h, kind)
        raise_and_check(h, f"raising.near-misses[Reduce;{kind}]", il, arrays)

    def _unused(self, h, kind, arrays):
        from constantdict import constantdict

        from pytato.array import ReductionDescriptor
        from pytato.reductions import SumReductionOperation
        from pytato.scalar_expr import Reduce
        # concrete reduced axis (the matcher insists on int bounds)
        n0 = h.nonneg("n0")
        a = mk_placeholder(h, "x", shape=[n0, 6])
        v0, r0 = p.Variable("_0"), p.Variable("_r0")
        bounds = {"lower-nonzero": (2, 6), "upper-partial": (0, 4),
                  "both-off": (1, 5), "normal": (0, 6),
                  "transposed-out": (0, 6),
                  "inner-not-subscript": (0, 6)}[kind]
        inner = p.Subscript(p.Variable("x"), (v0, r0))
        shape = (n0,)
        if kind == "transposed-out":
            a = mk_placeholder(h, "x", shape=[6, n0])
            inner = p.Subscript(p.Variable("x"), (r0, v0))
        if kind == "inner-not-subscript":
            inner = inner * 2
        expr = Reduce(inner, SumReductionOperation(),
                      constantdict({"_r0": bounds}))
        il = IndexLambda(expr=expr, shape=shape, dtype=np.dtype(np.float64),
                         bindings=constantdict({"x": a}),
                         axes=_get_default_axes(1), tags=frozenset(),
                         var_to_reduction_descr=constantdict(
                             {"_r0": ReductionDescriptor(frozenset())}))
        raise_and_check(h, f"raising.near-misses[Reduce;{kind}]", il, arrays)

    def replay(self, inst, clause, model, info):
        return NEAR_REPLAY.format(inst=inst)


def reduce_lambda(h, kind):
    """Hand-built reduction lambdas around pytato's normal form (also used
    as programs of the NumPy target, C14)."""
    from constantdict import constantdict

    from pytato.array import ReductionDescriptor
    from pytato.reductions import SumReductionOperation
    from pytato.scalar_expr import Reduce
    # concrete reduced axis (the matcher insists on int bounds)
    n0 = h.nonneg("n0")
    v0, v1, r0 = p.Variable("_0"), p.Variable("_1"), p.Variable("_r0")
    bounds = {"lower-nonzero": (2, 6), "upper-partial": (0, 4),
              "both-off": (1, 5)}.get(kind, (0, 6))
    a = mk_placeholder(h, "x", shape=[n0, 6])
    inner = p.Subscript(p.Variable("x"), (v0, r0))
    shape = (n0,)
    if kind == "transposed-out":
        a = mk_placeholder(h, "x", shape=[6, n0])
        inner = p.Subscript(p.Variable("x"), (r0, v0))
    if kind == "inner-not-subscript":
        inner = inner * 2
    if kind in ("permuted-out-square", "permuted-out-square-concrete",
                "normal-rank3"):
        # two result axes of *equal* extent: out[_0,_1] = sum_r x[_1,_0,r]
        # is the transpose of NumPy's sum over the last axis
        m = 3 if kind.endswith("concrete") else n0
        a = mk_placeholder(h, "x", shape=[m, m, 6])
        inner = p.Subscript(p.Variable("x"), (v0, v1, r0)
                            if kind == "normal-rank3" else (v1, v0, r0))
        shape = (m, m)
    expr = Reduce(inner, SumReductionOperation(),
                  constantdict({"_r0": bounds}))
    return IndexLambda(expr=expr, shape=shape, dtype=np.dtype(np.float64),
                       bindings=constantdict({"x": a}),
                       axes=_get_default_axes(len(shape)), tags=frozenset(),
                       var_to_reduction_descr=constantdict(
                           {"_r0": ReductionDescriptor(frozenset())}))


NEAR_REPLAY = '''
import sys
sys.path.insert(0, "/verif")
from pyvc.replay_raising import replay_near_miss
replay_near_miss({inst!r})
'''

# }}}
