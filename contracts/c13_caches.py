"""C13 -- memoisation contracts of every ``rec`` implementation and cache.

Nodes are opaque arrays whose ``==`` is symbolic (relation R) and whose hash
is constant, so *both* the "distinct keys" and the "equal keys / collision"
cases of every dictionary look-up are explored for arbitrary nodes.
The per-node method (``Mapper.rec`` dispatch) is replaced by a counting
stand-in returning fresh result objects.
"""
from __future__ import annotations

import z3

from pytato.transform import (CachedMapAndCopyMapper, CachedMapper,
                              CachedMapperCache, CacheInputsWithKey,
                              CopyMapper, Deduplicator, Mapper,
                              TransformMapper, TransformMapperCache)

from pyvc import graphmodel as gm
from pyvc.core import Contract, contract
from pyvc.sym import EngineSignal, SymBool


class Res:
    def __init__(self, k):
        self.k = k

    def __repr__(self):
        return f"<result {self.k}>"


def install_dispatch_stub(h, calls, mk=None):
    """Stand-in for the uncached per-node dispatch ``Mapper.rec``."""
    def stub(interp, fn, args, kwargs):
        _self, expr = args[:2]
        calls.append(expr)
        return (mk or Res)(len(calls)) if mk is None else mk(expr, len(calls))
    h.interp.contracts[Mapper.rec] = stub

    def stubf(interp, fn, args, kwargs):
        _self, expr = args[:2]
        calls.append(expr)
        return (mk or Res)(len(calls)) if mk is None else mk(expr, len(calls))
    h.interp.contracts[Mapper.rec_function_definition] = stubf


def ncalls(calls, x):
    return sum(1 for c in calls if c is x)


def same(x, y):
    """Symbolic/concrete truth of x == y as python bool (forks)."""
    return bool(x == y)


@contract
class CachedRec(Contract):
    name = "cache.CachedMapper.rec"
    functions = ("pytato.transform:CachedMapper.rec",
                 "pytato.transform:CachedMapper.rec_function_definition",
                 "pytato.transform:CachedMapper._make_cache_inputs",
                 "pytato.transform:CachedMapper._cache_add",
                 "pytato.transform:CachedMapper._cache_retrieve",
                 "pytato.transform:CachedMapper.get_cache_key",
                 "pytato.transform:CachedMapperCache.add",
                 "pytato.transform:CachedMapperCache.retrieve",
                 "pytato.transform:CacheInputsWithKey.__init__")
    properties = ("C13",)

    def instances(self, tier):
        return [dict(label=f"{w};err_on_collision={e}", which=w, err=e)
                for w in ("array", "function") for e in (True, False)]

    def canaries(self, tier):
        return [(dict(label="array;err_on_collision=True", which="array",
                      err=True), "expect-two-calls", "memo.once-per-key")]

    def run(self, h, inst):
        calls = []
        install_dispatch_stub(h, calls)
        m = CachedMapper(err_on_collision=inst["err"])
        if inst["which"] == "array":
            x = gm.mk_opaque_array("x", "concrete")
            y = gm.mk_opaque_array("y", "concrete")
            rec = m.rec
        else:
            x = gm.mk_opaque_function("x", "concrete")
            y = gm.mk_opaque_function("y", "concrete")
            rec = m.rec_function_definition
        r1 = h.call(rec, x)
        r2 = h.call(rec, x)
        want = 2 if h.canary == "expect-two-calls" else 1
        h.oblige("memo.once-per-key", z3.BoolVal(ncalls(calls, x) == want))
        h.oblige("memo.same-result-object", z3.BoolVal(r2 is r1))
        try:
            r3 = h.call(rec, y)
            raised = None
        except EngineSignal:
            raise
        except Exception as e:  # noqa: BLE001
            r3, raised = None, e
        # which case are we in?  (decided by the dictionary look-up itself)
        eq = same(x, y)
        if not eq:
            h.oblige("memo.distinct-key-invokes-method",
                     z3.BoolVal(raised is None and ncalls(calls, y) == 1
                                and r3 is not r1))
        elif inst["err"]:
            h.oblige("collision.reported-not-hidden",
                     z3.BoolVal(isinstance(raised, ValueError)),
                     info=repr(raised))
        else:
            h.oblige("collision.shares-first-result",
                     z3.BoolVal(raised is None and r3 is r1
                                and ncalls(calls, y) == 0))


@contract
class WalkRec(Contract):
    name = "cache.CachedWalkMapper.rec"
    functions = ("pytato.transform:CachedWalkMapper.rec",
                 "pytato.transform:CachedWalkMapper.rec_function_definition",
                 "pytato.transform:TopoSortMapper.rec (optimize_mapper output)",
                 "pytato.analysis:NodeCountMapper.rec (optimize_mapper output)",
                 "pytato.analysis:ListOfUsersCollector.rec")
    properties = ("C13", "C20")

    MAPPERS = ["TopoSortMapper", "NodeCountMapper", "NodeCountMapper+dups",
               "NodeMultiplicityMapper", "CallSiteCountMapper",
               "MaterializedNodeCollector", "NamesValidityChecker",
               "ListOfUsersCollector"]

    def instances(self, tier):
        return [dict(label=m, M=m) for m in self.MAPPERS]

    def run(self, h, inst):
        from pyvc import mapperlib as ml
        calls = []
        install_dispatch_stub(h, calls, mk=lambda e, k: None)
        Mn = inst["M"]
        if Mn == "NodeCountMapper+dups":
            m = ml.mapper_by_name("NodeCountMapper")(count_duplicates=True)
            by_identity = True
        else:
            m = ml.instantiate(ml.mapper_by_name(Mn))
            # keyed by id() by design (duplicates are distinct objects)
            by_identity = Mn in ("TopoSortMapper", "NodeMultiplicityMapper",
                                 "CallSiteCountMapper", "ListOfUsersCollector",
                                 "NamesValidityChecker")
        x = gm.mk_opaque_array("x", "concrete")
        y = gm.mk_opaque_array("y", "concrete")
        h.call(m.rec, x)
        h.call(m.rec, x)
        h.oblige(f"memo.once-per-key[{Mn}]",
                 z3.BoolVal(ncalls(calls, x) == 1))
        h.call(m.rec, y)
        if by_identity:
            # keyed by id(): a distinct object is always visited
            h.oblige(f"memo.distinct-object-visited[{Mn}]",
                     z3.BoolVal(ncalls(calls, y) == 1))
        else:
            eq = same(x, y)
            h.oblige(f"memo.visited-iff-new-key[{Mn}]",
                     z3.BoolVal(ncalls(calls, y) == (0 if eq else 1)))


@contract
class MapAndCopyRec(Contract):
    name = "cache.CachedMapAndCopyMapper.rec"
    functions = ("pytato.transform:CachedMapAndCopyMapper.rec",
                 "pytato.transform:TransformMapper._cache_add")
    properties = ("C13", "C05")

    def instances(self, tier):
        return [dict(label="map_fn-once")]

    def run(self, h, inst):
        calls, fcalls = [], []
        imgs = {}

        def map_fn(e):
            fcalls.append(e)
            return e
        install_dispatch_stub(
            h, calls, mk=lambda e, k: imgs.setdefault(
                id(e), gm.mk_opaque_array(f"img{k}", "concrete")))
        m = CachedMapAndCopyMapper(map_fn)
        # the created-duplicate check is a separate contract
        h.interp.contracts[_dup_fn()] = lambda i, f, a, k: False
        x = gm.mk_opaque_array("x", "concrete")
        r1 = h.call(m.rec, x)
        r2 = h.call(m.rec, x)
        h.oblige("map_fn.once-per-node", z3.BoolVal(ncalls(fcalls, x) == 1))
        h.oblige("method.once-per-node", z3.BoolVal(ncalls(calls, x) == 1))
        h.oblige("same-result-object", z3.BoolVal(r1 is r2))


def _dup_fn():
    from pytato.transform import _is_mapper_created_duplicate
    return _is_mapper_created_duplicate


@contract
class TransformCacheAdd(Contract):
    name = "cache.TransformMapperCache.add"
    functions = ("pytato.transform:TransformMapperCache.add",
                 "pytato.transform:TransformMapperCache.__init__",
                 "pytato.transform:TransformMapper._cache_add")
    properties = ("C13", "C05")

    def instances(self, tier):
        return [dict(label=f"err_on_created_duplicate={e}", err=e)
                for e in (True, False)]

    def canaries(self, tier):
        return [(dict(label="err_on_created_duplicate=False", err=False),
                 "second-wins", "share.first-seen-representative")]

    def run(self, h, inst):
        dup = h.ctx.fresh_bool("is_created_duplicate")
        h.interp.contracts[_dup_fn()] = lambda i, f, a, k: dup
        cache = TransformMapperCache(err_on_collision=False,
                                     err_on_created_duplicate=inst["err"])
        e1 = gm.mk_opaque_array("e1", "concrete")
        e2 = gm.mk_opaque_array("e2", "concrete")
        ra = gm.mk_opaque_array("ra", "concrete")
        rb = gm.mk_opaque_array("rb", "concrete")
        h.assume(z3.Not(gm.R(e1._u, e2._u)))     # two different input keys
        try:
            o1 = h.call(cache.add, CacheInputsWithKey(e1, e1), ra)
        except EngineSignal:
            raise
        except Exception as e:  # noqa: BLE001
            h.oblige("created-duplicate.raises-only-if-enabled-and-detected",
                     z3.And(z3.BoolVal(inst["err"]), dup.t),
                     info=type(e).__name__)
            return
        if inst["err"]:
            h.oblige("created-duplicate.reported", z3.Not(dup.t))
        h.oblige("share.first-result-is-itself", z3.BoolVal(o1 is ra))
        try:
            o2 = h.call(cache.add, CacheInputsWithKey(e2, e2), rb)
        except EngineSignal:
            raise
        except Exception as e:  # noqa: BLE001
            h.oblige("created-duplicate.raises-only-if-enabled-and-detected",
                     z3.And(z3.BoolVal(inst["err"]), dup.t),
                     info=type(e).__name__)
            return
        eq = same(ra, rb)
        if eq:
            want = rb if h.canary == "second-wins" else ra
            h.oblige("share.first-seen-representative",
                     z3.BoolVal(o2 is want))
        else:
            h.oblige("share.new-result-kept", z3.BoolVal(o2 is rb))
        # what retrieve() later returns is what add() returned
        h.oblige("share.retrieve-returns-added",
                 z3.BoolVal(h.call(cache.retrieve,
                                   CacheInputsWithKey(e2, e2)) is o2))
        # never more distinct results than distinct inputs
        h.oblige("share.no-more-results-than-inputs",
                 z3.BoolVal(len({id(o1), id(o2)}) <= 2))


@contract
class CreatedDuplicate(Contract):
    name = "cache._is_mapper_created_duplicate"
    functions = ("pytato.transform:_is_mapper_created_duplicate",)
    properties = ("C13",)

    def instances(self, tier):
        return [dict(label=k, case=k) for k in
                ("same-object", "equal-copy-same-preds",
                 "equal-copy-new-preds", "unequal")]

    def run(self, h, inst):
        from pytato.array import Roll
        from pytato.equality import EqualityComparer
        from pyvc import mapperlib as ml
        from contracts.c04_equality import install_rec
        install_rec(h)
        case = inst["case"]
        b = ml.build_node(Roll, "e")
        expr = b.obj
        import dataclasses
        if case == "same-object":
            res = expr
        elif case == "equal-copy-same-preds":
            res = dataclasses.replace(expr)
        elif case == "equal-copy-new-preds":
            res = dataclasses.replace(
                expr, array=gm.mk_opaque_array("other", "concrete",
                                               shape=expr.array.shape))
            h.assume(gm.R(res.array._u, expr.array._u))   # equal predecessor
        else:
            res = dataclasses.replace(expr, shift=expr.shift + 1)
        try:
            r = h.call(_dup_fn(), expr, res,
                       equality_comparer=EqualityComparer())
            r = bool(r)
        except EngineSignal:
            raise
        except Exception as e:  # noqa: BLE001
            h.fail("created-duplicate.no-exception", f"{type(e).__name__}: {e}")
            return
        want = case == "equal-copy-same-preds"
        h.oblige(f"created-duplicate.detects-exactly[{case}]",
                 z3.BoolVal(r is want))


@contract
class TagCountRec(Contract):
    name = "cache.TagCountMapper.rec"
    functions = ("pytato.analysis:TagCountMapper.rec",)
    properties = ("C13", "C20")

    def instances(self, tier):
        return [dict(label=f"tagged={t}", tagged=t) for t in (True, False)]

    def run(self, h, inst):
        from pytato.analysis import TagCountMapper
        from pyvc.ptlib import VerifTag
        calls = []
        s = h.nonneg("children_total")
        install_dispatch_stub(h, calls, mk=lambda e, k: s)
        m = TagCountMapper(VerifTag)
        x = gm.mk_opaque_array("x", "concrete")
        if inst["tagged"]:
            object.__setattr__(x, "tags", frozenset({VerifTag(1)}))
        r1 = h.call(m.rec, x)
        r2 = h.call(m.rec, x)
        from pyvc.sym import z_of
        h.oblige("tagcount.first-visit-counts-self-plus-children",
                 z_of(r1) == z_of(s) + (1 if inst["tagged"] else 0))
        h.oblige("tagcount.later-visits-count-zero", z_of(r2) == 0)
        h.oblige("tagcount.method-once", z3.BoolVal(len(calls) == 1))


@contract
class CloneForCallee(Contract):
    name = "cache.clone_for_callee"
    functions = ("pytato.transform:CachedMapper.clone_for_callee",
                 "pytato.transform:TransformMapper.clone_for_callee",
                 "pytato.transform:Deduplicator.clone_for_callee",
                 "pytato.transform:CachedMapAndCopyMapper.clone_for_callee",
                 "pytato.transform:CachedWalkMapper.clone_for_callee",
                 "pytato.analysis:NodeCountMapper.clone_for_callee",
                 "pytato.analysis:MaterializedNodeCollector.clone_for_callee")
    properties = ("C13", "C12")

    MAPPERS = ["CopyMapper", "Deduplicator", "CachedMapAndCopyMapper",
               "DataWrapperDeduplicator", "InlineMarker",
               "Inliner", "DeadCodeEliminator", "TopoSortMapper",
               "NodeCountMapper", "MaterializedNodeCollector",
               "EinsumWithNoBroadcastsRewriter",
               # users of the *base* CachedMapper.clone_for_callee
               "InputGatherer", "SizeParamGatherer"]

    def instances(self, tier):
        out = [dict(label=m, M=m) for m in self.MAPPERS]
        # the two reporting switches of the caches ("reports rather than
        # hides a cache-key collision"), in every combination: the clone that
        # traverses a function body must report exactly what its parent does
        for m in self.MAPPERS:
            for a in (False, True):
                for b in (False, True):
                    out.append(dict(
                        label=f"{m};err_on_collision={a};"
                              f"err_on_created_duplicate={b}", M=m,
                        flags=[a, b]))
        return out

    def run(self, h, inst):
        from pyvc import mapperlib as ml
        M = ml.mapper_by_name(inst["M"])
        flags = inst.get("flags")
        if flags is None:
            m = ml.instantiate(M)
        else:
            # through the constructor only: a class that fixes the switches
            # itself (Deduplicator, Inliner: collisions are their business)
            # has nothing to propagate
            import functools
            import inspect
            params = set()
            for klass in M.__mro__:
                init = vars(klass).get("__init__")
                if init is not None:
                    params |= set(inspect.signature(init).parameters)
                    if "kwargs" not in inspect.signature(init).parameters:
                        break
            kw = {nm: v for nm, v in zip(
                ("err_on_collision", "err_on_created_duplicate"), flags,
                strict=True) if nm in params}
            if not kw:
                h.oblige(f"clone.no-reporting-switches[{inst['M']}]",
                         z3.BoolVal(True))
                return
            fac = ml._factories().get(inst["M"], lambda C: C())
            try:
                m = fac(functools.partial(M, **kw))
            except TypeError as e:
                h.fail(f"clone.constructible-with-switches[{inst['M']}]",
                       str(e))
                return
            flags = [kw.get("err_on_collision"),
                     kw.get("err_on_created_duplicate")]
        f = gm.mk_opaque_function("f", "concrete")
        try:
            c = h.call(m.clone_for_callee, f)
        except EngineSignal:
            raise
        except Exception as e:  # noqa: BLE001
            h.fail(f"clone.no-exception[{inst['M']}]",
                   f"{type(e).__name__}: {e}")
            return
        Mn = inst["M"]
        h.oblige(f"clone.same-class[{Mn}]", z3.BoolVal(type(c) is type(m)))
        if flags is not None:
            for nm, v in zip(("err_on_collision", "err_on_created_duplicate"),
                             flags, strict=True):
                if v is None:
                    continue
                for cn in ("_cache", "_function_cache"):
                    cache = getattr(c, cn, None)
                    parent = getattr(getattr(m, cn, None), nm, None)
                    if cache is not None and hasattr(cache, nm) \
                            and parent is not None:
                        # "reports rather than hides": what the parent
                        # reports, the clone reports (it may report more)
                        h.oblige(f"clone.reports-at-least-what-the-parent-"
                                 f"reports[{Mn},{cn}.{nm}]",
                                 z3.BoolVal((not parent)
                                            or getattr(cache, nm) is True),
                                 info=f"parent {parent}, clone "
                                      f"{getattr(cache, nm)}")
            return
        if hasattr(m, "_cache"):
            # separate name space: the array cache must be a fresh one
            h.oblige(f"clone.fresh-array-cache[{Mn}]",
                     z3.BoolVal(c._cache is not m._cache
                                and not c._cache._input_key_to_result))
            h.oblige(f"clone.shared-function-cache[{Mn}]",
                     z3.BoolVal(c._function_cache is m._function_cache))
        if hasattr(m, "_visited_arrays_or_names"):
            h.oblige(f"clone.fresh-visited-set[{Mn}]",
                     z3.BoolVal(c._visited_arrays_or_names
                                is not m._visited_arrays_or_names
                                and not c._visited_arrays_or_names))
            h.oblige(f"clone.shared-visited-functions[{Mn}]",
                     z3.BoolVal(c._visited_functions is m._visited_functions))
        if hasattr(m, "materialized_nodes"):
            # what is collected inside a function body belongs to the one
            # result the caller reads
            h.oblige(f"clone.shares-the-collected-result[{Mn}]",
                     z3.BoolVal(c.materialized_nodes is m.materialized_nodes))


    def replay(self, inst, clause, model, info):
        if inst.get("flags") is None or "no-reporting-switches" in clause:
            return None
        return CLONE_REPLAY.format(M=inst["M"], flags=inst["flags"])


CLONE_REPLAY = '''
import sys, functools
sys.path.insert(0, "/verif")
sys.path.append("/verif/.deps")
import numpy as np
import pytato as pt
from pyvc import mapperlib as ml
from pyvc.replaylib import reproduced, not_reproduced
Mn, (a, b) = {M!r}, {flags!r}
M = ml.mapper_by_name(Mn)
fac = ml._factories().get(Mn, lambda C: C())
try:
    m = fac(functools.partial(M, err_on_collision=a, err_on_created_duplicate=b))
except TypeError:
    m = fac(functools.partial(M, err_on_collision=a))
x = pt.make_placeholder("x", (3,), np.float64)
call = pt.trace_call(lambda t: (t + 1) * (t + 1), x).call   # body holds x+1 twice
c = m.clone_for_callee(call.function)
for cn in ("_cache", "_function_cache"):
    for nm in ("err_on_collision", "err_on_created_duplicate"):
        p = getattr(getattr(m, cn, None), nm, None)
        q = getattr(getattr(c, cn, None), nm, None)
        if p is True and q is False:
            reproduced(f"{{Mn}}(err_on_collision={{a}}, err_on_created_duplicate={{b}})"
                       f".clone_for_callee(f): the mapper that traverses the "
                       f"function body has {{cn}}.{{nm}} = False although its "
                       f"parent has True: a collision inside a called function "
                       f"is hidden")
not_reproduced("the clone reports at least what its parent reports")
'''


@contract
class CacheKeyWithExtraArgs(Contract):
    name = "cache.get_cache_key"
    functions = ("pytato.transform:CachedMapper.get_cache_key",
                 "pytato.transform:CachedMapper."
                 "get_function_definition_cache_key")
    properties = ("C13",)

    def instances(self, tier):
        return [dict(label=k, how=k) for k in
                ("no-extra", "positional-extra", "keyword-extra", "both")]

    def run(self, h, inst):
        from pytato.transform import CachedMapper
        m = CachedMapper()
        x = gm.mk_opaque_array("x", "concrete", rank=1)
        how = inst["how"]
        args = (7,) if how in ("positional-extra", "both") else ()
        kwargs = dict(k=8) if how in ("keyword-extra", "both") else {}
        for fn, arg in ((m.get_cache_key, x),
                        (m.get_function_definition_cache_key,
                         gm.mk_opaque_function("f", "concrete"))):
            nm = fn.__name__
            try:
                key = h.call(fn, arg, *args, **kwargs)
            except EngineSignal:
                raise
            except NotImplementedError:
                # the base class cannot know how extra arguments enter the
                # key: it must refuse, not ignore them
                h.oblige(f"cachekey.refuses-only-with-extra-args[{nm}]",
                         z3.BoolVal(how != "no-extra"))
                continue
            if how == "no-extra":
                h.oblige(f"cachekey.is-the-node[{nm}]",
                         z3.BoolVal(key is arg))
            else:
                # a key was produced although extra arguments were given: it
                # has to depend on them
                key2 = h.call(fn, arg, *[a + 1 for a in args],
                              **{k: v + 1 for k, v in kwargs.items()})
                h.oblige(f"cachekey.extra-args-are-part-of-the-key[{nm}]",
                         z3.BoolVal(key != key2))
