"""Validation of the trusted *specification* functions against CPython/NumPy
themselves, on a grid (an extra of C02, C03, C11, C01; never counted as a
proof of the code -- it narrows the trusted base: the spec functions the
``ensures`` clauses are written with are the definitions they claim to be).

* ``contracts.slices.cpy_slice`` / ``pylen`` against ``slice.indices`` and
  ``len(range(...))``;
* ``pyvc.sym.py_floordiv`` / ``py_mod`` (symbolic and constant divisor forms)
  against Python's ``//`` and ``%``;
* NumPy's own agreement with CPython slicing (``len(np.arange(n)[s])``), so
  that "CPython's slice semantics" may stand in for "NumPy's".
"""
from __future__ import annotations

import itertools

import z3


def _val(t):
    t = z3.simplify(t)
    if not z3.is_int_value(t):
        raise ValueError(f"spec term did not evaluate: {t}")
    return t.as_long()


def spec_grid(tier, seed):
    import numpy as np

    from contracts.slices import cpy_slice, pylen
    from pyvc.sym import py_floordiv, py_mod
    failures = []
    n_eval = 0
    rng_n = range(0, 5 if tier != "thorough" else 7)
    bnd = 4 if tier != "thorough" else 9
    vals = [None, *range(-bnd, bnd + 1)]
    steps = [None, -3, -2, -1, 1, 2, 3] if tier != "thorough" else \
        [None, -4, -3, -2, -1, 1, 2, 3, 4]
    I = z3.IntVal  # noqa: E741
    for n in rng_n:
        ar = np.arange(n)
        for start, stop, step in itertools.product(vals, vals, steps):
            sl = slice(start, stop, step)
            a, b, s = sl.indices(n)
            want_len = len(range(a, b, s))
            s0, _s1, st, L = cpy_slice(
                I(n), None if start is None else I(start),
                None if stop is None else I(stop),
                None if step is None else I(step))
            got = (_val(st), _val(L))
            n_eval += 1
            bad = got != (s, want_len) or (
                want_len > 0 and _val(s0) != a)
            if len(ar[sl]) != want_len:
                bad = True
            if _val(pylen(I(a), I(b), I(s))) != want_len:
                bad = True
            if bad and len(failures) < 5:
                failures.append(dict(
                    key=f"cpy_slice|n={n};slice=({start},{stop},{step})",
                    what=f"cpy_slice gives step,len={got}, start={_val(s0)}; "
                         f"CPython gives {(a, b, s)} len {want_len}; NumPy "
                         f"len {len(ar[sl])}"))
    x, y = z3.Int("x"), z3.Int("y")
    for a in range(-bnd - 3, bnd + 4):
        for b in range(-bnd, bnd + 1):
            if b == 0:
                continue
            n_eval += 1
            forms = {
                "const": (py_floordiv(I(a), I(b)), py_mod(I(a), I(b))),
                "sym": (z3.substitute(py_floordiv(x, y), (x, I(a)), (y, I(b))),
                        z3.substitute(py_mod(x, y), (x, I(a)), (y, I(b)))),
                "sym-num": (z3.substitute(py_floordiv(x, I(b)), (x, I(a))),
                            z3.substitute(py_mod(x, I(b)), (x, I(a)))),
            }
            for nm, (q, r) in forms.items():
                if (_val(q), _val(r)) != (a // b, a % b) and len(failures) < 8:
                    failures.append(dict(
                        key=f"py_divmod[{nm}]|{a},{b}",
                        what=f"spec gives {(_val(q), _val(r))}, Python "
                             f"{(a // b, a % b)}"))
    return dict(name="spec-grid", kind="spec-validation",
                what="cpy_slice/pylen vs slice.indices, len(range) and NumPy "
                     "slicing; py_floordiv/py_mod vs Python // and %",
                bound=f"n<{rng_n.stop}, |start|,|stop|<={bnd}, steps {steps}; "
                      f"dividends |a|<={bnd + 3}, divisors |b|<={bnd}",
                evaluations=n_eval, failures=failures)
