"""C08 -- the distributed executor, per rank, under every order of message
completion that message passing permits.

exec.schedules   the real ``execute_distributed_partition`` is interpreted for
                 one rank of a listed program; MPI and the per-part programs
                 are replaced by their contracts:

  * ``Irecv`` returns a pending request; ``MPI.Request.Waitsome`` -- the
    scheduler -- returns an *adversarially chosen non-empty subset* of the
    pending receives that can have arrived: a message can arrive once every
    local send among the causal ancestors of its own send (global part graph,
    C09) has been posted; the other ranks are assumed to make progress
    (assume/guarantee: each rank is checked separately against the same
    contract).  All choices are explored (path forks).  ``Waitsome`` on no
    completable request means the rank would block for ever;
  * a completed receive carries what the unpartitioned global graph says the
    sender's data is; conversely every ``Isend`` payload of this rank must be
    that value (``exec.sends-carry-the-right-data``);
  * the program of a part is its denotation evaluated with NumPy on the
    inputs it is handed (``replaylib.eval_array``): it fails if it is handed
    anything but the part's declared inputs;
  * ``pyopencl.array.to_device`` is the identity on host buffers.

  Postconditions on every path: the call returns (terminates), raises nothing
  (a ``KeyError`` on ``context[..]`` is a value read before it was produced or
  after it was released; the executor's own final asserts on the reference
  counts are live), and the returned outputs equal the unpartitioned
  evaluation.

Inputs are concrete random arrays (values are not the subject here: the value
part for all inputs is ``dist.find.value``); programs are listed; schedules are
exhaustive -> level exploration for this contract.
"""
from __future__ import annotations

import itertools

import numpy as np
import z3

import pytato as pt

from pyvc import dist_programs as D
from pyvc import fakempi
from pyvc.core import Contract, contract
from pyvc.replaylib import eval_array
from pyvc.sym import EngineSignal
from pyvc.unordered import OneSiteAtATime

_SETUP: dict = {}


class WouldBlockForever(Exception):
    pass


def setup(prog, size, staple):
    """Partitions (numbered), expected values -- computed natively once."""
    key = (prog, size, staple)
    if key in _SETUP:
        return _SETUP[key]
    fakempi.install_fake_mpi4py()
    ctxs = {}

    def program(comm):
        ctx, outs = D.build_rank(prog, comm.rank, size, None, staple)
        ctxs[comm.rank] = ctx
        sym = pt.find_distributed_partition(comm, outs)
        num, _nxt = pt.number_distributed_tags(comm, sym, base_tag=100)
        return sym, num
    _w, res = fakempi.run_spmd(size, program)
    sym = [s for s, _ in res]
    num = [n for _, n in res]
    rng = np.random.default_rng(7)
    xs = {r: rng.integers(-4, 5, D.SHAPE).astype(np.float64)
          for r in range(size)}
    data = {id(ctxs[r].x): xs[r] for r in range(size)}
    orig = D.global_original([ctxs[r].outputs for r in range(size)])
    expected_out = [{nm: eval_array(e, data) for nm, e in orig[r].items()}
                    for r in range(size)]
    payload = {}
    # evaluate send data through the global graph
    sends_expr = {}
    for r in range(size):
        for pid, part in num[r].parts.items():
            for name, sends in part.name_to_send_nodes.items():
                for s in sends:
                    sends_expr[(r, s.dest_rank, s.comm_tag)] = (r, name)
    for (src, dst, tag), (r, name) in sends_expr.items():
        # value of part output `name` on rank r, wired globally
        one = D.global_partitioned(
            [_with_overall(num[q], [name] if q == r else [])
             for q in range(size)],
            [{"x": ctxs[q].x} for q in range(size)])
        payload[(src, dst, tag)] = eval_array(one[r][name], data)
    # causal ancestors: which local sends must be posted before a receive of
    # rank r can arrive  (global part graph: local order + messages)
    needs = {}
    send_part, recv_part = {}, {}
    for r in range(size):
        for pid, part in num[r].parts.items():
            needs[(r, pid)] = {(r, q) for q in part.needed_pids}
            for sends in part.name_to_send_nodes.values():
                for s in sends:
                    send_part[(r, s.dest_rank, s.comm_tag)] = (r, pid)
            for rv in part.name_to_recv_node.values():
                recv_part[(rv.src_rank, r, rv.comm_tag)] = (r, pid)
    for k, rp in recv_part.items():
        needs[rp].add(send_part[k])

    def ancestors(node, seen=None):
        seen = set() if seen is None else seen
        for m in needs.get(node, ()):
            if m not in seen:
                seen.add(m)
                ancestors(m, seen)
        return seen
    local_sends_before = {}
    for k in recv_part:
        r = k[1]
        anc = ancestors(send_part[k]) | {send_part[k]}
        local_sends_before[k] = {s for s, sp in send_part.items()
                                 if s[0] == r and sp in anc}
    out = dict(num=num, xs=xs, expected_out=expected_out, payload=payload,
               local_sends_before=local_sends_before)
    _SETUP[key] = out
    return out


def _with_overall(partition, names):
    import dataclasses
    return dataclasses.replace(partition, overall_output_names=tuple(names))


class Req:
    def __init__(self, kind, key, buf=None):
        self.kind, self.key, self.buf = kind, key, buf
        self.done = False

    def Wait(self):  # noqa: N802
        pass


class ExecComm:
    def __init__(self, rank, size, S):
        self.rank, self.size, self.S = rank, size, S
        self.posted = {}

    def Irecv(self, buf=None, source=None, tag=None):  # noqa: N802
        return Req("recv", (source, self.rank, tag), buf)

    def Isend(self, data, dest=None, tag=None):  # noqa: N802
        self.posted[(self.rank, dest, tag)] = np.array(data, copy=True)
        return Req("send", (self.rank, dest, tag))


@contract
class ExecutorSchedules(Contract):
    name = "exec.schedules"
    functions = ("pytato.distributed.execute:execute_distributed_partition",
                 "pytato.distributed.execute:_post_receive",
                 "pytato.distributed.execute:_mpi_send")
    properties = ("C08",)
    max_paths = 20000

    def instances(self, tier):
        out = []
        for prog in D.PROGRAMS:
            if prog == "sizeparam":
                continue   # (parametric sizes: the fake part programs and
                #            input set-up here are for static shapes)
            for size in (2, 3):
                if tier != "thorough" and size == 3 and prog not in (
                        "halo2", "ring", "forwarding", "multisend"):
                    continue
                for r in range(size):
                    out.append(dict(label=f"{prog};ranks={size};rank={r}",
                                    prog=prog, size=size, rank=r))
        import os
        base = int(os.environ.get("VERIF_SEED", "1") or 1) * 1000
        for i in range(24 if tier != "thorough" else 240):
            size = (2, 3, 4)[i % 3]
            for r in range(size):
                out.append(dict(label=f"random{base + i};ranks={size};"
                                      f"rank={r}", prog=f"random{base + i}",
                                size=size, rank=r))
        return out

    def canaries(self, tier):
        return [(dict(label="halo2;ranks=2;rank=0", prog="halo2", size=2,
                      rank=0), "expect-the-other-rank's-outputs",
                 "exec.outputs")]

    _spun: set = set()

    def run(self, h, inst):
        from pytato.distributed.execute import execute_distributed_partition
        if inst["label"] in self._spun:
            h.trivial = True
            return
        try:
            S = setup(inst["prog"], inst["size"], "chain")
        except EngineSignal:
            raise
        except Exception as e:  # noqa: BLE001
            # no partition to execute: the partitioner itself failed on a
            # valid program (its own contracts: C09/C10)
            h.fail("exec.a-valid-program-has-a-partition",
                   f"{type(e).__name__}: {e}"[:200])
            return
        import mpi4py.MPI as MPI  # the fake module (installed by setup)
        me = inst["rank"]
        partition = S["num"][me]
        comm = ExecComm(me, inst["size"], S)
        ctx = h.ctx
        trace = []

        def waitsome(it, args, kwargs):
            reqs = args[0]
            pend = [(i, q) for i, q in enumerate(reqs)]
            can = [(i, q) for i, q in pend
                   if all(s in comm.posted
                          for s in S["local_sends_before"][q.key])]
            if not can:
                raise WouldBlockForever(
                    f"waits on {[q.key for _i, q in pend]} of which none can "
                    "arrive")
            # adversary: any non-empty subset of what can have arrived
            chosen = []
            for i, q in can:
                rest_needed = not chosen and (i, q) == can[-1]
                if rest_needed or ctx.branch(_t(ctx.fresh_bool("arrives"))):
                    chosen.append(i)
                    q.buf[...] = S["payload"][q.key]
            trace.append(tuple(reqs[i].key for i in chosen))
            return chosen

        class Request:
            Waitsome = staticmethod(lambda reqs: None)
        h.interp.intercepts[Request.Waitsome] = waitsome
        MPI.Request = Request
        import pyopencl.array as cl_array
        h.interp.intercepts[cl_array.to_device] = \
            lambda it, args, kwargs: np.array(args[1], copy=True)
        executed = []

        def mk_prg(pid, part):
            def prg(queue, allocator=None, **inputs):
                want = set(part.all_input_names())
                if set(inputs) != want:
                    raise KeyError(f"part {pid} handed {sorted(inputs)}, "
                                   f"declares {sorted(want)}")
                executed.append(pid)
                return None, {nm: eval_array(partition.name_to_output[nm],
                                             dict(inputs))
                              for nm in part.output_names}
            return prg
        prgs = {pid: mk_prg(pid, part)
                for pid, part in partition.parts.items()}
        h.interp.unordered_hook = OneSiteAtATime(ctx)
        # a loop that neither makes progress nor waits would spin for ever:
        # bounded by a budget of interpreted calls (the longest path of the
        # thorough tier on the unchanged tree takes 362; the budget is ~30x)
        from pyvc.interp import StepBudgetExceeded
        h.interp.max_steps = h.interp.steps + 10000
        try:
            out = h.call(execute_distributed_partition, partition, prgs, None,
                         comm, input_args={"x": S["xs"][me]})
        except EngineSignal:
            raise
        except StepBudgetExceeded as e:
            h.fail("exec.terminates-under-every-permitted-arrival-order",
                   f"{e} without returning; arrivals so far {trace}, parts "
                   f"executed {executed}")
            # every further arrival order of this instance would spin the
            # same way: one report is enough
            self._spun.add(inst["label"])
            return
        except WouldBlockForever as e:
            h.fail("exec.terminates-under-every-permitted-arrival-order",
                   f"{e}; arrivals so far {trace}, parts executed {executed}")
            return
        except KeyError as e:
            h.fail("exec.no-value-read-before-produced-or-after-released",
                   f"KeyError {e}; arrivals {trace}, parts executed "
                   f"{executed}")
            return
        except Exception as e:  # noqa: BLE001
            h.fail("exec.no-exception",
                   f"{type(e).__name__}: {e}; arrivals {trace}")
            return
        finally:
            h.interp.unordered_hook = None
        h.oblige("exec.terminates-under-every-permitted-arrival-order",
                 z3.BoolVal(True), info=dict(arrivals=trace))
        h.oblige("exec.every-part-executed-once", z3.BoolVal(
            sorted(executed) == sorted(partition.parts)), info=executed)
        exp = S["expected_out"][me]
        if h.canary:
            exp = S["expected_out"][(me + 1) % inst["size"]]
        ok = set(out) == set(exp) and all(
            np.allclose(np.asarray(out[k]), exp[k]) for k in exp)
        h.oblige("exec.outputs-equal-unpartitioned-evaluation",
                 z3.BoolVal(bool(ok)),
                 info=None if ok else dict(arrivals=trace))
        mine = {k: v for k, v in S["payload"].items() if k[0] == me}
        ok = set(comm.posted) == set(mine) and all(
            np.allclose(comm.posted[k], mine[k]) for k in mine)
        h.oblige("exec.sends-carry-the-right-data", z3.BoolVal(bool(ok)),
                 info=None if ok else sorted(map(str, comm.posted)))


    def replay(self, inst, clause, model, info):
        return EXEC_REPLAY.format(prog=inst["prog"], size=inst["size"],
                                  rank=inst["rank"])


def _t(b):
    return getattr(b, "t", b)


def native_explore(prog, size, rank, max_runs=20000):
    """Replay: run the real executor natively for one rank under every
    permitted arrival schedule (DFS over decision vectors); returns the first
    failure (schedule, what) or None."""
    import sys
    import types

    from pytato.distributed.execute import execute_distributed_partition
    S = setup(prog, size, "chain")
    import mpi4py.MPI as MPI
    import pyopencl.array as cl_array
    partition = S["num"][rank]
    worklist = [[]]
    runs = 0
    real_to_device = cl_array.to_device
    cl_array.to_device = lambda queue, buf, allocator=None: np.array(
        buf, copy=True)
    try:
        while worklist and runs < max_runs:
            dec = worklist.pop()
            runs += 1
            taken = []
            comm = ExecComm(rank, size, S)
            trace = []

            def choose(dec=dec, taken=taken):
                k = len(taken)
                if k < len(dec):
                    c = dec[k]
                else:
                    c = True
                    worklist.append([*taken, False])
                taken.append(c)
                return c

            def waitsome(reqs, comm=comm, trace=trace, choose=choose):
                can = [(i, q) for i, q in enumerate(reqs)
                       if all(s in comm.posted
                              for s in S["local_sends_before"][q.key])]
                if not can:
                    raise WouldBlockForever(str([q.key for q in reqs]))
                chosen = []
                for i, q in can:
                    last = not chosen and (i, q) == can[-1]
                    if last or choose():
                        chosen.append(i)
                        q.buf[...] = S["payload"][q.key]
                trace.append([reqs[i].key for i in chosen])
                return chosen
            MPI.Request = types.SimpleNamespace(Waitsome=waitsome)

            def mk_prg(pid, part):
                def prg(queue, allocator=None, **inputs):
                    if set(inputs) != set(part.all_input_names()):
                        raise KeyError(f"part {pid} inputs {sorted(inputs)}")
                    return None, {
                        nm: eval_array(partition.name_to_output[nm],
                                       dict(inputs))
                        for nm in part.output_names}
                return prg
            prgs = {pid: mk_prg(pid, part)
                    for pid, part in partition.parts.items()}
            try:
                out = execute_distributed_partition(
                    partition, prgs, None, comm,
                    input_args={"x": S["xs"][rank]})
            except Exception as e:  # noqa: BLE001
                return trace, f"{type(e).__name__}: {e}"
            exp = S["expected_out"][rank]
            if set(out) != set(exp) or not all(
                    np.allclose(np.asarray(out[k]), exp[k]) for k in exp):
                return trace, "outputs differ from the unpartitioned " \
                    "evaluation"
            mine = {k: v for k, v in S["payload"].items() if k[0] == rank}
            if set(comm.posted) != set(mine) or not all(
                    np.allclose(comm.posted[k], mine[k]) for k in mine):
                return trace, "a send carries the wrong data"
    finally:
        cl_array.to_device = real_to_device
    del sys
    return None


EXEC_REPLAY = '''
import sys
sys.path.insert(0, "/verif"); sys.path.append("/verif/.deps")
from pyvc.replaylib import reproduced, not_reproduced
from contracts.c08_executor import native_explore
r = native_explore({prog!r}, {size!r}, {rank!r})
if r is not None:
    reproduced(f"rank {rank} of program '{prog}' on {size} ranks, messages "
               f"arriving in the order {{r[0]}}: {{r[1]}}")
not_reproduced("every permitted arrival schedule runs to the right outputs")
'''
