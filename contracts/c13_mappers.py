"""C13 (and the traversal half of C20) -- per-node-kind mapper methods.

child-reached[M,K,c]   M.map_K invokes the recursion on every declared array
                       child c of K (operands, array-valued shape components,
                       array indices, sparse-matrix parts, send payloads,
                       containers, call bindings); the data model is
                       ``dataclasses.fields`` of the running classes.
identity[M,K]          copy-family: if the recursion returns every child
                       unchanged, map_K returns its argument itself.
post-visit-last[M,K]   walk-family: post_visit(expr) happens after every
                       child's recursion returned (=> topological order).
rec.* / cache.*        memoisation contracts of every ``rec`` implementation
                       and of the caches (see below).
"""
from __future__ import annotations

import z3

from pytato.array import Array
from pytato.function import FunctionDefinition

from pyvc import graphmodel as gm
from pyvc import mapperlib as ml
from pyvc.core import Contract, contract
from pyvc.sym import EngineSignal

BASE_CFG = dict(n_children=2, shape=["int", "arr"],
                indices=["int", "slice", "arr"], keys=["_in0", "x"], rank=1)

TOKENS = {"ListOfInputsGatherer": list, "TagCountMapper": lambda: 0}


def kinds():
    return [*gm.node_classes(), FunctionDefinition]


def method_name(K):
    return "map_function_definition" if K is FunctionDefinition \
        else K._mapper_method


def kind_by_name(name):
    for k in kinds():
        if k.__name__ == name:
            return k
    raise KeyError(name)


def setup(h, Mname, Kname, mode=None, cfg=None):
    M = ml.mapper_by_name(Mname)
    K = kind_by_name(Kname)
    b = ml.build_node(K, "e", cfg or BASE_CFG)
    mapper = ml.instantiate(M)
    rec = ml.Recorder()
    fam = ml.family(M)
    if mode is None:
        mode = {"copy": "identity", "combine": "token", "walk": "none",
                "plain": "none"}[fam]
    tok = TOKENS.get(Mname, frozenset)
    rec.token = lambda x: tok()
    ml.stub_mapper(mapper, rec, mode)
    if Mname == "CombineMapper":
        mapper.combine = lambda *a: frozenset()
    if Mname == "CachedWalkMapper":
        mapper.get_cache_key = lambda e, *a, **k: id(e)
        mapper.get_function_definition_cache_key = lambda e, *a, **k: id(e)
    return M, K, b, mapper, rec, fam


def pairs(mappers=None):
    out = []
    for Mname in (mappers or ml.STRUCTURAL_MAPPERS):
        try:
            M = ml.mapper_by_name(Mname)
        except KeyError:
            continue
        for K in kinds():
            if (Mname, K.__name__) in SKIPPED_PAIRS:
                continue
            if getattr(M, method_name(K), None) is not None:
                out.append((Mname, K.__name__))
    return out


#: (mapper, kind) pairs whose traversal is *documented* to stop short
DOCUMENTED_EXCEPTIONS = {
    # "does not consider the nodes inside a FunctionDefinition"
    ("TopoSortMapper", "FunctionDefinition"),
}

#: pairs the generic harness cannot drive (reason) -- not claimed here
SKIPPED_PAIRS = {
    ("EinsumWithNoBroadcastsRewriter", "Einsum"):
        "takes an extra argument; covered by the C06 contracts",
    ("UsersCollector", "FunctionDefinition"):
        "asserts it is never reached (a fresh collector per function body)",
    ("InputGatherer", "FunctionDefinition"):
        "spawns its own mapper for the body instead of clone_for_callee",
    ("ListOfInputsGatherer", "FunctionDefinition"):
        "spawns its own mapper for the body instead of clone_for_callee",
    ("SizeParamGatherer", "FunctionDefinition"):
        "spawns its own mapper for the body instead of clone_for_callee",
}

#: copy-family pairs that change the node on purpose (no identity clause)
CHANGES_BY_DESIGN = {("InlineMarker", "Call")}

#: (kind, field): array components that every constructor-built node of the
#: kind also exposes through another declared child (validity invariant), so
#: the whole-graph property does not depend on map_K visiting them directly
REDUNDANT_CHILDREN = {
    ("CSRMatmul", "matrix.shape"):
        "make_csr_matrix/sparse_matmul force shape[0]+1 == len(row_starts) "
        "and shape[1] == array.shape[0]: the components are reached through "
        "row_starts / array",
    ("Reshape", "newshape"):
        "reshape() rejects symbolic newshape; expand_dims() copies the "
        "components of array.shape, which are reached through array",
}


@contract
class ChildCoverage(Contract):
    name = "mappers.children"
    functions = ("pytato.transform:CopyMapper.map_*",
                 "pytato.transform:CopyMapperWithExtraArgs.map_*",
                 "pytato.transform:CombineMapper.map_*",
                 "pytato.transform:DependencyMapper.map_*",
                 "pytato.transform:WalkMapper.map_*",
                 "pytato.transform:UsersCollector.map_*",
                 "pytato.analysis:ListOfUsersCollector.map_*",
                 "pytato.analysis:ListOfDirectPredecessorsGetter.map_*",
                 "(every map_* the structural mapper classes resolve for "
                 "every node kind; list in evidence.functions_under_contract)")
    properties = ("C13", "C20")

    def instances(self, tier):
        out = []
        for Mn, Kn in pairs():
            out.append(dict(label=f"{Mn};{Kn}", M=Mn, K=Kn))
            K = kind_by_name(Kn)
            import dataclasses
            if any(gm.classify(K, f) in (gm.CHILDMAP, gm.CHILDMAP_S)
                   for f in dataclasses.fields(K)) and Kn != "LoopyCall":
                # mapping fields whose insertion order is not sorted
                out.append(dict(label=f"{Mn};{Kn};unsorted-keys", M=Mn, K=Kn,
                                cfg=dict(BASE_CFG, keys=["x", "_in0"])))
        return out

    def canaries(self, tier):
        return [(dict(label="CopyMapper;Roll", M="CopyMapper", K="Roll"),
                 "phantom-child", "child-reached[CopyMapper,Roll,phantom]",
                 ("C13", "C20"))]

    def run(self, h, inst):
        Mn, Kn = inst["M"], inst["K"]
        M, K, b, mapper, rec, fam = setup(h, Mn, Kn, cfg=inst.get("cfg"))
        method = getattr(mapper, method_name(K))
        try:
            result = h.call(method, b.obj)
        except EngineSignal:
            raise
        except NotImplementedError as e:
            # explicitly unsupported combination (context-dependent in a
            # base class): nothing is traversed, nothing is claimed
            h.oblige(f"unsupported-is-explicit[{Mn},{Kn}]", z3.BoolVal(True),
                     info=str(e)[:100])
            return
        except Exception as e:  # noqa: BLE001
            h.fail(f"no-exception[{Mn},{Kn}]", f"{type(e).__name__}: {e}")
            return
        reached = {id(x) for x in rec.rec_args} | {id(x) for x in rec.fn_args}
        if Mn == "ListOfDirectPredecessorsGetter":
            # no recursion: the returned list *is* the set of reached nodes
            reached |= {id(x) for x in (result or [])}
        children = b.children(with_functions=False)
        if h.canary == "phantom-child":
            children = [*children, gm.mk_opaque_array("phantom", "concrete")]
        if (Mn, Kn) in DOCUMENTED_EXCEPTIONS:
            h.oblige(f"documented-exception[{Mn},{Kn}]", z3.BoolVal(True))
            return
        if not children:
            h.oblige(f"no-children[{Mn},{Kn}]", z3.BoolVal(True))
        for c in children:
            lab = getattr(c, "_label", type(c).__name__)
            if any(Kn == k and lab.startswith(f"e.{f}")
                   for (k, f) in REDUNDANT_CHILDREN):
                continue
            h.oblige(f"child-reached[{Mn},{Kn},{lab}]",
                     z3.BoolVal(id(c) in reached))
        if fam == "copy" and (Mn, Kn) not in CHANGES_BY_DESIGN:
            h.oblige(f"identity[{Mn},{Kn}]", z3.BoolVal(result is b.obj),
                     props=("C13", "C05"),
                     info=f"result {type(result).__name__}")
        if fam == "walk":
            evs = rec.events
            # post_visit is observed through the real method: wrap it
            pass

    def replay(self, inst, clause, model, info):
        import re
        m = re.match(r"child-reached\[(\w+),(\w+),e\.([\w.\[\]]+)\]", clause)
        if not m:
            return None
        return CHILD_REPLAY.format(M=m.group(1), K=m.group(2),
                                   path=m.group(3))


CHILD_REPLAY = '''
import sys
sys.path.insert(0, "/verif")
from pyvc.replay_nodes import sample_node, reach_only_through
from pyvc.replaylib import reproduced, not_reproduced
M, K, path = {M!r}, {K!r}, {path!r}
msg = reach_only_through(M, K, path)
if msg:
    reproduced(msg)
not_reproduced("the child is reached on the sampled real graphs")
'''


@contract
class WalkOrder(Contract):
    name = "mappers.walk-order"
    functions = ("pytato.transform:WalkMapper.map_*",)
    properties = ("C20", "C13")

    WALKERS = ["WalkMapper", "CachedWalkMapper", "TopoSortMapper",
               "NodeCountMapper", "NodeMultiplicityMapper",
               "CallSiteCountMapper", "MaterializedNodeCollector",
               "NamesValidityChecker"]

    def instances(self, tier):
        return [dict(label=f"{Mn};{Kn}", M=Mn, K=Kn)
                for Mn, Kn in pairs(self.WALKERS)]

    def run(self, h, inst):
        Mn, Kn = inst["M"], inst["K"]
        M, K, b, mapper, rec, fam = setup(h, Mn, Kn)
        real_post = mapper.post_visit

        def post_visit(expr, *a, **k):
            rec.events.append(("post_visit", expr))
            return h.call(real_post, expr, *a, **k)
        mapper.post_visit = post_visit
        method = getattr(mapper, method_name(K))
        try:
            h.call(method, b.obj)
        except EngineSignal:
            raise
        except Exception as e:  # noqa: BLE001
            h.fail(f"no-exception[{Mn},{Kn}]", f"{type(e).__name__}: {e}")
            return
        if (Mn, Kn) in DOCUMENTED_EXCEPTIONS:
            h.oblige(f"documented-exception[{Mn},{Kn}]", z3.BoolVal(True))
            return
        pv = [i for i, ev in enumerate(rec.events)
              if ev[0] == "post_visit" and ev[1] is b.obj]
        recs = [i for i, ev in enumerate(rec.events) if ev[0] != "post_visit"]
        h.oblige(f"post-visit-once[{Mn},{Kn}]", z3.BoolVal(len(pv) == 1))
        h.oblige(f"post-visit-last[{Mn},{Kn}]",
                 z3.BoolVal(bool(pv) and all(i < pv[0] for i in recs)))


# {{{ dispatch completeness

#: (mapper, kind) pairs for which no method is *meant* to resolve
DISPATCH_EXEMPT = {
    ("CombineMapper", "SizeParam"):
        "abstract base: what a size parameter contributes is the subclass's "
        "decision (every concrete subclass is checked)",
    ("UsersCollector", "FunctionDefinition"):
        "asserts it is never reached (a fresh collector per function body)",
}

#: general-purpose mappers that are expected to accept *every* node kind the
#: array API can put into a graph (special-purpose ones -- code generators,
#: shape-expression mappers, the lowering -- document a restricted input)
DISPATCH_MAPPERS = list(ml.STRUCTURAL_MAPPERS)


@contract
class DispatchComplete(Contract):
    """``pairs()`` above takes its instance list from the code (the pairs for
    which a method exists), so a mapper that simply lacks the method for a
    node kind would go unnoticed there.  Here the real ``Mapper.rec`` /
    ``rec_function_definition`` look-up is executed (source interpreted, every
    ``map_*`` replaced by a marker) for every general-purpose mapper and
    every node kind: it must resolve to *some* method -- directly or through
    the MRO fall-back -- instead of ending in ``handle_unsupported_array``."""
    name = "mappers.dispatch"
    functions = ("pytato.transform:Mapper.rec",
                 "pytato.transform:Mapper.rec_function_definition")
    properties = ("C13", "C20")

    def instances(self, tier):
        out = []
        for Mn in DISPATCH_MAPPERS:
            try:
                ml.mapper_by_name(Mn)
            except KeyError:
                continue
            for K in kinds():
                if K is FunctionDefinition:
                    # reached only from a mapper's own map_call, and only if
                    # that chooses to descend: the pairs with a method are
                    # instances of mappers.children
                    continue
                out.append(dict(label=f"{Mn};{K.__name__}", M=Mn,
                                K=K.__name__))
        return out

    def canaries(self, tier):
        return [(dict(label="CopyMapper;Roll", M="CopyMapper", K="Roll"),
                 "method-removed", "dispatch-complete[CopyMapper,Roll]",
                 ("C13", "C20"))]

    def run(self, h, inst):
        from pytato.transform import Mapper, UnsupportedArrayError
        Mn, Kn = inst["M"], inst["K"]
        M, K = ml.mapper_by_name(Mn), kind_by_name(Kn)
        if (Mn, Kn) in DISPATCH_EXEMPT:
            h.oblige(f"dispatch-exempt[{Mn},{Kn}]", z3.BoolVal(True),
                     info=DISPATCH_EXEMPT[Mn, Kn])
            return
        hit = []

        class Probe(M):
            pass
        names = {n for c in M.__mro__ for n in vars(c) if n.startswith("map_")}
        if h.canary == "method-removed":
            names.discard(method_name(K))
            setattr(Probe, method_name(K), property(
                lambda self: (_ for _ in ()).throw(AttributeError("removed"))))
        for n in names:
            setattr(Probe, n, (lambda n_: lambda self, expr, *a, **k:
                               hit.append(n_))(n))
        try:
            mapper = ml._factories().get(Mn, lambda C: C())(Probe)
        except Exception as e:  # noqa: BLE001
            from pyvc.sym import OutsideSubset
            raise OutsideSubset(f"cannot instantiate {Mn}: {e}") from e
        node = gm.build(K, "e", "concrete", dict(BASE_CFG)).obj
        entry = Mapper.rec_function_definition if K is FunctionDefinition \
            else Mapper.rec
        try:
            h.call(entry, mapper, node)
        except EngineSignal:
            raise
        except (UnsupportedArrayError, ValueError) as e:
            h.fail(f"dispatch-complete[{Mn},{Kn}]",
                   f"{type(e).__name__}: {e}")
            return
        h.oblige(f"dispatch-complete[{Mn},{Kn}]", z3.BoolVal(len(hit) == 1),
                 info=hit)

    def replay(self, inst, clause, model, info):
        return DISPATCH_REPLAY.format(M=inst["M"], K=inst["K"])


DISPATCH_REPLAY = '''
import sys
sys.path.insert(0, "/verif")
sys.path.append("/verif/.deps")
from pyvc.replay_nodes import sample_node, symbolic_sample_node
from pyvc.replaylib import reproduced, not_reproduced
from pyvc import mapperlib as ml
from pytato.transform import UnsupportedArrayError
Mn, Kn = {M!r}, {K!r}
M = ml.mapper_by_name(Mn)
for node in [*sample_node(Kn), *symbolic_sample_node(Kn)]:
    try:
        ml.instantiate(M)(node)
    except UnsupportedArrayError as e:
        reproduced(f"{{Mn}} run on a real graph containing a {{Kn}} "
                   f"({{node!r:.120}}) raises UnsupportedArrayError: {{e}}")
    except Exception:
        pass
not_reproduced("no sampled real graph ends in handle_unsupported_array")
'''

# }}}
