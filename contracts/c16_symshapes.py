"""C16 -- symbolic shapes: decisions are sound (and complete) for all sizes.

The shape components are *real* pytato scalar expressions built through the
real operator overloads from real ``SizeParam``s with **symbolic integer**
coefficients, so one instance covers every coefficient value (not just
[-3, 3]).  islpy is external; it is replaced by its assumed contract
(``pyvc/islmodel.py``: affine forms as coefficient vectors).

symshape.eq        are_shape_components_equal(d1, d2)
                     True   =>  forall p: d1(p) == d2(p)   (p symbolic)
                     False  =>  d1(w) != d2(w) for a witness w in
                                {0, e_1, .., e_k}  (an affinely spanning grid)
symshape.nonneg    _is_non_negative(d)
                     True   =>  forall p >= 0: d(p) >= 0
                     False  =>  d(w) < 0 for w in {0, (|d(0)|+1) e_i}
symshape.lemma     the closed form islmodel uses for inclusion in the
                   non-negative orthant, proved against its definition
symshape.users     stack / concatenate / broadcasting / einsum / call
                   arguments accept exactly when the components are equal for
                   all sizes, and the inferred shape evaluates to NumPy's at
                   every valuation
symshape.lower     lowering of nodes whose shapes are symbolic (bindings of
                   size parameters stay distinct)

d(p) is the denotation of the built expression (pyvc.den), independent of
the isl route taken by the code under verification.
"""
from __future__ import annotations

import itertools
import operator

import numpy as np
import z3

import pytato as pt
from pytato.array import Array

from pyvc import islmodel
from pyvc.core import Contract, contract
from pyvc.ptlib import mk_placeholder, shape_term
from pyvc.sym import EngineSignal, SymInt, z_of

PARAM_NAMES = ["n", "m", "k"]

#: tree forms of an affine expression  c0 + sum_i c_i p_i
FORMS = ["sum", "rev", "nested", "sub", "int", "bare", "neg", "partial"]


def spvar(name):
    return z3.Int(f"sp_{name}")


def build_dim(h, form, nparams, tag):
    """(shape component, description) built by the real operators."""
    ps = [pt.make_size_param(nm) for nm in PARAM_NAMES[:nparams]]
    c0 = h.int(f"{tag}c0")
    cs = [h.int(f"{tag}c{i+1}") for i in range(nparams)]
    mul, add, sub, neg = (operator.mul, operator.add, operator.sub,
                          operator.neg)

    def C(f, *a):
        return h.call(f, *a)
    if form == "int":
        return c0
    if form == "bare":
        return ps[0]
    if form == "sum":
        d = C(mul, cs[0], ps[0])
        for c, p in zip(cs[1:], ps[1:], strict=True):
            d = C(add, d, C(mul, c, p))
        return C(add, d, c0)
    if form == "rev":
        d = c0
        for c, p in reversed(list(zip(cs, ps, strict=True))):
            d = C(add, d, C(mul, p, c))
        return d
    if form == "nested":
        # c1*(n + c0) + c2*m + ..
        d = C(mul, cs[0], C(add, ps[0], c0))
        for c, p in zip(cs[1:], ps[1:], strict=True):
            d = C(add, C(mul, c, p), d)
        return d
    if form == "sub":
        # n*c1 - (m*c2 - c0) ...
        d = C(mul, ps[0], cs[0])
        for c, p in zip(cs[1:], ps[1:], strict=True):
            d = C(sub, d, C(sub, C(mul, p, c), c0))
        return C(sub, d, c0)
    if form == "neg":
        d = C(neg, C(mul, ps[0], cs[0]))
        for c, p in zip(cs[1:], ps[1:], strict=True):
            d = C(sub, d, C(mul, c, p))
        return C(add, c0, d)
    if form == "partial":
        # mentions the last parameter only
        return C(sub, C(mul, cs[-1], ps[-1]), c0)
    raise ValueError(form)


def at(term, valuation):
    """Substitute size-parameter values into a z3 term."""
    subs = [(spvar(nm), v if z3.is_expr(v) else z3.IntVal(v))
            for nm, v in valuation.items()]
    return z3.simplify(z3.substitute(term, *subs)) if subs else term


def unit_grid(nparams):
    names = PARAM_NAMES[:nparams]
    yield {nm: 0 for nm in names}
    for i in range(nparams):
        yield {nm: int(j == i) for j, nm in enumerate(names)}


def form_pairs(tier):
    if tier == "thorough":
        ks, forms = (1, 2, 3), FORMS
    else:
        ks, forms = (1, 2), ["sum", "rev", "nested", "int", "bare", "neg"]
    out = []
    for k in ks:
        for f1, f2 in itertools.product(forms, repeat=2):
            if f1 == f2 == "int" and k > 1:
                continue
            out.append((k, f1, f2))
    return out


@contract
class ShapeEquality(Contract):
    name = "symshape.eq"
    functions = ("pytato.utils:are_shape_components_equal",
                 "pytato.utils:are_shapes_equal",
                 "pytato.utils:ShapeToISLExpressionMapper.map_index_lambda",
                 "pytato.utils:ShapeToISLExpressionMapper.map_size_param",
                 "pytato.utils:_create_size_param_space")
    properties = ("C16",)

    def instances(self, tier):
        return [dict(label=f"k={k};{f1}~{f2}", k=k, f1=f1, f2=f2)
                for k, f1, f2 in form_pairs(tier)]

    def canaries(self, tier):
        return [(dict(label="k=1;sum~rev", k=1, f1="sum", f2="rev"),
                 "equal-at-zero-suffices", "symshape.eq.false=>"),
                (dict(label="k=1;sum~rev", k=1, f1="sum", f2="rev"),
                 "true-means-off-by-one", "symshape.eq.true=>")]

    def run(self, h, inst):
        from pytato.utils import are_shape_components_equal
        k = inst["k"]
        islmodel.install(h.interp)
        d1 = build_dim(h, inst["f1"], k, "a")
        d2 = build_dim(h, inst["f2"], k, "b")
        try:
            res = h.call(are_shape_components_equal, d1, d2)
            res = bool(res)
        except EngineSignal:
            raise
        except Exception as e:  # noqa: BLE001
            h.fail("symshape.eq.no-exception", f"{type(e).__name__}: {e}")
            return
        D1, D2 = shape_term(d1), shape_term(d2)
        if res:
            rhs = D2 + 1 if h.canary == "true-means-off-by-one" else D2
            # p symbolic: holds for every valuation (also negative ones)
            h.oblige("symshape.eq.true=>equal-for-every-valuation", D1 == rhs)
        else:
            grid = list(unit_grid(k))
            if h.canary == "equal-at-zero-suffices":
                grid = grid[:1]
            h.oblige("symshape.eq.false=>differ-at-some-non-negative-valuation",
                     z3.Or([at(D1, w) != at(D2, w) for w in grid]))

    def replay(self, inst, clause, model, info):
        return EQ_REPLAY.format(k=inst["k"], f1=inst["f1"], f2=inst["f2"],
                                model=dict(model or {}))


REPLAY_PRELUDE = '''
import sys, itertools, operator
sys.path.insert(0, "/verif")
import pytato as pt
from pyvc.replaylib import reproduced, not_reproduced
NAMES = ["n", "m", "k"]
def build(form, k, c0, cs):
    ps = [pt.make_size_param(nm) for nm in NAMES[:k]]
    if form == "int": return c0
    if form == "bare": return ps[0]
    if form == "sum":
        d = cs[0]*ps[0]
        for c, p in zip(cs[1:], ps[1:]): d = d + c*p
        return d + c0
    if form == "rev":
        d = c0
        for c, p in reversed(list(zip(cs, ps))): d = d + p*c
        return d
    if form == "nested":
        d = cs[0]*(ps[0] + c0)
        for c, p in zip(cs[1:], ps[1:]): d = c*p + d
        return d
    if form == "sub":
        d = ps[0]*cs[0]
        for c, p in zip(cs[1:], ps[1:]): d = d - (p*c - c0)
        return d - c0
    if form == "neg":
        d = -(ps[0]*cs[0])
        for c, p in zip(cs[1:], ps[1:]): d = d - c*p
        return c0 + d
    if form == "partial":
        return cs[-1]*ps[-1] - c0
def value(form, k, c0, cs, p):
    # plain-integer meaning of the same form
    class P(int): pass
    if form == "int": return c0
    if form == "bare": return p[0]
    if form in ("sum", "rev"): return c0 + sum(c*x for c, x in zip(cs, p))
    if form == "nested": return cs[0]*(p[0]+c0) + sum(c*x for c, x in zip(cs[1:], p[1:]))
    if form == "sub":
        d = p[0]*cs[0]
        for c, x in zip(cs[1:], p[1:]): d = d - (x*c - c0)
        return d - c0
    if form == "neg": return c0 - sum(c*x for c, x in zip(cs, p))
    if form == "partial": return cs[-1]*p[-1] - c0
def coeffs_from(model, tag, k):
    g = lambda nm: int(model.get(nm, 0))
    return g(tag+"c0"), [g(f"{{tag}}c{{i+1}}") for i in range(k)]
'''

EQ_REPLAY = REPLAY_PRELUDE + '''
from pytato.utils import are_shape_components_equal
k, f1, f2, model = {k!r}, {f1!r}, {f2!r}, {model!r}
cands = [(coeffs_from(model, "a", k), coeffs_from(model, "b", k))]
R = range(-3, 4)
for tup in itertools.islice(itertools.product(R, repeat=2*(k+1)), 0, 20000, 7):
    cands.append(((tup[0], list(tup[1:k+1])), (tup[k+1], list(tup[k+2:]))))
for (a0, a), (b0, b) in cands:
    try:
        got = bool(are_shape_components_equal(build(f1, k, a0, a),
                                              build(f2, k, b0, b)))
    except Exception as e:
        reproduced(f"are_shape_components_equal raised {{type(e).__name__}}: {{e}} "
                   f"for {{f1}}{{(a0, a)}} vs {{f2}}{{(b0, b)}}")
    pts = list(itertools.product(range(0, 4), repeat=k))
    want = all(value(f1, k, a0, a, p) == value(f2, k, b0, b, p) for p in pts)
    if got != want:
        reproduced(f"are_shape_components_equal({{f1}}{{(a0, a)}}, {{f2}}{{(b0, b)}}) "
                   f"= {{got}} but the expressions are "
                   f"{{'equal' if want else 'different'}} on the grid 0..3")
not_reproduced("decision agrees with the grid on all tried coefficients")
'''


@contract
class NonNegative(Contract):
    name = "symshape.nonneg"
    functions = ("pytato.utils:_is_non_negative",
                 "pytato.utils:_is_non_positive",
                 "pytato.utils:_get_size_params_assumptions_bset")
    properties = ("C16",)

    def instances(self, tier):
        forms = FORMS if tier == "thorough" else ["sum", "rev", "nested",
                                                  "int", "bare"]
        ks = (1, 2, 3) if tier == "thorough" else (1, 2)
        return [dict(label=f"k={k};{f};{fn}", k=k, f=f, fn=fn)
                for k in ks for f in forms
                for fn in ("_is_non_negative", "_is_non_positive")
                if not (f == "int" and k > 1)]

    def canaries(self, tier):
        return [(dict(label="k=1;sum;_is_non_negative", k=1, f="sum",
                      fn="_is_non_negative"),
                 "strictly-positive", "symshape.nonneg.true=>")]

    def run(self, h, inst):
        import pytato.utils as U
        k = inst["k"]
        islmodel.install(h.interp)
        d = build_dim(h, inst["f"], k, "a")
        fn = getattr(U, inst["fn"])
        try:
            res = bool(h.call(fn, d))
        except EngineSignal:
            raise
        except Exception as e:  # noqa: BLE001
            h.fail("symshape.nonneg.no-exception", f"{type(e).__name__}: {e}")
            return
        D = shape_term(d)
        if inst["fn"] == "_is_non_positive":
            D = -D
        names = PARAM_NAMES[:k]
        if res:
            pre = z3.And([spvar(nm) >= 0 for nm in names] + [z3.BoolVal(True)])
            want = D > 0 if h.canary == "strictly-positive" else D >= 0
            h.oblige("symshape.nonneg.true=>holds-for-every-non-negative-"
                     "valuation", z3.Implies(pre, want))
        else:
            d0 = at(D, {nm: 0 for nm in names})
            big = z3.If(d0 >= 0, d0, -d0) + 1
            ws = [{nm: 0 for nm in names}]
            for i in range(k):
                ws.append({nm: (big if j == i else 0)
                           for j, nm in enumerate(names)})
            h.oblige("symshape.nonneg.false=>fails-at-some-non-negative-"
                     "valuation", z3.Or([at(D, w) < 0 for w in ws]))


@contract
class OrthantLemma(Contract):
    name = "symshape.lemma"
    functions = ()
    properties = ("C16",)
    notes = ("lemma about the assumed isl contract, not about repository "
             "code: inclusion of the non-negative orthant in {a(p) >= 0} "
             "iff constant and all coefficients are >= 0",)

    def instances(self, tier):
        return [dict(label=f"k={k}", k=k) for k in (1, 2, 3)]

    def run(self, h, inst):
        k = inst["k"]
        c0 = z3.Int("c0")
        cs = [z3.Int(f"c{i+1}") for i in range(k)]
        ps = [z3.Int(f"p{i+1}") for i in range(k)]
        closed = z3.And([c0 >= 0] + [c >= 0 for c in cs])

        def val(p):
            return c0 + sum(c * x for c, x in zip(cs, p, strict=True))
        # closed form => every non-negative point satisfies a(p) >= 0
        h.oblige("lemma.closed-form-sufficient",
                 z3.Implies(z3.And([closed] + [p >= 0 for p in ps]),
                            val(ps) >= 0))
        # not closed form => one of the explicit witnesses violates it
        big = z3.If(c0 >= 0, c0, -c0) + 1
        ws = [[z3.IntVal(0)] * k] + [
            [big if j == i else z3.IntVal(0) for j in range(k)]
            for i in range(k)]
        h.oblige("lemma.closed-form-necessary",
                 z3.Implies(z3.Not(closed), z3.Or([val(w) < 0 for w in ws])))


# {{{ users of the decision

def eq_all(D1, D2):
    """forall p >= 0: D1(p) == D2(p), for affine D1, D2: decided completely by
    the affinely spanning grid {0, e_1, .., e_k} (ShapeEquality proves the
    real decision procedure equivalent to this)."""
    return z3.And([at(D1, w) == at(D2, w)
                   for w in unit_grid(len(PARAM_NAMES))])


def install_eq_contract(h):
    """Callers are checked against the *contract* of
    are_shape_components_equal (proved by symshape.eq), not its body."""
    from pytato.utils import are_shape_components_equal
    from pyvc.sym import mk_bool

    def stub(interp, fn, args, kwargs):
        d1, d2 = args
        return mk_bool(eq_all(shape_term(d1), shape_term(d2)))
    h.interp.contracts[are_shape_components_equal] = stub


USER_PAIRS = [("sum", "rev"), ("sum", "int"), ("int", "sum"), ("bare", "sum"),
              ("nested", "neg"), ("int", "int"), ("bare", "bare")]
USERS = ["stack", "broadcast", "einsum", "call", "where", "einsum3",
         "index-int"]


def nonneg_all(T):
    """forall p >= 0: T(p) >= 0 for affine T = c0 + sum ci*pi: c0 >= 0 and
    every ci >= 0, read off the unit grid."""
    z = {nm: 0 for nm in PARAM_NAMES}
    return z3.And([at(T, z) >= 0] + [at(T, w) >= at(T, z)
                                     for w in unit_grid(len(PARAM_NAMES))])


def install_nonneg_contract(h):
    """Callers are checked against the contract of _is_non_negative
    (proved by symshape.nonneg), not its body."""
    from pytato.utils import _is_non_negative
    from pyvc.sym import mk_bool

    def stub(interp, fn, args, kwargs):
        (e,) = args
        return mk_bool(nonneg_all(shape_term(e)))
    h.interp.contracts[_is_non_negative] = stub


@contract
class ShapeUsers(Contract):
    name = "symshape.users"
    functions = ("pytato.array:stack",
                 "pytato.utils:get_shape_after_broadcasting",
                 "pytato.utils:broadcast_binary_op",
                 "pytato.utils:update_bindings_and_get_broadcasted_expr",
                 "pytato.array:einsum",
                 "pytato.array:_get_einsum_access_descr_to_axis_len",
                 "pytato.array:Einsum.shape",
                 "pytato.array:where",
                 "pytato.function:FunctionDefinition.__call__",
                 "pytato.utils:are_shapes_equal")
    properties = ("C16",)

    def instances(self, tier):
        ks = (1, 2) if tier != "thorough" else (1, 2, 3)
        return [dict(label=f"{u};k={k};{f1}~{f2}", user=u, k=k, f1=f1, f2=f2)
                for u in USERS for k in ks for f1, f2 in USER_PAIRS
                if not (k > 1 and f1 == f2 == "int")]

    def canaries(self, tier):
        return [(dict(label="stack;k=1;sum~rev", user="stack", k=1, f1="sum",
                      f2="rev"), "equal-at-zero-suffices",
                 "symshape.users.rejected=>")]

    def run(self, h, inst):
        user, k = inst["user"], inst["k"]
        install_eq_contract(h)
        d1 = build_dim(h, inst["f1"], k, "a")
        d2 = build_dim(h, inst["f2"], k, "b")
        D1, D2 = shape_term(d1), shape_term(d2)
        for nm in PARAM_NAMES:
            h.assume(spvar(nm) >= 0)
        # admissible programs: axis lengths are non-negative at every size
        # (constant and coefficients >= 0)
        for D in (D1, D2):
            for w in unit_grid(len(PARAM_NAMES)):
                h.assume(at(D, w) >= at(D, {nm: 0 for nm in PARAM_NAMES}))
            h.assume(at(D, {nm: 0 for nm in PARAM_NAMES}) >= 0)
        three = 3
        a = mk_placeholder(h, "a", shape=(d1, three))
        b = mk_placeholder(h, "b", shape=(d2, three))
        one = z3.IntVal(1)
        same = eq_all(D1, D2)
        bcast_ok = z3.Or(same, eq_all(D1, one), eq_all(D2, one))
        bshape = [z3.If(D1 == 1, D2, D1), z3.IntVal(3)]
        if user == "stack":
            call = lambda: h.call(pt.stack, [a, b], 1)   # noqa: E731
            accept, shape = same, [D1, z3.IntVal(2), z3.IntVal(3)]
        elif user == "broadcast":
            call = lambda: h.call(operator.add, a, b)   # noqa: E731
            accept, shape = bcast_ok, bshape
        elif user == "where":
            c = mk_placeholder(h, "c", shape=(three,), dtype=np.bool_)
            call = lambda: h.call(pt.where, c, a, b)   # noqa: E731
            accept, shape = bcast_ok, bshape
        elif user == "einsum":
            call = lambda: h.call(pt.einsum, "ij,ij->ij", a, b)   # noqa: E731
            accept, shape = bcast_ok, bshape
        elif user == "einsum3":
            # a leading operand whose axis is literally 1: the two others
            # still have to agree with each other
            u = mk_placeholder(h, "u", shape=(1, three))
            call = lambda: h.call(pt.einsum, "ij,ij,ij->ij", u, a, b)  # noqa: E731
            accept, shape = bcast_ok, bshape
        elif user == "index-int":
            # an integer index into an axis of symbolic length is accepted
            # only if it is in bounds for *every* size
            install_nonneg_contract(h)
            kk = h.int("k")
            K_ = z_of(kk)
            call = lambda: h.interp.subscript(a, (kk,))   # noqa: E731
            accept = z3.And(nonneg_all(K_ + D1), nonneg_all(D1 - 1 - K_))
            shape = [z3.IntVal(3)]
        elif user == "call":
            from pytato.function import FunctionDefinition, ReturnType
            from constantdict import constantdict
            x = mk_placeholder(h, "x", shape=(d1, three))
            fd = FunctionDefinition(parameters=frozenset({"x"}),
                                    return_type=ReturnType.ARRAY,
                                    returns=constantdict(
                                        {"_": h.call(operator.add, x, 1)}),
                                    tags=frozenset())
            call = lambda: h.call(fd, x=b)   # noqa: E731
            accept, shape = same, [D1, z3.IntVal(3)]
        try:
            res = call()
        except EngineSignal:
            raise
        except (ValueError, TypeError, IndexError) as e:
            if h.canary == "equal-at-zero-suffices":
                z = {nm: 0 for nm in PARAM_NAMES}
                accept = at(D1, z) == at(D2, z)
            h.oblige(f"symshape.users.rejected=>not-equal-for-all-sizes"
                     f"[{user}]", z3.Not(accept), info=str(e)[:120])
            return
        except Exception as e:  # noqa: BLE001
            h.fail(f"symshape.users.no-other-exception[{user}]",
                   f"{type(e).__name__}: {e}")
            return
        h.oblige(f"symshape.users.accepted=>equal-for-all-sizes[{user}]",
                 accept)
        try:
            rshape = h.interp.getattr(res, "shape")
        except EngineSignal:
            raise
        except Exception as e:  # noqa: BLE001
            # accepted, but the node cannot tell its shape
            h.fail(f"symshape.users.inferred-shape-available[{user}]",
                   f"{type(e).__name__}: {e}")
            return
        if len(rshape) != len(shape):
            h.fail(f"symshape.users.inferred-rank[{user}]",
                   f"{len(rshape)} != {len(shape)}")
            return
        for ax, (got, want) in enumerate(zip(rshape, shape, strict=True)):
            h.oblige(f"symshape.users.inferred-shape-at-every-valuation"
                     f"[{user}][{ax}]", shape_term(got) == want)

    def replay(self, inst, clause, model, info):
        return USERS_REPLAY.format(user=inst["user"], k=inst["k"],
                                   f1=inst["f1"], f2=inst["f2"],
                                   model=dict(model or {}))


USERS_REPLAY = REPLAY_PRELUDE + '''
import numpy as np
user, k, f1, f2, model = {user!r}, {k!r}, {f1!r}, {f2!r}, {model!r}
cands = [(coeffs_from(model, "a", k), coeffs_from(model, "b", k))]
R = range(0, 3)
for tup in itertools.product(R, repeat=2*(k+1)):
    cands.append(((tup[0], list(tup[1:k+1])), (tup[k+1], list(tup[k+2:]))))
pts = list(itertools.product(range(0, 4), repeat=k))
for (a0, a), (b0, b) in cands:
    if min([a0, *a, b0, *b]) < 0: continue
    d1, d2 = build(f1, k, a0, a), build(f2, k, b0, b)
    v1 = [value(f1, k, a0, a, p) for p in pts]
    v2 = [value(f2, k, b0, b, p) for p in pts]
    same = v1 == v2
    ok = same or (user in ("broadcast", "where", "einsum", "einsum3") and
                  (set(v1) == {{1}} or set(v2) == {{1}}))
    if user == "index-int":
        kidx = model.get("k", 1)
        kidx = int(kidx) if str(kidx).lstrip("-").isdigit() else 1
        ok = all(-v <= kidx < v for v in v1)
    A = pt.make_placeholder("a", (d1, 3), np.float64)
    B = pt.make_placeholder("b", (d2, 3), np.float64)
    try:
        if user == "stack": pt.stack([A, B], 1)
        elif user == "broadcast": A + B
        elif user == "where": pt.where(pt.make_placeholder("c", (3,), np.bool_), A, B)
        elif user == "einsum": pt.einsum("ij,ij->ij", A, B)
        elif user == "einsum3":
            pt.einsum("ij,ij,ij->ij", pt.make_placeholder("u", (1, 3), np.float64), A, B).shape
        elif user == "index-int": A[kidx]
        elif user == "call":
            f = lambda x: x + 1
            pt.trace_call(f, A).call.function(x=B) if False else None
            from pytato.function import FunctionDefinition, ReturnType
            from constantdict import constantdict
            X = pt.make_placeholder("x", (d1, 3), np.float64)
            FunctionDefinition(parameters=frozenset({{"x"}}), return_type=ReturnType.ARRAY,
                               returns=constantdict({{"_": X + 1}}), tags=frozenset())(x=B)
        got = True
    except (ValueError, TypeError, IndexError) as e:
        got = False
    except AssertionError as e:
        reproduced(f"{{user}} of axis lengths {{f1}}{{(a0, a)}} and {{f2}}{{(b0, b)}} "
                   f"is accepted but the node cannot tell its shape")
    if user == "index-int" and not got and not ok:
        continue
    if user == "index-int" and not got and ok and False:
        pass
    if got != ok:
        reproduced(f"{{user}} of axis lengths {{f1}}{{(a0, a)}} and {{f2}}{{(b0, b)}}: "
                   f"{{'accepted' if got else 'rejected'}}, but the lengths are "
                   f"{{'equal' if same else 'not equal'}} for all sizes")
not_reproduced("decisions agree with the grid on all tried coefficients")
'''

# }}}


# {{{ builders and lowering with symbolic axis lengths

PARAM_REPLAY_PRELUDE = '''
import sys
sys.path.insert(0, "/verif")
import numpy as np
import pytato as pt
from pyvc.replaylib import M_from, mint, rnd, compare
M = M_from(MODEL)
made, data = [], {}
def dim(name):
    # mirrors pyvc.ptlib.dim in "param" mode
    pname = "p_" + "".join(c if c.isalnum() else "_" for c in name)
    p = pt.make_size_param(pname)
    v = max(0, mint(M, "sp_" + pname, 2))
    form = len(made) % 3
    if form == 0 or not made: d, dv = p, v
    elif form == 1: d, dv = 2*p + 1, 2*v + 1
    else: d, dv = p + made[0][0], v + made[0][1]
    data[pname] = v
    made.append((d, dv))
    return d, dv
'''


def einsum_param_replay(inst, clause, model, info):
    return PARAM_REPLAY_PRELUDE + f"""
ins, o, unit = {inst['ins']!r}, {inst['out']!r}, {{tuple(u) for u in {inst['unit']!r}}}
n = {{ch: dim(f"n_{{ch}}") for ch in sorted(set("".join(ins)))}}
ops, vals = [], []
for k, sp in enumerate(ins):
    shp = tuple(1 if (k, ax) in unit else n[ch][0] for ax, ch in enumerate(sp))
    cshp = tuple(1 if (k, ax) in unit else n[ch][1] for ax, ch in enumerate(sp))
    ops.append(pt.make_placeholder(f"a{{k}}", shp, np.float64))
    data[f"a{{k}}"] = rnd(cshp, seed=k)
    vals.append(data[f"a{{k}}"])
spec = ",".join(ins) + "->" + o
from pyvc.replaylib import reproduced, not_reproduced
try:
    expect = np.einsum(spec, *vals)
except ValueError as e_np:
    expect = e_np
try:
    node = pt.einsum(spec, *ops)
except ValueError as e_pt:
    # symbolic lengths are equal only if equal for all parameter values: the
    # rejection is wrong only if NumPy accepts for *every* valuation
    import itertools
    names = sorted(data_name for data_name in data if data_name.startswith("p_"))
    for combo in itertools.product(range(4), repeat=len(names)):
        val = dict(zip(names, combo))
        made2 = []
        def cdim(i):
            v = val[names[i]]
            form = i % 3
            if form == 0 or not made2: dv = v
            elif form == 1: dv = 2*v + 1
            else: dv = v + made2[0]
            made2.append(dv)
            return dv
        cn = {{ch: cdim(i) for i, ch in enumerate(sorted(set("".join(ins))))}}
        cv = [np.zeros(tuple(1 if (k, ax) in unit else cn[ch]
                             for ax, ch in enumerate(sp))) for k, sp in enumerate(ins)]
        try:
            np.einsum(spec, *cv)
        except ValueError as e_np:
            not_reproduced(f"pytato rejects ('{{e_pt}}'); NumPy rejects for the "
                           f"valuation {{val}}: {{e_np}}")
    reproduced(f"pt.einsum({{spec!r}}) rejects symbolic operand shapes "
               f"{{[op.shape for op in ops]}} although NumPy accepts them for "
               f"every parameter valuation in 0..3: {{e_pt}}")
if isinstance(expect, ValueError):
    reproduced(f"pt.einsum({{spec!r}}) accepts shapes {{[op.shape for op in ops]}} "
               f"which NumPy rejects for {{data}}: {{expect}}")
compare(node, data, expect, exact=False)
"""


def _param_variant(base, vname, keep, extra_functions=(), replay_fn=None,
                   also=()):
    class V(base):
        name = vname
        # (C11 quantifies over "all non-negative values of the size
        # parameters": the in-bounds clauses of the lowering variants, whose
        # props name C11, are C11's too)
        properties = ("C16", *also)
        props_for_all_clauses = ("C16",)
        functions = tuple(base.functions) + (
            "pytato.utils:dim_to_index_lambda_components",
            "pytato.utils:ShapeExpressionMapper.map_index_lambda",
            "pytato.utils:ShapeExpressionMapper.map_size_param",
            *extra_functions)

        def instances(self, tier):
            out = []
            for i in base.instances(self, tier):
                if keep(i, tier):
                    out.append(dict(i, label=i["label"] + ";param-shapes"))
            return out

        def canaries(self, tier):
            return []

        def run(self, h, inst):
            h.dim_mode = "param"
            islmodel.install(h.interp)
            return base.run(self, h, inst)

        def replay(self, inst, clause, model, info):
            if replay_fn is None:
                return None
            return replay_fn(inst, clause, model, info)
    V.__name__ = V.__qualname__ = "Param" + base.__name__
    return contract(V)


def _install_variants():
    from contracts import c01_builders as c01
    from contracts import c02_lowering as c02
    q = lambda tier: tier != "thorough"   # noqa: E731
    _param_variant(c02.LowerRoll, "symshape.lower.roll", lambda i, t: True,
                   also=("C11",))
    _param_variant(c02.LowerStack, "symshape.lower.stack", lambda i, t: True,
                   also=("C11",))
    _param_variant(c02.LowerAxisPermutation,
                   "symshape.lower.axis_permutation", lambda i, t: True,
                   also=("C11",))
    ES = {"ij,jk->ik", "ij,ij->", "ij,j->i", "i,i->", "ij->ji", "ij->",
          "i,j->ij", "ii->i", "ij,ij->ij", "im,mj,km->ijk", "ij,jk,kl->il",
          "ij,ji->", "i->"}
    _param_variant(c02.LowerEinsum, "symshape.lower.einsum",
                   lambda i, t: (i["label"].split(";")[0] in ES) or (
                       t == "thorough" and len(i["ins"]) == 2),
                   replay_fn=einsum_param_replay, also=("C11",))
    _param_variant(c01.BinaryOps, "symshape.build.binary",
                   lambda i, t: i["kind"] in ("mismatch", "arrarr", "cmp")
                   and (i.get("op") in ("add", "less", None)
                        or t == "thorough"))
    _param_variant(c01.WhereMaxMin, "symshape.build.where",
                   lambda i, t: True)
    _param_variant(c01.UnaryAndMath, "symshape.build.unary",
                   lambda i, t: i["fn"] in ("neg", "sin", "full", "zeros",
                                            "astype", "broadcast_to"))
    _param_variant(c01.Reductions, "symshape.build.reduction",
                   lambda i, t: "axis-int" not in i["label"]
                   and i["fn"] in ("sum", "amax"))


_install_variants()

# }}}
