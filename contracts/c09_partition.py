"""C09 -- distributed partitions are well-formed and all ranks agree.

dist.find      find_distributed_partition + verify_distributed_partition +
               number_distributed_tags, interpreted from the real source on
               every rank of listed multi-rank programs (pyvc/dist_programs.py)
               under the MPI contract of pyvc/fakempi.py; the postcondition is
               the clause list of C09, checked by an independent checker
               (exploration over the listed programs).
dist.tags      number_distributed_tags for *symbolic* tags (opaque values with
               an uninterpreted equality) and a symbolic base tag: the
               numbering is a function of the tag (both ends agree), injective,
               within [base_tag, next_tag)  -- deductive, all tag values.
dist.parts     the part-construction block of find_distributed_partition
               (mechanically extracted statements) for symbolic ranks: every
               local send/receive of a batch lands in exactly one part,
               receives of batch i precede sends of batch i+1 -- deductive.
"""
from __future__ import annotations

import z3

import pytato as pt

from pyvc import dist_programs as D
from pyvc import fakempi
from pyvc.core import Contract, contract
from pyvc.sym import EngineSignal

SIZES = (2, 3)


def spmd(h, size, prog, *, fault=None, staple="chain", verify=True,
         number=True, base_tag=100):
    """Run the real partitioner/verify/numbering interpreted on every rank.
    Returns (ctxs, results | None, raised) where raised maps rank -> exc."""
    from pytato.distributed.partition import find_distributed_partition
    from pytato.distributed.tags import number_distributed_tags
    from pytato.distributed.verify import verify_distributed_partition
    fakempi.install_fake_mpi4py()
    ctxs, raised, stage = {}, {}, {}

    def call(f, *a):
        return h.call(f, *a)

    def program(comm):
        ctx, outs = D.build_rank(prog, comm.rank, size, fault, staple)
        ctxs[comm.rank] = ctx
        try:
            stage[comm.rank] = "find"
            sym = h.call(find_distributed_partition, comm, outs)
            if verify:
                stage[comm.rank] = "verify"
                h.call(verify_distributed_partition, comm, sym)
            num = nxt = None
            if number:
                stage[comm.rank] = "number"
                num, nxt = h.call(number_distributed_tags, comm, sym,
                                  base_tag=base_tag)
        except (EngineSignal, fakempi.NeedOthers):
            raise
        except Exception as e:  # noqa: BLE001
            raised[comm.rank] = (stage[comm.rank], e)
            raise RankRaised from e
        return sym, num, nxt

    from pyvc.sym import EngineSignal as _ES
    _w, outcomes = fakempi.run_spmd(size, program, call=call,
                                    record_exceptions=True,
                                    passthrough=(_ES, D.NotApplicable))
    blocked = {}
    for r, o in enumerate(outcomes):
        if isinstance(o, fakempi.RankRaised):
            e = o.exc
            if isinstance(e, RankRaised) and r in raised:
                continue
            raised[r] = (stage.get(r, "?"), e.__cause__ or e)
        elif isinstance(o, fakempi.RankBlocked):
            blocked[r] = o.collective
    spmd.last_blocked = blocked
    if raised or blocked:
        return ctxs, None, raised
    return ctxs, list(outcomes), raised


class RankRaised(Exception):
    pass


@contract
class PartitionWellFormed(Contract):
    name = "dist.find"
    functions = ("pytato.distributed.partition:find_distributed_partition",
                 "pytato.distributed.partition:_make_distributed_partition",
                 "pytato.distributed.partition:_schedule_task_batches",
                 "pytato.distributed.partition:_schedule_task_batches_counted",
                 "pytato.distributed.partition:_calculate_dependency_levels",
                 "pytato.distributed.partition:_LocalSendRecvDepGatherer.*",
                 "pytato.distributed.partition:_DistributedInputReplacer.*",
                 "pytato.distributed.partition:_set_dict_union_mpi",
                 "pytato.distributed.verify:verify_distributed_partition",
                 "pytato.distributed.tags:number_distributed_tags")
    properties = ("C09", "C10", "C08")
    max_paths = 50

    def instances(self, tier):
        import os
        out = []
        for prog in [*D.PROGRAMS, *D.EXTRA_VALID_PROGRAMS]:
            for size in SIZES:
                for st in ("chain", "siblings"):
                    if st == "siblings" and tier != "thorough" and \
                            prog not in ("halo2", "multisend"):
                        continue
                    out.append(dict(label=f"{prog};ranks={size};{st}",
                                    prog=prog, size=size, staple=st))
        # seeded random programs: 0..6 messages on 2..4 ranks
        base = int(os.environ.get("VERIF_SEED", "1") or 1) * 1000
        k = 40 if tier != "thorough" else 400
        for i in range(k):
            size = (2, 3, 4)[i % 3]
            st = ("chain", "siblings")[(i // 3) % 2]
            out.append(dict(label=f"random{base + i};ranks={size};{st}",
                            prog=f"random{base + i}", size=size, staple=st))
        return out

    def canaries(self, tier):
        return [(dict(label="pingpong;ranks=2;chain", prog="pingpong", size=2,
                      staple="chain"), "expect-a-phantom-send",
                 "dist.find.sends"),
                (dict(label="halo2;ranks=2;chain", prog="halo2", size=2,
                      staple="chain"), "partition-computes-something-else",
                 "dist.find.value", ("C08",))]

    def run(self, h, inst):
        prog, size = inst["prog"], inst["size"]
        ctxs, res, raised = spmd(h, size, prog, staple=inst["staple"])
        if res is None:
            for r, (stage, e) in raised.items():
                h.fail(f"dist.find.valid-program-accepted[{stage}]",
                       f"rank {r}: {type(e).__name__}: {e}",
                       props=("C09", "C10"))
            return
        h.oblige("dist.find.valid-program-accepted[find]", z3.BoolVal(True),
                 props=("C09", "C10"))
        h.oblige("dist.find.valid-program-accepted[verify]", z3.BoolVal(True),
                 props=("C09", "C10"))
        if h.canary == "expect-a-phantom-send":
            ctxs[0].sends.append((None, 1, "phantom"))
        per_clause: dict[str, list] = {k: [] for k in CLAUSES}
        for r, (sym, _num, _nxt) in enumerate(res):
            for b in D.check_wellformed(r, ctxs[r], sym):
                per_clause[classify(b)].append(f"rank {r}: {b}")
        for b in D.check_global([s for s, _, _ in res]):
            per_clause[classify(b)].append(b)
        for b in D.check_numbering([s for s, _, _ in res],
                                   [n for _, n, _ in res], 100,
                                   [x for _, _, x in res]):
            per_clause["numbering"].append(b)
        for k, bad in per_clause.items():
            h.oblige(f"dist.find.{k}", z3.BoolVal(not bad), info=bad[:4],
                     props=("C09",))
        self.value_preserved(h, ctxs, [s for s, _, _ in res])

    def value_preserved(self, h, ctxs, partitions):
        """C08, value part only: the parts, wired together by the messages
        and part-output names, denote what the unpartitioned global data-flow
        graph denotes -- for all inputs (schedule-independent by
        construction: the global part graph is acyclic, dist.find.no-deadlock)
        """
        from contracts.c07_kernel import pytato_den
        from pyvc.den import ArrayModel
        from pyvc.ptlib import in_box, oblige_equal_den
        n = len(partitions)
        try:
            orig = D.global_original([ctxs[r].outputs for r in range(n)])
            inputs = [ctxs[r].user_inputs() for r in range(n)]
            part = D.global_partitioned(partitions, inputs)
        except (ValueError, KeyError) as e:
            h.fail("dist.find.value.global-data-flow-defined",
                   f"{type(e).__name__}: {e}", props=("C08",))
            return
        arrays = ArrayModel()
        for r in range(n):
            for name, e0 in orig[r].items():
                if name not in part[r]:
                    h.fail(f"dist.find.value.output-present[{name}]",
                           f"rank {r}", props=("C08",))
                    continue
                e1 = part[r][name]
                ok_shape = tuple(e0.shape) == tuple(e1.shape) and \
                    e0.dtype == e1.dtype
                h.oblige(f"dist.find.value.shape-dtype[{name}]",
                         z3.BoolVal(ok_shape), props=("C08",))
                if not ok_shape:
                    continue
                ivars = [z3.Int(f"i{d}") for d in range(e0.ndim)]
                box = in_box(ivars, e0.shape)
                want = pytato_den(h, arrays, e0, ivars)
                got = pytato_den(h, arrays, e1, ivars)
                if h.canary == "partition-computes-something-else" and \
                        z3.is_expr(want):
                    want = want + 1
                oblige_equal_den(h, f"dist.find.value[rank{r}:{name}]", box,
                                 got, want, props=("C08",))

    def replay(self, inst, clause, model, info):
        fn = "replay_value" if clause.startswith("dist.find.value") \
            else "replay_valid"
        return FIND_REPLAY.format(prog=inst["prog"], size=inst["size"],
                                  staple=inst["staple"], fn=fn)


CLAUSES = ("outputs-produced-once", "sends", "receives",
           "received-names-never-outputs", "sent-names-are-outputs",
           "reads-defined-earlier", "no-communication-nodes-in-parts",
           "part-order-acyclic", "messages-one-to-one", "no-deadlock",
           "numbering", "other")


def classify(b):
    table = [("overall output", "outputs-produced-once"),
             ("is an output of parts", "outputs-produced-once"),
             ("has no expression", "outputs-produced-once"),
             ("sends in parts", "sends"),
             ("receives in parts", "receives"),
             ("received by parts", "receives"),
             ("is also an output", "received-names-never-outputs"),
             ("is not an output of the part", "sent-names-are-outputs"),
             ("reads", "reads-defined-earlier"),
             ("communication nodes", "no-communication-nodes-in-parts"),
             ("cyclic part order", "part-order-acyclic"),
             ("unknown part", "part-order-acyclic"),
             ("two sends", "messages-one-to-one"),
             ("two receives", "messages-one-to-one"),
             ("has no receive", "messages-one-to-one"),
             ("has no send", "messages-one-to-one"),
             ("deadlock", "no-deadlock")]
    for needle, k in table:
        if needle in b:
            return k
    return "other"


FIND_REPLAY = '''
import sys
sys.path.insert(0, "/verif")
from pyvc.replay_dist import {fn}
{fn}({prog!r}, {size!r}, {staple!r})
'''


# {{{ number_distributed_tags for symbolic tags

class TagComm:
    """rank 0 of a two-rank world: gather returns [own, <other rank's tags>],
    bcast is the identity (MPI contract, see pyvc/fakempi.py)."""
    size = 2

    def __init__(self, rank, other_tags=(), from_root=None):
        self.rank = rank
        self.other = tuple(other_tags)
        self.from_root = from_root
        self.sent = None

    def gather(self, obj, root=0):
        return [obj, self.other] if self.rank == root else None

    def bcast(self, obj, root=0):
        if self.rank == root:
            self.sent = obj
            return obj
        return self.from_root


@contract
class TagNumbering(Contract):
    name = "dist.tags"
    functions = ("pytato.distributed.tags:number_distributed_tags",)
    properties = ("C09",)
    max_paths = 4000

    def instances(self, tier):
        return [dict(label="root;2+2 tags", root=True),
                dict(label="non-root;applies-broadcast-map", root=False)]

    def canaries(self, tier):
        return [(dict(label="root;2+2 tags", root=True), "dense-from-zero",
                 "dist.tags.")]

    def run(self, h, inst):
        from contracts.c10_faults import sym_recv, sym_send
        from pytato.distributed.partition import (DistributedGraphPart,
                                                  DistributedGraphPartition)
        from pytato.distributed.tags import number_distributed_tags
        from pyvc.graphmodel import SymVal
        import numpy as np
        x = pt.make_placeholder("x", (4,), np.float64)
        s0, _, ts0 = sym_send(h, x, 0)
        s1, _, ts1 = sym_send(h, x * 2, 1)
        r0, _, tr0 = sym_recv(h, 0)
        part = DistributedGraphPartition(
            parts={0: DistributedGraphPart(
                pid=0, needed_pids=frozenset(),
                user_input_names=frozenset("x"),
                partition_input_names=frozenset(),
                output_names=frozenset({"a", "b"}),
                name_to_recv_node={"r": r0},
                name_to_send_nodes={"a": [s0], "b": [s1]})},
            name_to_output={"a": x, "b": x * 2},
            overall_output_names=("a",))
        base = h.int("base_tag")
        local = [("r", tr0), ("a", ts0), ("b", ts1)]
        if inst["root"]:
            others = [SymVal("other0"), SymVal("other1")]
            comm = TagComm(0, others)
        else:
            # any map the root may have sent that covers the local tags
            ints = [h.int(f"m{k}") for k in range(3)]
            m = {}
            for (_n, t), v in zip(local, ints, strict=True):
                if t in m:
                    h.assume(m[t].t == v.t)
                m[t] = v
            # the root's map is injective (its own postcondition, proved by
            # the root instance)
            for i, ((_n1, t1), v1) in enumerate(zip(local, ints, strict=True)):
                for (_n2, t2), v2 in list(zip(local, ints, strict=True))[:i]:
                    h.assume(z3.Implies(t1.u != t2.u, v1.t != v2.t))
            nxt_in = h.int("next_in")
            comm = TagComm(1, from_root=(m, nxt_in))
        try:
            num, nxt = h.call(number_distributed_tags, comm, part,
                              base_tag=base)
        except EngineSignal:
            raise
        except Exception as e:  # noqa: BLE001
            h.fail("dist.tags.no-exception", f"{type(e).__name__}: {e}")
            return
        p = num.parts[0]
        got = {"r": p.name_to_recv_node["r"].comm_tag,
               "a": p.name_to_send_nodes["a"][0].comm_tag,
               "b": p.name_to_send_nodes["b"][0].comm_tag}
        from pyvc.sym import z_of
        for i, (n1, t1) in enumerate(local):
            for n2, t2 in local[:i]:
                h.oblige(f"dist.tags.same-tag<=>same-integer[{n2},{n1}]",
                         (t1.u == t2.u) == (z_of(got[n1]) == z_of(got[n2])))
        if not inst["root"]:
            for (n, _t), v in zip(local, ints, strict=True):
                h.oblige(f"dist.tags.non-root-applies-root's-map[{n}]",
                         z_of(got[n]) == v.t)
            h.oblige("dist.tags.non-root-returns-root's-next-tag",
                     z_of(nxt) == nxt_in.t)
            return
        for n, _t in local:
            lo = z_of(got[n]) >= base.t
            if h.canary == "dense-from-zero":
                lo = z_of(got[n]) >= 0
                h.assume(base.t < 0)
            h.oblige(f"dist.tags.in-range[{n}]",
                     z3.And(lo, z_of(got[n]) < z_of(nxt)))
        # what the root broadcasts: injective on all gathered tags, in range
        m, nxt_b = comm.sent
        alltags = [t for _n, t in local] + others
        h.oblige("dist.tags.broadcast-next-tag-is-returned",
                 z_of(nxt_b) == z_of(nxt))
        vals = []
        for t in alltags:
            vals.append((t, h.call(m.__getitem__, t)))
        for i, (t1, v1) in enumerate(vals):
            h.oblige(f"dist.tags.map-in-range[{i}]",
                     z3.And(z_of(v1) >= base.t, z_of(v1) < z_of(nxt)))
            for j, (t2, v2) in enumerate(vals[:i]):
                h.oblige(f"dist.tags.map-injective[{j},{i}]",
                         (t1.u == t2.u) == (z_of(v1) == z_of(v2)))

# }}}


# {{{ the part-construction block of find_distributed_partition

@contract
class PartConstruction(Contract):
    name = "dist.parts"
    functions = ("pytato.distributed.partition:find_distributed_partition"
                 "[region 'create (local) parts out of batch ids']",)
    properties = ("C09",)
    max_paths = 6000
    notes = ("the statements between the markers '# {{{ create (local) parts "
             "out of batch ids' and the following '# }}}' are extracted "
             "mechanically from the function's source on every run and "
             "interpreted with symbolic ranks; nothing is dropped inside the "
             "region; the rest of the function is covered by dist.find",)

    def instances(self, tier):
        shapes = [(1,), (2,), (1, 1), (2, 1), (1, 2), (1, 1, 1)]
        if tier == "thorough":
            shapes += [(2, 2), (2, 1, 1), (1, 1, 1, 1), (3,)]
        return [dict(label="batches=" + "+".join(map(str, s)), sizes=list(s))
                for s in shapes] + [dict(label="batches=none", sizes=[])]

    def canaries(self, tier):
        return [(dict(label="batches=2+1", sizes=[2, 1]),
                 "send-may-share-part-with-its-batch's-receives",
                 "dist.parts.")]

    def run(self, h, inst):
        from orderedsets import FrozenOrderedSet
        from pytato.distributed import partition as P
        from pyvc.graphmodel import SymVal
        local = h.int("local")
        batches, ids = [], []
        for b, n in enumerate(inst["sizes"]):
            batch = []
            for k in range(n):
                s, d = h.int(f"src{b}_{k}"), h.int(f"dst{b}_{k}")
                h.assume(s.t != d.t)            # no self-communication
                cid = P.CommunicationOpIdentifier(
                    src_rank=s, dest_rank=d, comm_tag=SymVal(f"t{b}_{k}"))
                # identifiers are distinct messages (sets do not merge them)
                for other, _b in ids:
                    h.assume(z3.Not(z3.And(
                        other.src_rank.t == s.t, other.dest_rank.t == d.t,
                        other.comm_tag.u == cid.comm_tag.u)))
                batch.append(cid)
                ids.append((cid, b))
            batches.append(FrozenOrderedSet(batch))

        class LSRDG:
            # the region's debug block only looks ids up in these tables
            local_recv_id_to_recv_node = _Everything()
            local_send_id_to_send_node = _Everything()
        out = h.interp.exec_region(
            P.find_distributed_partition,
            "{{{ create (local) parts out of batch ids", "# }}}",
            dict(comm_batches=batches, local_rank=local, lsrdg=LSRDG()))
        parts = out["part_comm_ids"]
        h.oblige("dist.parts.at-least-one-part", z3.BoolVal(len(parts) >= 1))
        h.oblige("dist.parts.nparts", z3.BoolVal(out["nparts"] == len(parts)))
        cmap = out["comm_id_to_part_id"]

        def where(cid, field):
            return [i for i, p in enumerate(parts)
                    if any(c is cid for c in getattr(p, field))]
        send_part, recv_part = {}, {}
        for cid, b in ids:
            ws, wr = where(cid, "send_ids"), where(cid, "recv_ids")
            is_send = cid.src_rank.t == local.t
            is_recv = cid.dest_rank.t == local.t
            h.oblige(f"dist.parts.local-send-in-exactly-one-part[{b}]",
                     z3.If(is_send, z3.BoolVal(len(ws) == 1),
                           z3.BoolVal(len(ws) == 0)))
            h.oblige(f"dist.parts.local-recv-in-exactly-one-part[{b}]",
                     z3.If(is_recv, z3.BoolVal(len(wr) == 1),
                           z3.BoolVal(len(wr) == 0)))
            if ws:
                send_part[id(cid)] = (ws[0], b)
                h.oblige(f"dist.parts.part-id-table[{b}]", z3.BoolVal(
                    h.call(cmap.__getitem__, cid) == ws[0]))
            if wr:
                recv_part[id(cid)] = (wr[0], b)
                h.oblige(f"dist.parts.part-id-table[{b}]", z3.BoolVal(
                    h.call(cmap.__getitem__, cid) == wr[0]))
        # order: a part posts its receives first and its sends last, so
        #   receives of batch i sit in a part strictly after every part that
        #   sends batch <= i, and sends of batch j > i in the same or a later
        #   part than receives of batch i
        for (rp, rb) in recv_part.values():
            for (sp, sb) in send_part.values():
                if sb <= rb:
                    ok = sp < rp
                    if h.canary and sb == rb:
                        ok = sp <= rp - 2
                    h.oblige("dist.parts.sends-of-a-batch-precede-its-"
                             "receives", z3.BoolVal(ok))
                else:
                    h.oblige("dist.parts.receives-precede-later-batches'-"
                             "sends", z3.BoolVal(rp <= sp))
        for i, p in enumerate(parts):
            if i > 0 or len(parts) > 1:
                h.oblige("dist.parts.no-empty-part-unless-alone", z3.BoolVal(
                    bool(len(p.send_ids) or len(p.recv_ids))))


class _Everything:
    def __contains__(self, x):
        return True

# }}}
