"""C15 -- names in generated code are faithful, unique and collision-free.

The name generator (pytools.UniqueNameGenerator) is used under its contract:
``g(prefix)`` returns a name not in its set and adds it; ``add_name(s)``
reserves; ``is_name_conflicting`` tests membership.  Under that contract
freedom from collisions for EVERY choice of user names reduces to facts about
the order of events on each generator, which are what is proved here on the
event trace of the real code (names are parametric: no branch depends on the
spelling of a user name except through the generator and explicit equality
tests, which are part of the trace):

temp.*     _generate_name_for_temp: a Named tag yields exactly that name and
           *reserves* it, or raises if it is taken; PrefixNamed / no tag ask
           the generator.
seed.*     every name the user chose (placeholders, size parameters, output
           keys) is reserved in a generator before that generator hands out
           any name built from a user-chosen prefix, and -- in the generator
           that names kernel variables -- before it hands out anything.
clash.*    NamesValidityChecker: a second, different input object with a seen
           name raises NameClashError; nothing else does.
faithful.* placeholders keep their names through preprocessing; wrapped data
           objects are bound, unmodified, under the generated name; outputs
           appear under their keys; argument/temporary/iname names of the
           generated kernel are pairwise distinct.
"""
from __future__ import annotations

import numpy as np
import z3
from pytools import UniqueNameGenerator

import pytato as pt
from pytato.codegen import _generate_name_for_temp

from pyvc import graphmodel as gm
from pyvc.core import Contract, contract
from pyvc.sym import EngineSignal


class Trace:
    def __init__(self):
        self.events = []
        self.gens = {}
        self.roles = {}        # generator index -> role

    def gid(self, g):
        if id(g) not in self.gens:
            self.gens[id(g)] = (g, len(self.gens))
        return self.gens[id(g)][1]


def install_spy(h, tr: Trace):
    U = UniqueNameGenerator

    def call(interp, args, kw):
        g, prefix = args[0], args[1]
        before = set(g.existing_names)
        r = U.__call__(g, prefix)
        tr.events.append(("gen", tr.gid(g), prefix, r, before))
        return r

    def add_name(interp, args, kw):
        g, name = args[0], args[1]
        tr.events.append(("add", tr.gid(g), name))
        return U.add_name(g, *args[1:], **kw)

    def add_names(interp, args, kw):
        g, names = args[0], list(args[1])
        for n in names:
            tr.events.append(("add", tr.gid(g), n))
        return U.add_names(g, names, *args[2:], **kw)

    def conflicting(interp, args, kw):
        g, name = args[0], args[1]
        r = U.is_name_conflicting(g, name)
        tr.events.append(("conflict?", tr.gid(g), name, r))
        return r
    # roles: which generator names what (instruction ids and the binding
    # names inside one index lambda are separate name spaces)
    from pytato.codegen import CodeGenPreprocessor
    from pytato.target.loopy import codegen as lcg
    real_init = CodeGenPreprocessor.__init__

    def prep_init(interp, fn, args, kw):
        interp.call_repo_function(real_init, args, kw)
        tr.roles[tr.gid(args[0].var_name_gen)] = "preprocessor"
    h.interp.contracts[real_init] = prep_init
    real_state = lcg.get_initial_codegen_state

    def init_state(interp, fn, args, kw):
        st = interp.call_repo_function(real_state, args, kw)
        tr.roles[tr.gid(st.var_name_gen)] = "kernel-variables"
        return st
    h.interp.contracts[real_state] = init_state
    h.interp.intercepts[U.__call__] = call
    h.interp.intercepts[U.add_name] = add_name
    h.interp.intercepts[U.add_names] = add_names
    h.interp.intercepts[U.is_name_conflicting] = conflicting


@contract
class TempNames(Contract):
    name = "names.temp"
    functions = ("pytato.codegen:_generate_name_for_temp",)
    properties = ("C15", "C07")

    def instances(self, tier):
        return [dict(label=k, case=k) for k in
                ("named-free", "named-taken", "prefix-named", "untagged",
                 "named-then-generate-same")]

    def canaries(self, tier):
        return [(dict(label="named-free", case="named-free"),
                 "expect-other-name", "temp.named-yields-exactly-the-name")]

    def run(self, h, inst):
        from pytato.tags import Named, PrefixNamed
        case = inst["case"]
        tr = Trace()
        install_spy(h, tr)
        g = UniqueNameGenerator({"taken"})
        x = gm.mk_opaque_array("x", "concrete")
        tag = {"named-free": Named("mine"), "named-taken": Named("taken"),
               "prefix-named": PrefixNamed("pre"),
               "named-then-generate-same": Named("mine")}.get(case)
        if tag is not None:
            object.__setattr__(x, "tags", frozenset({tag}))
        try:
            r = h.call(_generate_name_for_temp, x, g, "_pt_temp")
        except EngineSignal:
            raise
        except ValueError:
            h.oblige("temp.named-raises-only-if-taken",
                     z3.BoolVal(case == "named-taken"))
            return
        if case == "named-taken":
            h.fail("temp.named-raises-if-taken", f"returned {r!r}")
            return
        if case.startswith("named"):
            want = "other" if h.canary == "expect-other-name" else "mine"
            h.oblige("temp.named-yields-exactly-the-name",
                     z3.BoolVal(r == want))
            # ... and the name is reserved: the generator will never hand
            # it out, and a second Named(mine) is rejected
            h.oblige("temp.named-name-is-reserved",
                     z3.BoolVal(g.is_name_conflicting("mine")))
            if case == "named-then-generate-same":
                y = gm.mk_opaque_array("y", "concrete")
                object.__setattr__(y, "tags",
                                   frozenset({PrefixNamed("mine")}))
                r2 = h.call(_generate_name_for_temp, y, g, "_pt_temp")
                h.oblige("temp.later-names-differ-from-named",
                         z3.BoolVal(r2 != "mine"))
            return
        gens = [e for e in tr.events if e[0] == "gen"]
        prefix = "pre" if case == "prefix-named" else "_pt_temp"
        h.oblige("temp.name-comes-from-the-generator", z3.BoolVal(
            len(gens) == 1 and gens[0][2] == prefix and gens[0][3] == r))


def user_prefix(p):
    return not p.startswith("_pt_")


PROGRAMS = ["basic", "named-temporaries", "tagged-data-wrappers",
            "size-params", "output-is-input", "aliased-outputs",
            "reductions"]


def mk_program(which):
    """(outputs, user input names, output keys, wrapped data objects)"""
    from pytato.tags import ImplStored, Named, PrefixNamed
    x = pt.make_placeholder("x", (4,))
    y = pt.make_placeholder("temp_0", (4,))          # looks generated
    z = pt.make_placeholder("pt_temp", (4,))
    d1, d2 = np.arange(4.0), np.arange(4.0) + 1
    w1, w2 = pt.make_data_wrapper(d1), pt.make_data_wrapper(d2)
    users = {"x", "temp_0", "pt_temp"}
    data = [d1, d2]
    if which == "basic":
        out = {"o": x + y * w1, "acc_x": z + w2}
    elif which == "named-temporaries":
        t1 = (x + y).tagged((ImplStored(), PrefixNamed("temp")))
        t2 = (x * y).tagged((ImplStored(), PrefixNamed("x")))
        t3 = (x - y).tagged((ImplStored(), Named("mine")))
        out = {"o": t1 + t2 + t3 + z + w1 + w2}
    elif which == "tagged-data-wrappers":
        w1 = w1.tagged(PrefixNamed("x"))
        w2 = w2.tagged(PrefixNamed("temp"))
        out = {"o": x + y + z + w1 + w2}
    elif which == "size-params":
        n = pt.make_size_param("n")
        a = pt.make_placeholder("x_dim0", (n,))
        out = {"o": a + 1, "n_out": 2 * a}
        users = {"n", "x_dim0"}
        data = []
    elif which == "output-is-input":
        out = {"o": x, "p": y + z + w1 + w2}
    elif which == "aliased-outputs":
        # one array / one input under several keys: every key is an output
        s_ = x + y
        out = {"a": s_, "b": s_, "c": z, "d": z, "e": s_ * w1 + w2}
    else:
        t = pt.sum(pt.make_placeholder("A", (4, 4)) * x, axis=1)
        out = {"o": t + pt.sum(y) + z + w1 + w2, "acc_o": pt.amax(x)}
        users = users | {"A"}
    return out, users, set(out), data


@contract
class Seeding(Contract):
    name = "names.generate_loopy"
    functions = ("pytato.target.loopy.codegen:generate_loopy",
                 "pytato.codegen:preprocess",
                 "pytato.codegen:CodeGenPreprocessor.__init__",
                 "pytato.codegen:CodeGenPreprocessor.map_data_wrapper",
                 "pytato.codegen:CodeGenPreprocessor.map_placeholder",
                 "pytato.codegen:normalize_outputs",
                 "pytato.target.loopy.codegen:CodeGenMapper.map_index_lambda",
                 "pytato.target.loopy.codegen:add_store")
    properties = ("C15",)

    def instances(self, tier):
        return [dict(label=p, prog=p) for p in PROGRAMS]

    def canaries(self, tier):
        return [(dict(label="basic", prog="basic"), "phantom-user-name",
                 "seed.kernel-generator-knows-every-user-name")]


    def run(self, h, inst):
        tr = Trace()
        install_spy(h, tr)
        out, users, outs, data = mk_program(inst["prog"])
        if h.canary == "phantom-user-name":
            users = users | {"never_added"}
        try:
            prg = h.call(pt.generate_loopy, out)
        except EngineSignal:
            raise
        except Exception as e:  # noqa: BLE001
            h.fail("seed.no-exception", f"{type(e).__name__}: {e}")
            return
        knl = prg.program.default_entrypoint
        known: dict[int, set] = {}
        bad_prep, bad_kernel = [], []
        kernel_generated = False
        for e in tr.events:
            role = tr.roles.get(e[1])
            have = known.setdefault(e[1], set())
            if e[0] == "add":
                have.add(e[2])
                continue
            if e[0] == "gen":
                have |= set(e[4])
            missing = sorted((users | outs) - have)
            if role == "kernel-variables" and e[0] == "gen":
                # nothing is named before every user name is reserved
                kernel_generated = True
                if missing:
                    bad_kernel.append((e[2], missing))
            if role == "preprocessor" and (
                    (e[0] == "gen" and user_prefix(e[2]))
                    or e[0] == "conflict?"):
                # a name the user influences (PrefixNamed / Named on wrapped
                # data) is only decided with every user input name known
                miss_in = sorted(users - have)
                if miss_in:
                    bad_prep.append((e[0], e[2], miss_in))
            if e[0] == "gen":
                have.add(e[3])
        h.oblige("seed.kernel-generator-knows-every-user-name",
                 z3.BoolVal(kernel_generated and not bad_kernel
                            or (not kernel_generated and not h.canary)),
                 info=bad_kernel[:3])
        h.oblige("seed.preprocessor-decides-user-influenced-names-knowing-"
                 "every-input-name", z3.BoolVal(not bad_prep),
                 info=bad_prep[:3])
        # faithful names in the result
        args = set(knl.arg_dict)
        h.oblige("faithful.inputs-under-their-names",
                 z3.BoolVal(users <= args))
        h.oblige("faithful.outputs-under-their-keys",
                 z3.BoolVal(outs <= args))
        bound = dict(prg.bound_arguments)
        h.oblige("faithful.wrapped-data-bound-unmodified", z3.BoolVal(
            sorted(id(v) for v in bound.values()) == sorted(map(id, data))))
        h.oblige("faithful.bound-names-are-arguments-and-not-user-names",
                 z3.BoolVal(set(bound) <= args
                            and not (set(bound) & (users | outs))))
        kvars = set()
        for k, role in tr.roles.items():
            if role == "kernel-variables":
                kvars |= known.get(k, set())
        unknown = sorted(n for n in [*knl.arg_dict, *knl.temporary_variables,
                                     *knl.all_inames()] if n not in kvars)
        # every variable/iname of the kernel was reserved in or handed out by
        # the kernel's name generator (reduction inames are renamed by loopy
        # afterwards: those carry loopy's own suffix)
        raw_unknown = list(unknown)
        import re as _re
        unknown = [n for n in unknown
                   if not (_re.fullmatch(r"(.+)_\d+", n)
                           and _re.fullmatch(r"(.+)_\d+", n).group(1) in kvars)]
        h.ctx.notes  # noqa: B018
        import os
        if os.environ.get("C15_DEBUG"):
            print("UNKNOWN", inst["prog"], raw_unknown)
        h.oblige("faithful.every-kernel-name-went-through-the-generator",
                 z3.BoolVal(not unknown), info=unknown[:6])
        allnames = [*knl.arg_dict, *knl.temporary_variables, *knl.all_inames()]
        h.oblige("faithful.kernel-names-pairwise-distinct",
                 z3.BoolVal(len(allnames) == len(set(allnames))),
                 info=sorted(n for n in set(allnames)
                             if allnames.count(n) > 1))


@contract
class NameClash(Contract):
    name = "names.clash"
    functions = ("pytato.codegen:NamesValidityChecker.post_visit",
                 "pytato.codegen:check_validity_of_outputs")
    properties = ("C15",)

    def instances(self, tier):
        return [dict(label=k, case=k) for k in
                ("same-object-twice", "two-objects-same-name",
                 "two-objects-different-names", "placeholder-vs-size-param",
                 "non-input")]

    def run(self, h, inst):
        from pytato.codegen import NamesValidityChecker
        from pytato.diagnostic import NameClashError
        case = inst["case"]
        a = pt.make_placeholder("x", (h.nonneg("n"),))
        b = pt.make_placeholder("x", (h.nonneg("m"),))
        c = pt.make_placeholder("y", (3,))
        n = pt.make_size_param("x")
        seq = {"same-object-twice": [a, a],
               "two-objects-same-name": [a, b],
               "two-objects-different-names": [a, c],
               "placeholder-vs-size-param": [a, n],
               "non-input": [a + 1, a + 1]}[case]
        m = NamesValidityChecker()
        raised = None
        for node in seq:
            try:
                h.call(m.post_visit, node)
            except EngineSignal:
                raise
            except NameClashError as e:
                raised = e
            except Exception as e:  # noqa: BLE001
                h.fail("clash.no-other-exception", f"{type(e).__name__}: {e}")
                return
        want = case in ("two-objects-same-name", "placeholder-vs-size-param")
        h.oblige(f"clash.raises-iff-different-object-same-name[{case}]",
                 z3.BoolVal((raised is not None) == want))


@contract
class PreprocessNames(Contract):
    name = "names.preprocess"
    functions = ("pytato.codegen:CodeGenPreprocessor.map_placeholder",
                 "pytato.codegen:CodeGenPreprocessor.map_data_wrapper")
    properties = ("C15",)

    def instances(self, tier):
        return [dict(label=k, case=k) for k in ("placeholder", "data-wrapper")]

    def run(self, h, inst):
        from pytato.array import Placeholder
        from pytato.codegen import CodeGenPreprocessor
        m = CodeGenPreprocessor(pt.LoopyPyOpenCLTarget())
        m.rec = lambda x, *a: x
        if inst["case"] == "placeholder":
            a = pt.make_placeholder("user_name", (h.nonneg("n"),))
            r = h.call(m.map_placeholder, a)
            h.oblige("faithful.placeholder-keeps-its-name",
                     z3.BoolVal(isinstance(r, Placeholder)
                                and r.name == "user_name"))
            return
        d = np.arange(4.0)
        before = d.copy()
        w = pt.make_data_wrapper(d)
        r = h.call(m.map_data_wrapper, w)
        h.oblige("faithful.data-wrapper-becomes-bound-placeholder", z3.BoolVal(
            isinstance(r, Placeholder) and m.bound_arguments.get(r.name) is d
            and r.shape == w.shape and r.dtype == w.dtype
            and r.axes == w.axes and r.tags == w.tags))
        h.oblige("faithful.wrapped-data-not-written",
                 z3.BoolVal(bool(np.array_equal(d, before))))
