"""C12 -- outlining a function and inlining its calls.

trace.*     trace_call with n positional and m keyword arguments and each of
            the three return conventions: accepted; the function's parameter
            set = the names of the placeholders handed to f = the binding
            names; each binding *is* the corresponding argument; results follow
            f's return convention and have the body's shapes/dtypes.
subst.*     PlaceholderSubstitutor.map_placeholder returns the substitution
            itself, without recursing into it (no capture when caller and
            callee share names); function definitions are left alone.
inline.*    Inliner.map_call on a tagged call: same result names; every value
            is what the inliner's own recursion returned for the body with the
            parameters replaced by the call's bindings (so the bindings'
            own calls are inlined too); a caller placeholder named like a
            parameter is not substituted again; untagged calls are rebuilt.
mark.*      InlineMarker.map_call only adds the tag.
body.*      copy mappers map a function body with exactly one clone per
            definition (one name space, shared sub-expressions stay shared).
"""
from __future__ import annotations

import itertools

import numpy as np
import z3

import pytato as pt
from pytato.array import Array, DictOfNamedArrays, Placeholder
from pytato.function import (Call, FunctionDefinition, NamedCallResult,
                             ReturnType, trace_call)
from pytato.tags import InlineCallTag
from pytato.transform.calls import (Inliner, InlineMarker,
                                    PlaceholderSubstitutor)

from pyvc import graphmodel as gm
from pyvc import mapperlib as ml
from pyvc.core import Contract, contract
from pyvc.sym import EngineSignal


def opaque_arg(label, rank=1):
    return gm.mk_opaque_array(label, "concrete", rank=rank)


@contract
class TraceCall(Contract):
    name = "calls.trace_call"
    functions = ("pytato.function:trace_call",
                 "pytato.function:FunctionDefinition.__call__",
                 "pytato.function:FunctionDefinition._placeholders",
                 "pytato.function:Call.__getitem__",
                 "pytato.function:NamedCallResult.shape",
                 "pytato.function:NamedCallResult.dtype")
    properties = ("C12",)

    def instances(self, tier):
        out = []
        for n in range(0, 4):
            for m in range(0, 4 - n):
                if n + m == 0:
                    continue
                for ret in ("array", "tuple", "dict"):
                    out.append(dict(label=f"pos={n};kw={m};returns={ret}",
                                    n=n, m=m, ret=ret))
                    if m >= 2:
                        out.append(dict(
                            label=f"pos={n};kw={m};returns={ret};kw-reversed",
                            n=n, m=m, ret=ret, kworder="reversed"))
        # long tuples (names _0 .. _11: lexicographic order differs from
        # numeric order beyond ten entries)
        out.append(dict(label="pos=2;kw=0;returns=tuple12", n=2, m=0,
                        ret="tuple12"))
        # a function that ignores some of its arguments (documented: unused
        # parameters are allowed; they have no placeholder in the body)
        for n, m in ((2, 0), (1, 1), (0, 2), (2, 1)):
            for ret in ("array", "tuple", "dict"):
                out.append(dict(
                    label=f"pos={n};kw={m};returns={ret};ignores-first",
                    n=n, m=m, ret=ret, ignores="first"))
        return out

    def canaries(self, tier):
        return [(dict(label="pos=1;kw=1;returns=array", n=1, m=1,
                      ret="array"), "expect-swapped-binding",
                 "trace.binding-is-argument")]

    def run(self, h, inst):
        n, m, ret = inst["n"], inst["m"], inst["ret"]
        shp = (h.nonneg("len"),)
        args = [gm.mk_opaque_array(f"arg{i}", "concrete", shape=shp)
                for i in range(n)]
        kwnames = ["alpha", "x", "in__pt_9"][:m]
        kwargs = {k: gm.mk_opaque_array(f"kw_{k}", "concrete", shape=shp)
                  for k in kwnames}
        if inst.get("kworder") == "reversed":
            kwargs = dict(reversed(list(kwargs.items())))
        seen = {}

        def f(*pls, **kpls):
            seen["pos"] = pls
            seen["kw"] = kpls
            allp = [*pls, *kpls.values()]
            if inst.get("ignores") == "first":
                allp = allp[1:]
            body = allp[0]
            for q in allp[1:]:
                body = body + q
            if ret == "array":
                return body
            if ret == "tuple":
                return (body, allp[-1])
            if ret == "tuple12":
                return tuple(body * (i + 2) if i % 2 == 0 else allp[-1] + i
                             for i in range(12))
            return {"out": body, "last": allp[-1]}
        f.__name__ = "f"
        try:
            res = h.call(trace_call, f, *args, **kwargs)
        except EngineSignal:
            raise
        except Exception as e:  # noqa: BLE001
            h.fail("trace.accepted", f"{type(e).__name__}: {e}",
                   )
            return
        if ret == "array":
            results = {"_": res}
            h.oblige("trace.return-convention",
                     z3.BoolVal(isinstance(res, NamedCallResult)))
        elif ret in ("tuple", "tuple12"):
            h.oblige("trace.return-convention",
                     z3.BoolVal(isinstance(res, tuple) and len(res) == (
                         2 if ret == "tuple" else 12)))
            results = {f"_{i}": r for i, r in enumerate(res)} \
                if isinstance(res, tuple) else {}
        else:
            h.oblige("trace.return-convention",
                     z3.BoolVal(hasattr(res, "keys")
                                and set(res.keys()) == {"out", "last"}))
            results = dict(res.items()) if hasattr(res, "items") else {}
        if not results or not all(isinstance(r, NamedCallResult)
                                  for r in results.values()):
            h.fail("trace.results-are-call-results", repr(type(res)))
            return
        call = next(iter(results.values()))._container
        fn = call.function
        # positional parameters pair up by position, keyword parameters by
        # *keyword* (whatever order the callee received them in)
        h.oblige("trace.keywords-passed-on", z3.BoolVal(
            set(seen["kw"]) == set(kwargs)))
        pls = [*seen["pos"], *[seen["kw"][k] for k in kwargs
                               if k in seen["kw"]]]
        given = [*args, *[kwargs[k] for k in kwargs if k in seen["kw"]]]
        h.oblige("trace.placeholders-are-placeholders",
                 z3.BoolVal(all(isinstance(q, Placeholder) for q in pls)))
        names = [q.name for q in pls]
        h.oblige("trace.placeholder-names-distinct",
                 z3.BoolVal(len(set(names)) == len(names)))
        h.oblige("trace.parameters=placeholder-names",
                 z3.BoolVal(fn.parameters == frozenset(names)))
        h.oblige("trace.binding-names=parameters",
                 z3.BoolVal(frozenset(call.bindings) == fn.parameters))
        order = list(range(len(pls)))
        if h.canary == "expect-swapped-binding":
            order = order[::-1]
        h.oblige("trace.binding-is-argument", z3.BoolVal(all(
            call.bindings.get(pls[i].name) is given[order[i]]
            for i in range(len(pls)))))
        for i, q in enumerate(pls):
            h.oblige(f"trace.placeholder-mirrors-argument[{i}]", z3.BoolVal(
                q.shape == given[i].shape and q.dtype == given[i].dtype))
        for k, r in results.items():
            body = fn.returns[r.name]
            shp = h.interp.getattr(r, "shape")
            h.oblige(f"trace.result-shape-dtype[{k}]", z3.BoolVal(
                r.name == k and shp == body.shape
                and h.interp.getattr(r, "dtype") == body.dtype))
        want_rt = {"array": ReturnType.ARRAY, "tuple":
                   ReturnType.TUPLE_OF_ARRAYS,
                   "tuple12": ReturnType.TUPLE_OF_ARRAYS,
                   "dict": ReturnType.DICT_OF_ARRAYS}[ret]
        h.oblige("trace.return-type-recorded",
                 z3.BoolVal(fn.return_type == want_rt))

    def replay(self, inst, clause, model, info):
        return TRACE_REPLAY.format(inst=inst)


TRACE_REPLAY = '''
import sys
sys.path.insert(0, "/verif")
import numpy as np, pytato as pt
from pyvc.replaylib import reproduced
inst = {inst!r}
n, m = inst["n"], inst["m"]
args = [pt.make_placeholder(f"a{{i}}", (4,)) for i in range(n)]
kw = {{k: pt.make_placeholder(f"k_{{k}}", (4,)) for k in ["alpha", "x", "in__pt_9"][:m]}}
def f(*p, **k):
    allp = [*p, *k.values()]
    body = allp[0]
    for q in allp[1:]: body = body + q
    return body
try:
    r = pt.trace_call(f, *args, **kw)
except Exception as e:
    reproduced(f"trace_call with {{n}} positional and {{m}} keyword argument(s) raised {{type(e).__name__}}: {{e}}")
print("not reproduced"); sys.exit(0)
'''


@contract
class Substitutor(Contract):
    name = "calls.substitutor"
    functions = ("pytato.transform.calls:PlaceholderSubstitutor.map_placeholder",
                 "pytato.transform.calls:PlaceholderSubstitutor."
                 "map_function_definition")
    properties = ("C12",)

    def instances(self, tier):
        return [dict(label=k, case=k) for k in
                ("plain", "substitution-is-placeholder-named-like-parameter",
                 "function-definition")]

    def run(self, h, inst):
        from pytato.array import _get_default_axes
        case = inst["case"]
        n = h.nonneg("n")
        px = Placeholder(name="x", shape=(n,), dtype=np.dtype(np.float64),
                         axes=_get_default_axes(1), tags=frozenset())
        if case == "plain":
            sub = {"x": opaque_arg("bx"), "y": opaque_arg("by")}
        else:
            # caller placeholder called "y", bound to parameter "x", while
            # "y" is a parameter too
            caller_y = Placeholder(name="y", shape=(n,),
                                   dtype=np.dtype(np.float64),
                                   axes=_get_default_axes(1), tags=frozenset())
            sub = {"x": caller_y, "y": opaque_arg("by")}
        s = PlaceholderSubstitutor(sub)
        rec_calls = []
        s.rec = lambda x, *a: rec_calls.append(x) or x
        if case == "function-definition":
            fd = gm.mk_opaque_function("f", "concrete")
            r = h.call(s.map_function_definition, fd)
            h.oblige("subst.function-definition-untouched",
                     z3.BoolVal(r is fd and not rec_calls))
            return
        r = h.call(s.map_placeholder, px)
        h.oblige("subst.returns-the-substitution-itself",
                 z3.BoolVal(r is sub["x"]))
        h.oblige("subst.no-recursion-into-substitution (no capture)",
                 z3.BoolVal(not rec_calls))


@contract
class InlineCall(Contract):
    name = "calls.inliner"
    functions = ("pytato.transform.calls:Inliner.map_call",
                 "pytato.transform.calls:Inliner.map_named_call_result",
                 "pytato.transform.calls:InlineMarker.map_call",
                 "pytato.transform.calls:inline_calls",
                 "pytato.transform.calls:tag_all_calls_to_be_inlined")
    properties = ("C12",)

    def instances(self, tier):
        return [dict(label=k, case=k) for k in
                ("tagged", "tagged-binding-named-like-parameter",
                 "tagged-binding-equal-to-its-parameter", "untagged",
                 "named-result-of-inlined", "named-result-of-kept", "marker")]

    def canaries(self, tier):
        return [(dict(label="tagged", case="tagged"), "expect-placeholder",
                 "inline.parameters-replaced-by-bindings")]

    def mk_call(self, h, tagged, capture=False):
        from constantdict import constantdict

        from pytato.array import _get_default_axes
        n = h.nonneg("n")
        mkp = lambda nm: Placeholder(  # noqa: E731
            name=nm, shape=(n,), dtype=np.dtype(np.float64),
            axes=_get_default_axes(1), tags=frozenset())
        px, py = mkp("x"), mkp("y")
        body1 = px + py
        body2 = px * 2
        fn = FunctionDefinition(frozenset({"x", "y"}),
                                ReturnType.DICT_OF_ARRAYS,
                                constantdict({"s": body1, "d": body2}),
                                tags=frozenset())
        if capture == "same":
            # the caller's own placeholder "x", equal to the parameter "x"
            bx = mkp("x")
        else:
            bx = mkp("y") if capture else gm.mk_opaque_array(
                "bx", "concrete", shape=(n,))
        by = gm.mk_opaque_array("by", "concrete", shape=(n,))
        if isinstance(bx, gm._OpaqueMixin):
            # two different argument expressions
            h.assume(z3.Not(gm.R(bx._u, by._u)))
            h.assume(z3.Not(gm.R(by._u, bx._u)))
        call = Call(fn, constantdict({"x": bx, "y": by}),
                    tags=frozenset({InlineCallTag()}) if tagged
                    else frozenset())
        return call, fn, (px, py), (bx, by), (body1, body2)

    def run(self, h, inst):
        case = inst["case"]
        if case == "marker":
            return self.marker(h)
        tagged = case != "untagged" and case != "named-result-of-kept"
        call, fn, (px, py), (bx, by), (b1, b2) = self.mk_call(
            h, tagged, capture="same" if case.endswith("its-parameter")
            else case.endswith("like-parameter"))
        inl = Inliner()
        rec_args = []
        images = {}

        def rec(x, *a):
            rec_args.append(x)
            if isinstance(x, Call):
                return x
            img = gm.mk_opaque_array(f"inl#{len(rec_args)}", "concrete",
                                     shape=x.shape)
            images[id(img)] = x
            return img
        inl.rec = rec
        inl.rec_function_definition = lambda f_, *a: f_
        if case.startswith("named-result"):
            ncr = call["s"]
            if case == "named-result-of-inlined":
                inlined = DictOfNamedArrays(
                    {"s": gm.mk_opaque_array("S", "concrete", rank=1),
                     "d": gm.mk_opaque_array("D", "concrete", rank=1)},
                    tags=frozenset())
                inl.rec = lambda x, *a: inlined
                r = h.call(inl.map_named_call_result, ncr)
                h.oblige("inline.named-result-is-inlined-expression",
                         z3.BoolVal(r is inlined._data["s"]))
            else:
                inl.rec = lambda x, *a: call
                r = h.call(inl.map_named_call_result, ncr)
                h.oblige("inline.named-result-of-kept-call",
                         z3.BoolVal(r is call["s"]))
            return
        try:
            res = h.call(inl.map_call, call)
        except EngineSignal:
            raise
        except Exception as e:  # noqa: BLE001
            h.fail("inline.no-exception", f"{type(e).__name__}: {e}")
            return
        if not tagged:
            h.oblige("inline.untagged-call-kept", z3.BoolVal(
                isinstance(res, Call) and res.function is fn))
            return
        h.oblige("inline.result-is-dict-with-same-names", z3.BoolVal(
            isinstance(res, DictOfNamedArrays)
            and set(res._data) == {"s", "d"}))
        if not isinstance(res, DictOfNamedArrays):
            return
        h.oblige("inline.keeps-call-tags", z3.BoolVal(res.tags == call.tags))
        for name, body in (("s", b1), ("d", b2)):
            val = res._data[name]
            src = images.get(id(val))
            # the value is what the inliner's own recursion returned ...
            h.oblige(f"inline.value-went-through-inliner[{name}]",
                     z3.BoolVal(src is not None))
            if src is None:
                continue
            # ... for the body with parameters replaced by the bindings
            bnds = getattr(src, "bindings", {})
            want_x = px if h.canary == "expect-placeholder" else bx
            ok = (type(src) is type(body) and src.expr == body.expr
                  and all(v is (want_x if body.bindings[k] is px else by)
                          for k, v in bnds.items())
                  and set(bnds) == set(body.bindings))
            h.oblige(f"inline.parameters-replaced-by-bindings[{name}]",
                     z3.BoolVal(bool(ok)))

    def marker(self, h):
        call, fn, *_ = self.mk_call(h, tagged=False)
        mk = InlineMarker()
        mk.rec = lambda x, *a: x
        mk.rec_function_definition = lambda f_, *a: f_
        res = h.call(mk.map_call, call)
        h.oblige("mark.only-adds-the-tag", z3.BoolVal(
            isinstance(res, Call) and res.function is fn
            and dict(res.bindings) == dict(call.bindings)
            and res.tags == call.tags | {InlineCallTag()}))


@contract
class FunctionBody(Contract):
    name = "calls.function-body"
    functions = ("pytato.transform:CopyMapper.map_function_definition",
                 "pytato.transform:CopyMapperWithExtraArgs."
                 "map_function_definition")
    properties = ("C12", "C13")

    MAPPERS = ["CopyMapper", "CopyMapperWithExtraArgs", "Deduplicator",
               "CachedMapAndCopyMapper", "InlineMarker", "Inliner",
               "DeadCodeEliminator", "DataWrapperDeduplicator"]

    def instances(self, tier):
        return [dict(label=m, M=m) for m in self.MAPPERS]

    def run(self, h, inst):
        M = ml.mapper_by_name(inst["M"])
        mapper = ml.instantiate(M)
        b = ml.build_node(FunctionDefinition, "f",
                          dict(keys=["r0", "r1", "r2"], rank=1))
        clones = []

        class Clone:
            def __init__(self, k):
                self.k = k
                self.seen = []

            def __call__(self, x, *a, **kw):
                self.seen.append(x)
                return x

        def clone_for_callee(fn):
            c = Clone(len(clones))
            clones.append(c)
            return c
        mapper.clone_for_callee = clone_for_callee
        try:
            h.call(mapper.map_function_definition, b.obj)
        except EngineSignal:
            raise
        except NotImplementedError:
            h.oblige(f"body.unsupported-is-explicit[{inst['M']}]",
                     z3.BoolVal(True))
            return
        Mn = inst["M"]
        h.oblige(f"body.one-clone-per-definition[{Mn}]",
                 z3.BoolVal(len(clones) == 1))
        if clones:
            h.oblige(f"body.all-returns-through-that-clone[{Mn}]",
                     z3.BoolVal({id(x) for x in clones[0].seen}
                                == {id(x) for x in b.obj.returns.values()}))


# {{{ whole programs with calls (translation validation of inline_calls)

def _call_programs():
    """name -> () -> (outputs with calls, the same outputs computed by
    applying the Python functions directly).  Every pattern the property
    names: shared placeholder names between caller and body, one definition
    called several times (same arrays in different parameter positions; call
    sites that produce equal sub-expressions; an expression of the body also
    computed by the caller), nested calls, keyword arguments, the three
    return conventions."""
    def mkp(name, dtype=np.float64):
        return pt.make_placeholder(name, (4,), dtype)

    def once(f, *args, **kwargs):
        """(call-based result, direct result, the definition)"""
        res = trace_call(f, *args, **kwargs)
        one = res if isinstance(res, Array) else (
            res[0] if isinstance(res, tuple) else next(iter(res.values())))
        return res, f(*args, **kwargs), one._container.function

    def again(fd, f, **kwargs):
        """the *same* definition called with other arguments"""
        return fd(**{"in_" + k: v for k, v in kwargs.items()}), f(**kwargs)

    def swapped():
        a, b = mkp("a"), mkp("b")
        f = lambda x, y: 2 * x - y       # noqa: E731
        r1, d1, fd = once(f, x=a, y=b)
        r2, d2 = again(fd, f, x=b, y=a)
        return {"o": r1, "p": r2, "q": r1 * r2}, {"o": d1, "p": d2,
                                                  "q": d1 * d2}

    def equal_subexpressions():
        a, b, c = mkp("a"), mkp("b"), mkp("c")
        f = lambda x, y: 2 * x + y       # noqa: E731
        r1, d1, fd = once(f, x=a, y=b)
        r2, d2 = again(fd, f, x=a, y=c)
        return {"o": r1 + r2, "p": r1 + 2 * a}, {"o": d1 + d2,
                                                 "p": d1 + 2 * a}

    def three_sites_kw():
        a, b, c = mkp("a"), mkp("b"), mkp("c")
        g = lambda x, y, z: (x - y) * z + x      # noqa: E731
        r1, d1, fd = once(g, x=a, y=b, z=c)
        r2, d2 = again(fd, g, x=c, y=a, z=b)
        r3, d3 = again(fd, g, x=b, y=c, z=a)
        return {"o": r1, "p": r2, "q": r3}, {"o": d1, "p": d2, "q": d3}

    def same_names():
        # caller placeholders called like the parameters, crosswise
        x, y = mkp("x"), mkp("y")
        f = lambda x, y: x - 3 * y       # noqa: E731
        r1, d1, fd = once(f, x=y, y=x)
        r2, d2 = again(fd, f, x=x, y=y)
        return {"o": r1 + x, "p": r2 - y}, {"o": d1 + x, "p": d2 - y}

    def nested():
        a, b = mkp("a"), mkp("b")
        inner = lambda x, y: x * y - y           # noqa: E731

        def outer_calls(x, y):
            return trace_call(inner, x=y, y=x) + trace_call(inner, x=x, y=x + y)

        def outer_direct(x, y):
            return inner(x=y, y=x) + inner(x=x, y=x + y)
        r1 = trace_call(outer_calls, x=a, y=b)
        fd = r1._container.function
        r2 = fd(in_x=b, in_y=a + 1)
        return {"o": r1, "p": r2}, {"o": outer_direct(a, b),
                                    "p": outer_direct(b, a + 1)}

    def tuple_and_dict():
        a, b = mkp("a"), mkp("b")
        ft = lambda x, y: (x + y, x - y, 2 * y)          # noqa: E731
        fd_ = lambda x, y: {"s": x + y, "d": y - x}      # noqa: E731
        t = trace_call(ft, a, b)
        tfd = t[0]._container.function
        names = sorted(tfd.parameters)      # in__pt_0, in__pt_1
        tt = tfd(**dict(zip(names, (b, a), strict=True)))
        dt = ft(b, a)
        d = trace_call(fd_, a, y=b)
        outs = {"t0": t[0], "t1": t[1], "t2": t[2], "ds": d["s"],
                "dd": d["d"], "u0": tt[0], "u1": tt[1]}
        direct = {"t0": a + b, "t1": a - b, "t2": 2 * b, "ds": a + b,
                  "dd": b - a, "u0": dt[0], "u1": dt[1]}
        return outs, direct
    return {"swapped": swapped, "equal_subexpressions": equal_subexpressions,
            "three_sites_kw": three_sites_kw, "same_names": same_names,
            "nested": nested, "tuple_and_dict": tuple_and_dict}


@contract
class CallPrograms(Contract):
    name = "calls.programs"
    functions = ("pytato.transform.calls:inline_calls",
                 "pytato.transform.calls:tag_all_calls_to_be_inlined",
                 "pytato.transform.calls:Inliner.map_call",
                 "pytato.transform.calls:Inliner.__init__",
                 "pytato.function:FunctionDefinition.__call__",
                 "pytato.function:trace_call")
    properties = ("C12",)
    max_paths = 10
    notes = ("translation validation: the real passes run natively on each "
             "listed program; the call-free result is proved (z3, all input "
             "values and indices) to denote what applying the Python "
             "functions directly denotes",)

    def instances(self, tier):
        return [dict(label=k, prog=k) for k in _call_programs()]

    def canaries(self, tier):
        return [(dict(label="swapped", prog="swapped"), "output-plus-one",
                 "calls.programs.value")]

    def run(self, h, inst):
        from contracts.c05_transforms import _inputs_by_identity
        from contracts.c07_kernel import pytato_den
        from pytato.analysis import get_num_call_sites
        from pyvc.den import ArrayModel
        from pyvc.ptlib import in_box, oblige_equal_den
        try:
            outs, direct = _call_programs()[inst["prog"]]()
        except Exception as e:  # noqa: BLE001
            h.fail("calls.programs.traceable", f"{type(e).__name__}: {e}")
            return
        for k in outs:
            ok = outs[k].shape == direct[k].shape and \
                outs[k].dtype == direct[k].dtype
            h.oblige("calls.programs.call-result-has-the-shape-and-dtype-of-"
                     "the-direct-call", z3.BoolVal(bool(ok)), info=k)
        d_in = pt.transform.deduplicate(pt.make_dict_of_named_arrays(outs))
        try:
            d_out = pt.inline_calls(pt.tag_all_calls_to_be_inlined(d_in))
        except Exception as e:  # noqa: BLE001
            h.fail("calls.programs.inline-no-exception",
                   f"{type(e).__name__}: {e}")
            return
        h.oblige("calls.programs.result-is-call-free",
                 z3.BoolVal(get_num_call_sites(d_out) == 0))
        h.oblige("calls.programs.names", z3.BoolVal(list(d_out) == list(d_in)))
        arrays = ArrayModel()
        byname = {}
        for k in direct:
            for i in _inputs_by_identity(direct[k]):
                if isinstance(i, Placeholder):
                    byname.setdefault(i.name, i)
        extra = []
        for k in d_out:
            for i in _inputs_by_identity(d_out[k].expr):
                if isinstance(i, Placeholder):
                    if i.name not in byname:
                        extra.append(i.name)
                    elif i is not byname[i.name]:
                        arrays.alias(i, byname[i.name], i.ndim)
        h.oblige("calls.programs.reads-only-the-caller's-inputs",
                 z3.BoolVal(not extra), info=sorted(set(extra)))
        for k in direct:
            e0, e1 = direct[k], d_out[k].expr
            if e0.shape != e1.shape or e0.dtype != e1.dtype:
                h.fail("calls.programs.shape-dtype",
                       f"{k}: {e1.shape}/{e1.dtype} vs {e0.shape}/{e0.dtype}")
                continue
            ivars = [z3.Int(f"i{d_}") for d_ in range(e0.ndim)]
            box = in_box(ivars, e0.shape)
            want = pytato_den(h, arrays, e0, ivars)
            got = pytato_den(h, arrays, e1, ivars)
            if h.canary == "output-plus-one" and z3.is_expr(want):
                want = want + 1
            oblige_equal_den(h, "calls.programs.value", box, got, want,
                             props=("C12",))

    def replay(self, inst, clause, model, info):
        return CALLPROG_REPLAY.format(prog=inst["prog"])


CALLPROG_REPLAY = '''
import sys
sys.path.insert(0, "/verif"); sys.path.append("/verif/.deps")
import numpy as np, pytato as pt
from pyvc.replaylib import eval_array, reproduced, not_reproduced
from contracts.c12_calls import _call_programs
prog = {prog!r}
outs, direct = _call_programs()[prog]()
d_in = pt.transform.deduplicate(pt.make_dict_of_named_arrays(outs))
try:
    d_out = pt.inline_calls(pt.tag_all_calls_to_be_inlined(d_in))
except Exception as e:
    reproduced(f"inlining the calls of program '{{prog}}' raises "
               f"{{type(e).__name__}}: {{str(e)[:300]}}")
from pytato.analysis import get_num_call_sites
if get_num_call_sites(d_out):
    reproduced(f"program '{{prog}}': calls remain after inline_calls")
rng = np.random.default_rng(5)
data = {{nm: rng.integers(-4, 5, (4,)).astype(np.float64)
        for nm in ("a", "b", "c", "x", "y")}}
for k in direct:
    want = eval_array(direct[k], data)
    got = eval_array(d_out[k].expr, data)
    if got.shape != want.shape or not np.allclose(got, want):
        reproduced(f"program '{{prog}}', output '{{k}}': inlined graph gives "
                   f"{{got.tolist()}}, calling the function directly gives "
                   f"{{want.tolist()}} (inputs {{ {{n: v.tolist() for n, v in data.items()}} }})")
not_reproduced("inlined graph agrees with the direct calls")
'''

# }}}
