"""C03 -- dtype inference: exhaustive finite run-time contract against NumPy.

BOUNDED STAND-IN (never counted as proved): the contract
``result.dtype == numpy_op(np.empty(s, d1), other).dtype`` is *executed* on
the real functions over the complete finite product
{13 dtypes}^2 x {operators, array functions} x {array, Python bool/int/float/
complex, NumPy scalar} -- the property's whole dtype scope.  What NumPy
computes is NumPy's C code; no verifier here reaches it.
"""
from __future__ import annotations

import operator
import warnings

import numpy as np

DTYPES = [np.bool_, np.int8, np.int16, np.int32, np.int64, np.uint8,
          np.uint16, np.uint32, np.uint64, np.float32, np.float64,
          np.complex64, np.complex128]
PYSCALARS = [True, 3, 2.5, 1 + 2j]

BIN = {"add": operator.add, "sub": operator.sub, "mul": operator.mul,
       "truediv": operator.truediv, "floordiv": operator.floordiv,
       "mod": operator.mod, "pow": operator.pow, "and": operator.and_,
       "or": operator.or_, "xor": operator.xor}


def _np(f, *a):
    with warnings.catch_warnings():
        warnings.simplefilter("ignore")
        with np.errstate(all="ignore"):
            try:
                return np.asarray(f(*a)).dtype, None
            except Exception as e:  # noqa: BLE001
                return None, e


def _pt(f, *a):
    with warnings.catch_warnings():
        warnings.simplefilter("ignore")
        try:
            r = f(*a)
            return (r.dtype if hasattr(r, "dtype") else np.asarray(r).dtype), \
                None
        except Exception as e:  # noqa: BLE001
            return None, e


def dtype_table(tier, seed):
    import pytato as pt
    evals = 0
    failures = {}
    samples = []

    def record(key, what, src):
        if key not in failures:
            failures[key] = dict(key=key, what=what, replay_src=src)

    def cmp_(key, ptf, npf, descr, src):
        nonlocal evals
        evals += 1
        want, nerr = npf()
        if nerr is not None:
            return          # NumPy rejects the dtype combination: no claim
        got, perr = ptf()
        if perr is not None:
            return          # over-rejection is allowed by the statement
        if len(samples) < 5:
            samples.append(dict(case=descr, pytato=str(got), numpy=str(want)))
        if np.dtype(got) != np.dtype(want):
            record(key, f"{descr}: pytato {got} vs NumPy {want}", src)

    def src_bin(op, k, d1, d2):
        return REPLAY.format(op=op, kind=k, d1=np.dtype(d1).name,
                             d2=(np.dtype(d2).name if isinstance(d2, type)
                                 else repr(d2)))

    shp = (2,)
    for d1 in DTYPES:
        a = pt.make_placeholder("a", shp, d1)
        na = np.ones(shp, d1)
        # unary
        for nm, pf, nf in [("neg", operator.neg, operator.neg),
                           ("abs", abs, np.abs),
                           ("astype-float32", lambda x: x.astype(np.float32),
                            lambda x: x.astype(np.float32))]:
            cmp_(f"{nm}|array|{np.dtype(d1).name}|-",
                 lambda pf=pf: _pt(pf, a), lambda nf=nf: _np(nf, na),
                 f"{nm}({np.dtype(d1).name})", None)
        for nm in ("sum", "prod", "amax", "amin", "all", "any"):
            cmp_(f"{nm}|array|{np.dtype(d1).name}|-",
                 lambda nm=nm: _pt(getattr(pt, nm), a),
                 lambda nm=nm: _np(getattr(np, nm), na),
                 f"{nm}({np.dtype(d1).name})",
                 REPLAY_UN.format(op=nm, d1=np.dtype(d1).name))
        for d2 in DTYPES:
            b = pt.make_placeholder("b", shp, d2)
            nb = np.ones(shp, d2)
            n2 = np.dtype(d2).type(1)
            for op, f in BIN.items():
                cmp_(f"{op}|array-array|{np.dtype(d1).name}|{np.dtype(d2).name}",
                     lambda f=f: _pt(f, a, b), lambda f=f: _np(f, na, nb),
                     f"{np.dtype(d1).name} {op} {np.dtype(d2).name}",
                     src_bin(op, "array-array", d1, d2))
                cmp_(f"{op}|array-npscalar|{np.dtype(d1).name}|{np.dtype(d2).name}",
                     lambda f=f: _pt(f, a, n2), lambda f=f: _np(f, na, n2),
                     f"{np.dtype(d1).name}[] {op} np.{np.dtype(d2).name}(1)",
                     src_bin(op, "array-npscalar", d1, d2))
                cmp_(f"{op}|npscalar-array|{np.dtype(d2).name}|{np.dtype(d1).name}",
                     lambda f=f: _pt(f, n2, a), lambda f=f: _np(f, n2, na),
                     f"np.{np.dtype(d2).name}(1) {op} {np.dtype(d1).name}[]",
                     src_bin(op, "npscalar-array", d1, d2))
            for nm in ("equal", "less", "logical_and", "logical_or",
                       "maximum", "minimum"):
                cmp_(f"{nm}|array-array|{np.dtype(d1).name}|{np.dtype(d2).name}",
                     lambda nm=nm: _pt(getattr(pt, nm), a, b),
                     lambda nm=nm: _np(getattr(np, nm), na, nb),
                     f"{nm}({np.dtype(d1).name},{np.dtype(d2).name})", None)
            cmp_(f"where|array-array|{np.dtype(d1).name}|{np.dtype(d2).name}",
                 lambda: _pt(pt.where, pt.make_placeholder("c", shp, np.bool_),
                             a, b),
                 lambda: _np(np.where, np.ones(shp, bool), na, nb),
                 f"where(c,{np.dtype(d1).name},{np.dtype(d2).name})", None)
            for nm, pf, nf in [
                    ("stack", lambda: pt.stack([a, b]).dtype,
                     lambda: np.stack([na, nb]).dtype),
                    ("concatenate", lambda: pt.concatenate([a, b]).dtype,
                     lambda: np.concatenate([na, nb]).dtype),
                    ("einsum", lambda: pt.einsum("i,i->i", a, b).dtype,
                     lambda: np.einsum("i,i->i", na, nb).dtype),
                    ("matmul", lambda: (a @ b).dtype,
                     lambda: (na @ nb).dtype)]:
                cmp_(f"{nm}|array-array|{np.dtype(d1).name}|{np.dtype(d2).name}",
                     lambda pf=pf: _wrap(pf), lambda nf=nf: _wrap(nf),
                     f"{nm}({np.dtype(d1).name},{np.dtype(d2).name})", None)
        for s in PYSCALARS:
            for op, f in BIN.items():
                cmp_(f"{op}|array-pyscalar|{np.dtype(d1).name}|{type(s).__name__}",
                     lambda f=f: _pt(f, a, s), lambda f=f: _np(f, na, s),
                     f"{np.dtype(d1).name}[] {op} {s!r}",
                     src_bin(op, "array-pyscalar", d1, s))
                cmp_(f"{op}|pyscalar-array|{type(s).__name__}|{np.dtype(d1).name}",
                     lambda f=f: _pt(f, s, a), lambda f=f: _np(f, s, na),
                     f"{s!r} {op} {np.dtype(d1).name}[]",
                     src_bin(op, "pyscalar-array", d1, s))
            for nm in ("equal", "maximum"):
                cmp_(f"{nm}|array-pyscalar|{np.dtype(d1).name}|{type(s).__name__}",
                     lambda nm=nm: _pt(getattr(pt, nm), a, s),
                     lambda nm=nm: _np(getattr(np, nm), na, s),
                     f"{nm}({np.dtype(d1).name},{s!r})", None)
            cmp_(f"where|array-pyscalar|{np.dtype(d1).name}|{type(s).__name__}",
                 lambda: _pt(pt.where, pt.make_placeholder("c", shp, np.bool_),
                             a, s),
                 lambda: _np(np.where, np.ones(shp, bool), na, s),
                 f"where(c,{np.dtype(d1).name},{s!r})", None)
    return dict(name="dtype-table", kind="bounded",
                bound="complete product: 13 dtypes^2 x 10 operators x "
                      "{array, NumPy scalar} both orders, 4 Python scalar "
                      "kinds both orders, comparisons/logical/where/max/min, "
                      "reductions, stack/concatenate/einsum/matmul, unary",
                evaluations=evals, exhaustive=True,
                failures=list(failures.values()), samples=samples)


def _wrap(f):
    with warnings.catch_warnings():
        warnings.simplefilter("ignore")
        try:
            return np.dtype(f()), None
        except Exception as e:  # noqa: BLE001
            return None, e


REPLAY = '''
import sys, operator, warnings
sys.path.insert(0, "/verif")
import numpy as np, pytato as pt
warnings.simplefilter("ignore")
ops = dict(add=operator.add, sub=operator.sub, mul=operator.mul, truediv=operator.truediv,
           floordiv=operator.floordiv, mod=operator.mod, pow=operator.pow, **{{"and": operator.and_,
           "or": operator.or_, "xor": operator.xor}})
op, kind, d1, d2 = {op!r}, {kind!r}, {d1!r}, {d2!r}
a = pt.make_placeholder("a", (2,), d1); na = np.ones((2,), d1)
if kind == "array-array":
    x, y, nx, ny = a, pt.make_placeholder("b", (2,), d2), na, np.ones((2,), d2)
elif kind == "array-npscalar":
    s = np.dtype(d2).type(1); x, y, nx, ny = a, s, na, s
elif kind == "npscalar-array":
    s = np.dtype(d2).type(1); x, y, nx, ny = s, a, s, na
elif kind == "array-pyscalar":
    s = eval(d2); x, y, nx, ny = a, s, na, s
else:
    s = eval(d2); x, y, nx, ny = s, a, s, na
want = ops[op](nx, ny).dtype
got = ops[op](x, y).dtype
if got != want:
    print(f"REPRODUCED: {{op}} {{kind}} {{d1}} {{d2}}: pytato {{got}} vs NumPy {{want}}"); sys.exit(1)
print("not reproduced"); sys.exit(0)
'''

REPLAY_UN = '''
import sys, warnings
sys.path.insert(0, "/verif")
import numpy as np, pytato as pt
warnings.simplefilter("ignore")
op, d1 = {op!r}, {d1!r}
a = pt.make_placeholder("a", (2,), d1)
want = getattr(np, op)(np.ones((2,), d1)).dtype
got = getattr(pt, op)(a).dtype
if got != want:
    print(f"REPRODUCED: pt.{{op}}({{d1}} array).dtype = {{got}} but NumPy gives {{want}}"); sys.exit(1)
print("not reproduced"); sys.exit(0)
'''
