"""C02 / C11 -- lowering to IndexLambda preserves meaning; accesses in bounds.

Each contract builds the node through the *public constructor* (interpreted
from source, so exactly the user-reachable nodes are covered -- that is the
validity predicate), lowers it with the real ``to_index_lambda`` and states
NumPy's definition of the operation as the postcondition.
"""
from __future__ import annotations

import itertools

import numpy as np
import z3

import pytato as pt
from pytato.array import (AdvancedIndexInContiguousAxes,
                          AdvancedIndexInNoncontiguousAxes, Array,
                          AxisPermutation, BasicIndex, Concatenate, Einsum,
                          IndexLambda, Reshape, Roll, Stack)
from pytato.transform.lower_to_index_lambda import to_index_lambda

from pyvc.core import Contract, contract
from pyvc.den import ArrayModel, Reduction
from pyvc.ptlib import (VerifAxisTag, VerifTag, check_index_lambda,
                        mk_placeholder, shape_term)
from pyvc.ptlib import dim
from pyvc.sym import EngineSignal, py_floordiv, py_mod, z_of

LOWER = "pytato.transform.lower_to_index_lambda"


def decorate(node):
    """Give the node distinguishable tags/axis tags (metadata must survive)."""
    node = node.tagged(VerifTag(7))
    if node.ndim:
        node = node.with_tagged_axis(node.ndim - 1, VerifAxisTag(3))
    return node


def lower(h, node, clause):
    h.interp.native_only  # noqa: B018
    h.assert_clause_props = ("C02", "C01")
    try:
        return h.call(to_index_lambda, node)
    except EngineSignal:
        raise
    except Exception as e:  # noqa: BLE001
        h.fail(f"{clause}.no-exception",
               f"{type(e).__name__}: {e}", props=("C02", "C01"))
        return None
    finally:
        h.assert_clause_props = None


def A(arrays, arr, idx):
    rank = len(idx)
    f = arrays.fn_for(arr, rank)
    return f if rank == 0 else f(*idx)


def ranks(tier, lo=1):
    return range(lo, 5 if tier == "thorough" else 4)


@contract
class LowerRoll(Contract):
    name = "lower.roll"
    functions = (f"{LOWER}:ToIndexLambdaMixin.map_roll", "pytato.array:roll",
                 f"{LOWER}:to_index_lambda",
                 "pytato.utils:dim_to_index_lambda_components")
    # (C05: lowering is one of the transformations whose outputs it speaks of)
    properties = ("C02", "C11", "C01", "C05")

    def instances(self, tier):
        return [dict(label=f"rank={r},axis={ax}", rank=r, axis=ax)
                for r in ranks(tier) for ax in range(r)] + [
            # axis=None: NumPy rolls the flattened array
            dict(label=f"rank={r},axis=None", rank=r, axis=None)
            for r in (0, 1, 2, 3)]

    def canaries(self, tier):
        return [(dict(label="rank=2,axis=1", rank=2, axis=1), "wrong-sign",
                 "lower.roll.value"),
                (dict(label="rank=2,axis=1", rank=2, axis=1), "tight-bounds",
                 "lower.roll.in-bounds", ("C11",))]

    def run(self, h, inst):
        r, ax = inst["rank"], inst["axis"]
        a = mk_placeholder(h, "a", r)
        shift = h.int("shift")
        if ax is None:
            return self.run_flat(h, a, shift, r)
        node = h.call(pt.roll, a, shift, ax)
        if not isinstance(node, Roll):
            # a shortcut (e.g. shift == 0 returns the operand): it must
            # still be NumPy's roll -- for an arbitrary array that means
            # every index is mapped to itself
            h.oblige("lower.roll.shortcut-returns-the-operand",
                     z3.BoolVal(node is a), props=("C02", "C01"))
            iv = [z3.Int(f"i{d}") for d in range(r)]
            n_ = shape_term(a.shape[ax])
            box = z3.And([z3.And(iv[d] >= 0, iv[d] < shape_term(a.shape[d]))
                          for d in range(r)])
            h.oblige("lower.roll.shortcut-is-the-identity-roll",
                     z3.Implies(box, py_mod(iv[ax] - z_of(shift), n_)
                                == iv[ax]), props=("C02", "C01"))
            return
        node = decorate(node)
        arrays = ArrayModel()
        il = lower(h, node, "lower.roll")
        if il is None:
            return
        n = shape_term(a.shape[ax])
        sh = z_of(shift)
        if h.canary == "wrong-sign":
            sh = -sh

        def spec(iv):
            idx = [py_mod(iv[d] - sh, n) if d == ax else iv[d]
                   for d in range(r)]
            return A(arrays, a, idx)

        check_index_lambda(h, il, node, spec, arrays,
                           clause_prefix="lower.roll")

    def run_flat(self, h, a, shift, r):
        """roll(a, shift) without an axis: whatever is returned (pytato
        declines rank > 1 with NotImplementedError) must be NumPy's roll of
        the flattened array, reshaped back."""
        try:
            node = h.call(pt.roll, a, shift)
        except EngineSignal:
            raise
        except NotImplementedError:
            h.oblige("lower.roll.flat.declined-explicitly", z3.BoolVal(True),
                     props=("C02", "C01"))
            return
        ns = [shape_term(a.shape[d]) for d in range(r)]
        strides = []
        for d in range(r):
            st = z3.IntVal(1)
            for e in ns[d + 1:]:
                st = st * e
            strides.append(st)
        size = z3.IntVal(1)
        for e in ns:
            size = size * e
        sh = z_of(shift)

        def src(iv):
            flat = z3.IntVal(0)
            for d in range(r):
                flat = flat + iv[d] * strides[d]
            g = py_mod(flat - sh, size)
            return [py_mod(py_floordiv(g, strides[d]), ns[d]) for d in range(r)]
        if not isinstance(node, Roll):
            h.oblige("lower.roll.shortcut-returns-the-operand",
                     z3.BoolVal(node is a), props=("C02", "C01"))
            iv = [z3.Int(f"i{d}") for d in range(r)]
            box = z3.And([z3.And(iv[d] >= 0, iv[d] < ns[d])
                          for d in range(r)] + [z3.BoolVal(True)])
            h.oblige("lower.roll.shortcut-is-the-identity-roll",
                     z3.Implies(box, z3.And([s_ == i_ for s_, i_ in
                                             zip(src(iv), iv)]
                                            + [z3.BoolVal(True)])),
                     props=("C02", "C01"))
            return
        node = decorate(node)
        arrays = ArrayModel()
        il = lower(h, node, "lower.roll")
        if il is None:
            return
        check_index_lambda(h, il, node,
                           lambda iv: A(arrays, a, src(iv)), arrays,
                           clause_prefix="lower.roll")

    def replay(self, inst, clause, model, info):
        return REPLAY_HEADER + f"""
r, ax = {inst['rank']}, {inst['axis']}
shape = tuple(max(0, mint(M, f"a_n{{d}}", 2)) for d in range(r))
shift = mint(M, "shift", 1)
a = pt.make_placeholder("a", shape, np.float64)
try:
    node = pt.roll(a, shift, ax)
except NotImplementedError as e:
    not_reproduced(f"declined explicitly: {{e}}")
data = {{"a": rnd(shape)}}
expect = np.roll(data["a"], shift, ax)
compare(node, data, expect)
"""


REPLAY_HEADER = """\
import sys
sys.path.insert(0, "/verif")
import numpy as np
import pytato as pt
from pyvc.replaylib import (M_from, mint, rnd, compare, reproduced,
                            not_reproduced)
M = M_from(MODEL)
"""


def same_shape_operands(h, k, rank, *, except_axis=None):
    """k placeholders a0..a{k-1} with equal symbolic shapes (the constructor's
    precondition); along *except_axis* lengths are independent."""
    common = [dim(h, f"n{d}") for d in range(rank)]
    ops = []
    for j in range(k):
        shp = list(common)
        if except_axis is not None:
            shp[except_axis] = dim(h, f"a{j}_len")
        ops.append(mk_placeholder(h, f"a{j}", shape=shp))
    return ops


@contract
class LowerStack(Contract):
    name = "lower.stack"
    functions = (f"{LOWER}:ToIndexLambdaMixin.map_stack", "pytato.array:stack",
                 "pytato.array:Stack.shape")
    # (C05: lowering is one of the transformations whose outputs it speaks of)
    properties = ("C02", "C11", "C01", "C05")

    def instances(self, tier):
        out = []
        for r in ranks(tier, 0):
            for k in (1, 2, 3):
                for ax in range(r + 1):
                    out.append(dict(label=f"rank={r},k={k},axis={ax}",
                                    rank=r, k=k, axis=ax))
        return out

    def canaries(self, tier):
        return [(dict(label="rank=1,k=3,axis=1", rank=1, k=3, axis=1),
                 "swap-operands", "lower.stack.value"),
                (dict(label="rank=1,k=3,axis=1", rank=1, k=3, axis=1), "tight-bounds",
                 "lower.stack.in-bounds", ("C11",))]

    def run(self, h, inst):
        r, k, ax = inst["rank"], inst["k"], inst["axis"]
        ops = same_shape_operands(h, k, r)
        node = h.call(pt.stack, ops, ax)
        if not isinstance(node, Stack):
            # no shortcut is known for this constructor: whatever it returned
            # instead must be accounted for, not skipped
            h.fail("lower.stack.constructor-returns-Stack",
                   type(node).__name__, props=("C02", "C01"))
            return
        node = decorate(node)
        arrays = ArrayModel()
        il = lower(h, node, "lower.stack")
        if il is None:
            return
        order = list(range(k))
        if h.canary == "swap-operands":
            order[0], order[-1] = order[-1], order[0]

        def spec(iv):
            rest = [iv[d] for d in range(r + 1) if d != ax]
            t = A(arrays, ops[order[k - 1]], rest)
            for j in range(k - 2, -1, -1):
                t = z3.If(iv[ax] == j, A(arrays, ops[order[j]], rest), t)
            return t

        check_index_lambda(h, il, node, spec, arrays,
                           clause_prefix="lower.stack")

    def replay(self, inst, clause, model, info):
        return REPLAY_HEADER + f"""
r, k, ax = {inst['rank']}, {inst['k']}, {inst['axis']}
shape = tuple(max(0, mint(M, f"n{{d}}", 2)) for d in range(r))
ops = [pt.make_placeholder(f"a{{j}}", shape, np.float64) for j in range(k)]
data = {{f"a{{j}}": rnd(shape, seed=j) + 100 * j for j in range(k)}}
node = pt.stack(ops, ax)
expect = np.stack([data[f"a{{j}}"] for j in range(k)], ax)
compare(node, data, expect)
"""


@contract
class LowerConcatenate(Contract):
    name = "lower.concatenate"
    functions = (f"{LOWER}:ToIndexLambdaMixin.map_concatenate",
                 "pytato.array:concatenate", "pytato.array:Concatenate.shape")
    # (C05: lowering is one of the transformations whose outputs it speaks of)
    properties = ("C02", "C11", "C01", "C05")

    def instances(self, tier):
        out = []
        for r in ranks(tier, 1):
            for k in (1, 2, 3):
                for ax in range(r):
                    out.append(dict(label=f"rank={r},k={k},axis={ax}",
                                    rank=r, k=k, axis=ax))
        return out

    def canaries(self, tier):
        return [(dict(label="rank=1,k=2,axis=0", rank=1, k=2, axis=0),
                 "le-instead-of-lt", "lower.concatenate.value"),
                (dict(label="rank=1,k=2,axis=0", rank=1, k=2, axis=0), "tight-bounds",
                 "lower.concatenate.in-bounds", ("C11",))]

    def run(self, h, inst):
        r, k, ax = inst["rank"], inst["k"], inst["axis"]
        ops = same_shape_operands(h, k, r, except_axis=ax)
        node = h.call(pt.concatenate, ops, ax)
        if not isinstance(node, Concatenate):
            # no shortcut is known for this constructor: whatever it returned
            # instead must be accounted for, not skipped
            h.fail("lower.concatenate.constructor-returns-Concatenate",
                   type(node).__name__, props=("C02", "C01"))
            return
        node = decorate(node)
        arrays = ArrayModel()
        il = lower(h, node, "lower.concatenate")
        if il is None:
            return
        lens = [shape_term(o.shape[ax]) for o in ops]

        def spec(iv):
            offs = [z3.IntVal(0)]
            for ln in lens:
                offs.append(offs[-1] + ln)

            def piece(j):
                idx = [iv[d] - offs[j] if d == ax else iv[d]
                       for d in range(r)]
                return A(arrays, ops[j], idx)
            t = piece(k - 1)
            for j in range(k - 2, -1, -1):
                c = (iv[ax] <= offs[j + 1]) if h.canary == "le-instead-of-lt" \
                    else (iv[ax] < offs[j + 1])
                t = z3.If(c, piece(j), t)
            return t

        spec_shape = [z3.Sum(lens) if d == ax else shape_term(ops[0].shape[d])
                      for d in range(r)]
        check_index_lambda(h, il, node, spec, arrays,
                           clause_prefix="lower.concatenate",
                           spec_shape=spec_shape)

    def replay(self, inst, clause, model, info):
        return REPLAY_HEADER + f"""
r, k, ax = {inst['rank']}, {inst['k']}, {inst['axis']}
common = [max(0, mint(M, f"n{{d}}", 2)) for d in range(r)]
ops, data = [], {{}}
for j in range(k):
    shp = list(common); shp[ax] = max(0, mint(M, f"a{{j}}_len", 2))
    ops.append(pt.make_placeholder(f"a{{j}}", tuple(shp), np.float64))
    data[f"a{{j}}"] = rnd(tuple(shp), seed=j) + 100 * j
node = pt.concatenate(ops, ax)
expect = np.concatenate([data[f"a{{j}}"] for j in range(k)], ax)
compare(node, data, expect)
"""


@contract
class LowerAxisPermutation(Contract):
    name = "lower.axis_permutation"
    functions = (f"{LOWER}:ToIndexLambdaMixin.map_axis_permutation",
                 "pytato.array:transpose", "pytato.array:AxisPermutation.shape")
    # (C05: lowering is one of the transformations whose outputs it speaks of)
    properties = ("C02", "C11", "C01", "C05")

    def instances(self, tier):
        out = []
        for r in ranks(tier, 0):
            for perm in itertools.permutations(range(r)):
                out.append(dict(label=f"perm={list(perm)}", perm=list(perm)))
        return out

    def canaries(self, tier):
        return [(dict(label="perm=[1, 2, 0]", perm=[1, 2, 0]),
                 "inverse-permutation", "lower.axis_permutation.value"),
                (dict(label="perm=[1, 2, 0]", perm=[1, 2, 0]), "tight-bounds",
                 "lower.axis_permutation.in-bounds", ("C11",))]

    def run(self, h, inst):
        perm = inst["perm"]
        r = len(perm)
        a = mk_placeholder(h, "a", r)
        node = h.call(pt.transpose, a, perm)
        if not isinstance(node, AxisPermutation):
            # no shortcut is known for this constructor: whatever it returned
            # instead must be accounted for, not skipped
            h.fail("lower.axis_permutation.constructor-returns-AxisPermutation",
                   type(node).__name__, props=("C02", "C01"))
            return
        node = decorate(node)
        arrays = ArrayModel()
        il = lower(h, node, "lower.axis_permutation")
        if il is None:
            return

        def spec(iv):
            # numpy: result axis d is input axis perm[d]
            j = [None] * r
            for d in range(r):
                if h.canary == "inverse-permutation":
                    j[d] = iv[perm[d]]
                else:
                    j[perm[d]] = iv[d]
            return A(arrays, a, j)

        spec_shape = [shape_term(a.shape[perm[d]]) for d in range(r)]
        check_index_lambda(h, il, node, spec, arrays,
                           clause_prefix="lower.axis_permutation",
                           spec_shape=spec_shape)

    def replay(self, inst, clause, model, info):
        return REPLAY_HEADER + f"""
perm = {inst['perm']!r}
shape = tuple(max(0, mint(M, f"a_n{{d}}", d + 2)) for d in range(len(perm)))
a = pt.make_placeholder("a", shape, np.float64)
data = {{"a": rnd(shape)}}
node = pt.transpose(a, perm)
compare(node, data, np.transpose(data["a"], perm))
"""


# {{{ indexing

from contracts.slices import (_sym_slice, cpy_slice,  # noqa: E402
                              install_slice_contracts, zt)

SLICE_PATS_QUICK = ["111", "000", "101", "011"]
SLICE_PATS_ALL = ["".join(map(str, p)) for p in
                  itertools.product((0, 1), repeat=3)]


def basic_kinds(tier):
    pats = SLICE_PATS_ALL if tier == "thorough" else SLICE_PATS_QUICK
    return ["int", *[f"s{p}" for p in pats]]


def build_index(h, kinds):
    """Symbolic index tuple + per-axis description."""
    idx, descr = [], []
    for d, kd in enumerate(kinds):
        if kd == "int":
            k = h.int(f"k{d}")
            idx.append(k)
            descr.append(("int", k))
        elif kd.startswith("s"):
            pat = [int(c) for c in kd[1:]]
            start, stop, step = _sym_slice(h, pat, prefix=f"s{d}")
            idx.append(slice(start, stop, step))
            descr.append(("slice", (start, stop, step)))
        else:
            raise ValueError(kd)
    return tuple(idx), descr


def axis_spec(descr_d, n):
    """('int', j) or ('slice', s0, st, L): NumPy's meaning on an axis of
    length n (z3 term)."""
    if descr_d[0] == "int":
        k = z_of(descr_d[1])
        return ("int", k + z3.If(k < 0, n, z3.IntVal(0)))
    start, stop, step = descr_d[1]
    s0, _s1, st, L = cpy_slice(n, zt(start), zt(stop), zt(step))
    return ("slice", s0, st, L)


@contract
class LowerBasicIndex(Contract):
    name = "lower.basic_index"
    functions = (f"{LOWER}:ToIndexLambdaMixin.map_basic_index",
                 f"{LOWER}:ToIndexLambdaMixin.rec_idx_tuple",
                 "pytato.array:Array.__getitem__", "pytato.utils:_index_into",
                 "pytato.array:BasicIndex.shape",
                 "pytato.utils:normalized_slice_does_not_change_axis",
                 "pytato.utils:get_shape_after_broadcasting")
    properties = ("C02", "C11", "C01", "C03")
    notes = ("_normalize_slice/_normalized_slice_len used through their "
             "contracts (modular)",)

    def instances(self, tier):
        out = []
        kinds = basic_kinds(tier)
        for r in (1, 2):
            for combo in itertools.product(kinds, repeat=r):
                out.append(dict(label="idx=" + "/".join(combo),
                                kinds=list(combo)))
        if tier == "thorough":
            for combo in itertools.product(["int", "s111", "s000"], repeat=3):
                out.append(dict(label="idx=" + "/".join(combo),
                                kinds=list(combo)))
        # fewer indices than axes (implicit trailing full slices), ellipsis
        out.append(dict(label="idx=int,rank=2", kinds=["int"], rank=2))
        out.append(dict(label="idx=s111,rank=3", kinds=["s111"], rank=3))
        out.append(dict(label="idx=.../int,rank=2", kinds=["int"], rank=2,
                        ellipsis="front"))
        out.append(dict(label="idx=s111/...,rank=3", kinds=["s111"], rank=3,
                        ellipsis="back"))
        return out

    def canaries(self, tier):
        return [(dict(label="idx=int/s111", kinds=["int", "s111"]),
                 "no-negative-wrap", "lower.basic_index.value"),
                (dict(label="idx=int/s111", kinds=["int", "s111"]), "tight-bounds",
                 "lower.basic_index.in-bounds", ("C11",))]

    def run(self, h, inst):
        kinds = inst["kinds"]
        r = inst.get("rank", len(kinds))
        install_slice_contracts(h)
        a = mk_placeholder(h, "a", r)
        idx, descr = build_index(h, kinds)
        full_descr = list(descr)
        ell = inst.get("ellipsis")
        nfill = r - len(kinds)
        fill = [("slice", (None, None, None))] * nfill
        if ell == "front":
            idx = (..., *idx)
            full_descr = fill + full_descr
        elif ell == "back":
            idx = (*idx, ...)
            full_descr = full_descr + fill
        else:
            full_descr = full_descr + fill
        try:
            node = h.interp.subscript(a, idx)
        except EngineSignal:
            raise
        except (IndexError, ValueError):
            return      # rejection is C03's business (contracts/c03_shapes)
        except Exception as e:  # noqa: BLE001
            h.fail("lower.basic_index.constructor-exception",
                   f"{type(e).__name__}: {e}", props=("C03",))
            return
        if not isinstance(node, BasicIndex):
            h.fail("lower.basic_index.kind", type(node).__name__)
            return
        node = decorate(node)
        arrays = ArrayModel()
        ns = [shape_term(x) for x in a.shape]
        specs = [axis_spec(full_descr[p], ns[p]) for p in range(r)]
        # accepted => NumPy accepts (int indices within [-n, n))
        for p, dsc in enumerate(full_descr):
            if dsc[0] == "int":
                k = z_of(dsc[1])
                h.oblige(f"lower.basic_index.accepted-int-in-range[{p}]",
                         z3.And(k >= -ns[p], k < ns[p]), props=("C03", "C02"))
        il = lower(h, node, "lower.basic_index")
        if il is None:
            return
        wrap = h.canary != "no-negative-wrap"

        def spec(iv):
            j, o = [], 0
            for p in range(r):
                sp = specs[p]
                if sp[0] == "int":
                    j.append(sp[1] if wrap else z_of(full_descr[p][1]))
                else:
                    j.append(sp[1] + sp[2] * iv[o])
                    o += 1
            return A(arrays, a, j)

        spec_shape = [sp[3] for sp in specs if sp[0] == "slice"]
        check_index_lambda(h, il, node, spec, arrays,
                           clause_prefix="lower.basic_index",
                           spec_shape=spec_shape)

    def replay(self, inst, clause, model, info):
        return REPLAY_HEADER + f"""
from pyvc.replaylib import reproduced
kinds = {inst['kinds']!r}
r = {inst.get('rank', len(inst['kinds']))}
ell = {inst.get('ellipsis')!r}
shape = tuple(max(0, mint(M, f"a_n{{d}}", 3)) for d in range(r))
idx = []
for d, kd in enumerate(kinds):
    if kd == "int":
        idx.append(mint(M, f"k{{d}}", 0))
    else:
        pat = [int(c) for c in kd[1:]]
        idx.append(slice(mint(M, f"s{{d}}_start", 0) if pat[0] else None,
                         mint(M, f"s{{d}}_stop", 0) if pat[1] else None,
                         mint(M, f"s{{d}}_step", 1) if pat[2] else None))
if ell == "front": idx = [Ellipsis, *idx]
if ell == "back": idx = [*idx, Ellipsis]
idx = tuple(idx)
a = pt.make_placeholder("a", shape, np.float64)
data = {{"a": rnd(shape)}}
try:
    expect = data["a"][idx]
except (IndexError, ValueError) as e:
    expect = e
try:
    node = a[idx]
except (IndexError, ValueError) as e:
    node = e
if isinstance(expect, Exception):
    if not isinstance(node, Exception):
        reproduced(f"numpy rejects a{{list(shape)}}[{{idx}}] ({{expect}}), pytato accepts")
    print("not reproduced: both reject"); sys.exit(0)
if isinstance(node, Exception):
    print("not reproduced: pytato over-rejects (allowed)", node); sys.exit(0)
compare(node, data, expect)
"""

# }}}


# {{{ advanced indexing

def adv_patterns(n_arrays, tier):
    """Right-aligned shape patterns of the index arrays: list of tuples of
    'B' (shares the broadcast length of that position) / '1'."""
    one = [(), ("B",), ("B", "B")]
    if n_arrays == 1:
        return [[p] for p in one]
    if n_arrays == 2:
        out = [[("B",), ("B",)], [("B",), ("1",)], [("1",), ("B",)],
               [("B", "B"), ("B",)], [("B", "1"), ("B",)], [(), ("B",)]]
        if tier == "thorough":
            out += [[("B", "B"), ("1", "B")], [("1", "B"), ("B", "1")],
                    [("B", "B"), ()], [(), ()]]
        return out
    return [[("B",)] * n_arrays, [("B",), ("1",), ("B", "B")][:n_arrays]]


def adv_instances(tier, want_contiguous):
    out = []
    kinds = ["int", "s111", "arr"] if tier != "thorough" else \
        ["int", "s111", "s000", "arr", "arrnn"]
    combos = [c for r in (1, 2, 3) for c in itertools.product(kinds, repeat=r)]
    # rank 4: advanced indices *preceded by a slice* (the only way to have a
    # slice in front of non-adjacent advanced indices), and friends
    # (full slices in the quick tier; in the thorough tier one of the two
    # slices is fully symbolic, the other full, in both assignments -- the
    # lowering treats the axes independently, and two fully symbolic slices
    # square the number of paths: 870 paths / 15 000 obligations for one
    # instance, which no longer finished reliably once truncated paths kept
    # their alternatives, see DESIGN 12.2)
    T = [("S", "arr", "S", "arr"), ("S", "int", "S", "arr"),
         ("S", "arr", "S", "int"), ("S", "arr", "arr", "S"),
         ("S", "S", "arr", "arr"), ("arr", "S", "S", "arr")]
    for t in T:
        if tier != "thorough":
            combos.append(tuple("s000" if c == "S" else c for c in t))
            continue
        pos = [i for i, c in enumerate(t) if c == "S"]
        for full in pos:
            combos.append(tuple(
                ("s000" if i == full else "s111") if c == "S" else c
                for i, c in enumerate(t)))
    if tier != "thorough":
        # index arrays with and without the AssumeNonNegative promise in one
        # index expression (the thorough tier has every mixture)
        combos += [("arr", "arrnn"), ("arrnn", "arr"), ("arrnn", "arrnn"),
                   ("arrnn", "s111", "arr"), ("arr", "s111", "arrnn")]
    for combo in combos:
        if True:
            narr = sum(1 for c in combo if c.startswith("arr"))
            if narr == 0:
                continue
            adv = [i for i, c in enumerate(combo) if not c.startswith("s")]
            contiguous = adv == list(range(adv[0], adv[-1] + 1))
            if contiguous != want_contiguous:
                continue
            if tier != "thorough" and len(combo) < 4 and sum(
                    1 for c in combo if c.startswith("s")) > 1:
                continue    # two slices + arrays: thorough tier only
            for pats in adv_patterns(narr, tier):
                lab = "idx=" + "/".join(combo) + ";arrs=" + "|".join(
                    "".join(p) or "0d" for p in pats)
                out.append(dict(label=lab, kinds=list(combo),
                                pats=[list(p) for p in pats]))
    return out


def run_adv(self, h, inst, cls, prefix):
    from pytato.tags import AssumeNonNegative
    kinds, pats = inst["kinds"], inst["pats"]
    r = len(kinds)
    install_slice_contracts(h)
    a = mk_placeholder(h, "a", r)
    m = max((len(p) for p in pats), default=0)
    B = [h.nonneg(f"B{d}") for d in range(m)]
    idx, descr, arrs = [], [], []
    for d, kd in enumerate(kinds):
        if kd.startswith("arr"):
            pat = pats[len(arrs)]
            off = m - len(pat)
            shp = [B[off + t] if c == "B" else 1 for t, c in enumerate(pat)]
            x = mk_placeholder(h, f"x{d}", shape=shp, dtype=np.int64)
            if kd == "arrnn":
                x = x.tagged(AssumeNonNegative())
            arrs.append((d, x, pat))
            idx.append(x)
            descr.append(("arr", x, pat, kd == "arrnn"))
        else:
            (i1,), (d1,) = build_index_one(h, d, kd)
            idx.append(i1)
            descr.append(d1)
    try:
        node = h.interp.subscript(a, tuple(idx))
    except EngineSignal:
        raise
    except (IndexError, ValueError):
        return
    except Exception as e:  # noqa: BLE001
        h.fail(f"{prefix}.constructor-exception", f"{type(e).__name__}: {e}",
               props=("C03",))
        return
    if not isinstance(node, cls):
        h.fail(f"{prefix}.kind", f"expected {cls.__name__}, got "
               f"{type(node).__name__}", props=("C02", "C03"))
        return
    node = decorate(node)
    arrays = ArrayModel()
    ns = [shape_term(x) for x in a.shape]
    # broadcast shape of the index arrays (NumPy): per right-aligned position
    bshape = []
    for t in range(m):
        uses = [p[t - (m - len(p))] for p in pats if t - (m - len(p)) >= 0]
        bshape.append(shape_term(B[t]) if "B" in uses else z3.IntVal(1))
    adv_pos = [p for p, dsc in enumerate(descr) if dsc[0] != "slice"]
    contiguous = adv_pos == list(range(adv_pos[0], adv_pos[-1] + 1))
    slice_specs = {p: axis_spec(descr[p], ns[p]) for p in range(r)
                   if descr[p][0] == "slice"}
    pre = [p for p in slice_specs if p < adv_pos[0]]
    post = [p for p in slice_specs if p > adv_pos[-1]]
    if contiguous:
        out_axes = [("s", p) for p in pre] + [("b", t) for t in range(m)] + \
            [("s", p) for p in post]
    else:
        out_axes = [("b", t) for t in range(m)] + \
            [("s", p) for p in sorted(slice_specs)]
    spec_shape = [slice_specs[x][3] if k == "s" else bshape[x]
                  for k, x in out_axes]
    for p, dsc in enumerate(descr):
        if dsc[0] == "int":
            k = z_of(dsc[1])
            h.oblige(f"{prefix}.accepted-int-in-range[{p}]",
                     z3.And(k >= -ns[p], k < ns[p]), props=("C03", "C02"))
    il = lower(h, node, prefix)
    if il is None:
        return
    pos_of = {ax: o for o, ax in enumerate(out_axes)}

    def entry(iv, p):
        _, x, pat, _nn = descr[p]
        off = m - len(pat)
        bidx = [iv[pos_of[("b", off + t)]] if c == "B" else z3.IntVal(0)
                for t, c in enumerate(pat)]
        return A(arrays, x, bidx)

    def premise(iv):
        cs = []
        for p in adv_pos:
            if descr[p][0] == "arr":
                v = entry(iv, p)
                lo = z3.IntVal(0) if descr[p][3] else -ns[p]
                cs.append(z3.And(lo <= v, v < ns[p]))
        return z3.And(cs)

    swap = h.canary == "swap-first-two-out-axes" and len(out_axes) >= 2

    def spec(iv):
        if swap:
            iv = [iv[1], iv[0], *iv[2:]]
        j = []
        for p in range(r):
            dsc = descr[p]
            if dsc[0] == "int":
                k = z_of(dsc[1])
                j.append(k + z3.If(k < 0, ns[p], z3.IntVal(0)))
            elif dsc[0] == "slice":
                sp = slice_specs[p]
                j.append(sp[1] + sp[2] * iv[pos_of[("s", p)]])
            else:
                v = entry(iv, p)
                j.append(v + z3.If(v < 0, ns[p], z3.IntVal(0)))
        return A(arrays, a, j)

    check_index_lambda(h, il, node, spec, arrays, clause_prefix=prefix,
                       spec_shape=spec_shape, premise=premise)


def build_index_one(h, d, kd):
    if kd == "int":
        k = h.int(f"k{d}")
        return (k,), (("int", k),)
    pat = [int(c) for c in kd[1:]]
    start, stop, step = _sym_slice(h, pat, prefix=f"s{d}")
    return (slice(start, stop, step),), (("slice", (start, stop, step)),)


ADV_REPLAY = """
from pyvc.replaylib import reproduced
kinds = {kinds!r}
pats = {pats!r}
r = len(kinds)
shape = tuple(max(1, mint(M, f"a_n{{d}}", 3)) for d in range(r))
m = max((len(p) for p in pats), default=0)
B = [max(0, mint(M, f"B{{d}}", 2)) for d in range(m)]
a = pt.make_placeholder("a", shape, np.float64)
data = {{"a": rnd(shape)}}
idx_pt, idx_np, na = [], [], 0
rng = np.random.default_rng(5)
for d, kd in enumerate(kinds):
    if kd.startswith("arr"):
        pat = pats[na]; na += 1
        off = m - len(pat)
        shp = tuple(B[off + t] if c == "B" else 1 for t, c in enumerate(pat))
        lo = 0 if kd == "arrnn" else -shape[d]
        vals = rng.integers(lo, shape[d], size=shp)
        x = pt.make_placeholder(f"x{{d}}", shp, np.int64)
        if kd == "arrnn":
            from pytato.tags import AssumeNonNegative
            x = x.tagged(AssumeNonNegative())
        data[f"x{{d}}"] = vals
        idx_pt.append(x); idx_np.append(vals)
    elif kd == "int":
        k = mint(M, f"k{{d}}", 0); idx_pt.append(k); idx_np.append(k)
    else:
        pat = [int(c) for c in kd[1:]]
        sl = slice(mint(M, f"s{{d}}_start", 0) if pat[0] else None,
                   mint(M, f"s{{d}}_stop", 0) if pat[1] else None,
                   mint(M, f"s{{d}}_step", 1) if pat[2] else None)
        idx_pt.append(sl); idx_np.append(sl)
try:
    expect = data["a"][tuple(idx_np)]
except (IndexError, ValueError) as e:
    expect = e
try:
    node = a[tuple(idx_pt)]
except (IndexError, ValueError) as e:
    node = e
if isinstance(expect, Exception):
    if not isinstance(node, Exception):
        reproduced(f"numpy rejects ({{expect}}), pytato accepts")
    print("not reproduced: both reject"); sys.exit(0)
if isinstance(node, Exception):
    print("not reproduced: pytato over-rejects (allowed)", node); sys.exit(0)
compare(node, data, expect)
"""


@contract
class LowerContiguousAdvancedIndex(Contract):
    name = "lower.contiguous_advanced_index"
    functions = (f"{LOWER}:ToIndexLambdaMixin.map_contiguous_advanced_index",
                 "pytato.utils:_index_into",
                 "pytato.array:AdvancedIndexInContiguousAxes.shape",
                 "pytato.utils:get_indexing_expression",
                 "pytato.utils:get_shape_after_broadcasting",
                 "pytato.utils:partition")
    properties = ("C02", "C11", "C01", "C03")
    max_paths = 6000

    def instances(self, tier):
        return adv_instances(tier, True)

    def canaries(self, tier):
        return [(dict(label="idx=s111/arr;arrs=B", kinds=["s111", "arr"],
                      pats=[["B"]]), "swap-first-two-out-axes",
                 "lower.contiguous_advanced_index.value"),
                (dict(label="idx=s111/arr;arrs=B", kinds=["s111", "arr"],
                      pats=[["B"]]), "tight-bounds",
                 "lower.contiguous_advanced_index.in-bounds", ("C11",))]

    def run(self, h, inst):
        run_adv(self, h, inst, AdvancedIndexInContiguousAxes,
                "lower.contiguous_advanced_index")

    def replay(self, inst, clause, model, info):
        return REPLAY_HEADER + ADV_REPLAY.format(kinds=inst["kinds"],
                                                 pats=inst["pats"])


@contract
class LowerNonContiguousAdvancedIndex(Contract):
    name = "lower.non_contiguous_advanced_index"
    functions = (
        f"{LOWER}:ToIndexLambdaMixin.map_non_contiguous_advanced_index",
        "pytato.utils:_index_into",
        "pytato.array:AdvancedIndexInNoncontiguousAxes.shape")
    properties = ("C02", "C11", "C01", "C03")
    max_paths = 6000

    def instances(self, tier):
        return adv_instances(tier, False)

    def canaries(self, tier):
        return [(dict(label="idx=arr/s111/arr;arrs=B|B",
                      kinds=["arr", "s111", "arr"], pats=[["B"], ["B"]]),
                 "swap-first-two-out-axes",
                 "lower.non_contiguous_advanced_index.value"),
                (dict(label="idx=arr/s111/arr;arrs=B|B",
                      kinds=["arr", "s111", "arr"], pats=[["B"], ["B"]]), "tight-bounds",
                 "lower.non_contiguous_advanced_index.in-bounds", ("C11",))]

    def run(self, h, inst):
        run_adv(self, h, inst, AdvancedIndexInNoncontiguousAxes,
                "lower.non_contiguous_advanced_index")

    def replay(self, inst, clause, model, info):
        return REPLAY_HEADER + ADV_REPLAY.format(kinds=inst["kinds"],
                                                 pats=inst["pats"])

# }}}


# {{{ reshape

def _shapes(max_rank, max_len):
    for r in range(max_rank + 1):
        yield from itertools.product(range(max_len + 1), repeat=r)


def reshape_pairs(max_rank, max_len):
    by_size = {}
    for s in _shapes(max_rank, max_len):
        by_size.setdefault(int(np.prod(s, dtype=np.int64)) if s else 1,
                           []).append(s)
    for _size, lst in sorted(by_size.items()):
        for old in lst:
            for new in lst:
                yield old, new


@contract
class LowerReshape(Contract):
    name = "lower.reshape"
    functions = (f"{LOWER}:ToIndexLambdaMixin.map_reshape",
                 f"{LOWER}:_get_reshaped_indices",
                 f"{LOWER}:_generate_index_expressions",
                 "pytato.array:reshape", "pytato.array:Reshape.shape")
    properties = ("C02", "C11", "C01")
    notes = ("bounded in shape: every (old, new) pair of concrete shapes in "
             "the stated range, both orders; indices symbolic",)

    def instances(self, tier):
        # one task = one old shape (all matching new shapes, both orders)
        mr, ml = (3, 3) if tier != "thorough" else (4, 4)
        groups = {}
        for old, new in reshape_pairs(mr, ml):
            groups.setdefault(old, []).append(new)
        out = []
        for old, news in groups.items():
            # the size-0 class is large and uniform: cap it in quick
            if tier != "thorough" and 0 in old and len(news) > 12:
                news = news[::max(1, len(news) // 12)]
            out.append(dict(label=f"old={list(old)}", old=list(old),
                            news=[list(n) for n in news]))
        return out

    def canaries(self, tier):
        return [(dict(label="old=[2, 3]", old=[2, 3], news=[[3, 2]]),
                 "wrong-order", "lower.reshape["),
                (dict(label="old=[2, 3]", old=[2, 3], news=[[3, 2]]), "tight-bounds",
                 "lower.reshape[", ("C11",))]

    def run(self, h, inst):
        old = tuple(inst["old"])
        for new in inst["news"]:
            for order in ("C", "F"):
                self.one(h, old, tuple(new), order)

    def one(self, h, old, new, order):
        a = mk_placeholder(h, "a", shape=old)
        node = h.call(pt.reshape, a, new, order)
        if not isinstance(node, Reshape):
            h.fail("lower.reshape.kind", type(node).__name__)
            return
        node = decorate(node)
        arrays = ArrayModel()
        prefix = f"lower.reshape[{list(old)}->{list(new)},{order}]"
        il = lower(h, node, prefix)
        if il is None:
            return
        sorder = order
        if h.canary == "wrong-order":
            sorder = "F" if order == "C" else "C"

        def strides(shape):
            st = [1] * len(shape)
            if sorder == "C":
                for d in range(len(shape) - 2, -1, -1):
                    st[d] = st[d + 1] * shape[d + 1]
            else:
                for d in range(1, len(shape)):
                    st[d] = st[d - 1] * shape[d - 1]
            return st

        def spec(iv):
            ns, os_ = strides(new), strides(old)
            lin = z3.Sum([iv[d] * ns[d] for d in range(len(new))]) \
                if new else z3.IntVal(0)
            j = [(lin / os_[e]) % old[e] if old[e] > 0 else z3.IntVal(0)
                 for e in range(len(old))]
            return A(arrays, a, j)

        check_index_lambda(h, il, node, spec, arrays, clause_prefix=prefix,
                           spec_shape=list(new))

    def replay(self, inst, clause, model, info):
        import re
        m = re.search(r"\[(\[.*?\])->(\[.*?\]),([CF])\]", clause)
        if not m:
            return None
        return REPLAY_HEADER + f"""
old, new, order = tuple({m.group(1)}), tuple({m.group(2)}), {m.group(3)!r}
a = pt.make_placeholder("a", old, np.float64)
data = {{"a": rnd(old)}}
node = pt.reshape(a, new, order)
compare(node, data, np.reshape(data["a"], new, order=order))
"""

# }}}


# {{{ einsum

def einsum_specs(tier):
    letters = "ij" if tier != "thorough" else "ijk"
    maxrank = 2 if tier != "thorough" else 3
    ops = [""]
    for r in range(1, maxrank + 1):
        ops += ["".join(p) for p in itertools.product(letters, repeat=r)]
    out = []
    for k in (1, 2):
        for combo in itertools.product(ops, repeat=k):
            if tier == "thorough" and k == 2 and \
                    len(combo[0]) + len(combo[1]) > 4:
                continue
            used = sorted(set("".join(combo)))
            for m in range(len(used) + 1):
                for o in itertools.permutations(used, m):
                    out.append((list(combo), "".join(o)))
    for s in ["im,mj,km->ijk", "ij,j,j->i", "i,i,i->", "ij,jk,kl->il",
              "ij,ij,ij->ji", "i,j,k->kji"]:
        ins, o = s.split("->")
        out.append((ins.split(","), o))
    return out


@contract
class LowerEinsum(Contract):
    name = "lower.einsum"
    functions = (f"{LOWER}:ToIndexLambdaMixin.map_einsum",
                 "pytato.array:einsum",
                 "pytato.array:_normalize_einsum_out_subscript",
                 "pytato.array:_normalize_einsum_in_subscript",
                 "pytato.array:_get_einsum_access_descr_to_axis_len",
                 "pytato.array:Einsum.shape",
                 "pytato.utils:are_shape_components_equal")
    properties = ("C02", "C11", "C01", "C03")

    def instances(self, tier):
        out = []
        for ins, o in einsum_specs(tier):
            lab = ",".join(ins) + "->" + o
            out.append(dict(label=lab, ins=ins, out=o, unit=[]))
            # broadcast-unit variants: one operand axis is literally 1 while
            # the same letter occurs elsewhere
            if len(ins) >= 2:
                for k, sp in enumerate(ins):
                    for ax, ch in enumerate(sp):
                        elsewhere = sum(s.count(ch) for s in ins) - 1
                        if elsewhere >= 1 and (tier == "thorough"
                                               or (k, ax) == (0, 0)):
                            out.append(dict(label=lab + f";unit={k}.{ax}",
                                            ins=ins, out=o, unit=[[k, ax]]))
        return out

    def canaries(self, tier):
        return [(dict(label="ij,j->i", ins=["ij", "j"], out="i", unit=[]),
                 "transposed-operand", "lower.einsum.value"),
                (dict(label="ij,j->i", ins=["ij", "j"], out="i", unit=[]), "tight-bounds",
                 "lower.einsum.in-bounds", ("C11",))]

    def run(self, h, inst):
        from pytato.reductions import SumReductionOperation
        ins, o, unit = inst["ins"], inst["out"], {tuple(u) for u in inst["unit"]}
        letters = sorted(set("".join(ins)))
        n = {ch: dim(h, f"n_{ch}") for ch in letters}
        ops = []
        for k, sp in enumerate(ins):
            shp = [1 if (k, ax) in unit else n[ch] for ax, ch in enumerate(sp)]
            ops.append(mk_placeholder(h, f"a{k}", shape=shp))
        # NumPy broadcasts a length-1 axis against the same letter in *other*
        # operands; a letter repeated within one operand (a diagonal) needs
        # equal lengths there, 1 included
        np_ok = z3.And([shape_term(n[ch]) == 1
                        for (k, ax) in sorted(unit)
                        for ax2, ch in enumerate(ins[k])
                        if ch == ins[k][ax] and (k, ax2) not in unit]
                       + [z3.BoolVal(True)])
        try:
            node = h.call(pt.einsum, ",".join(ins) + "->" + o, *ops)
        except EngineSignal:
            raise
        except ValueError as e:
            rej = z3.Not(np_ok)
            if getattr(h, "dim_mode", None) == "param":
                # lengths are expressions in size parameters (C16): equal
                # means equal for *all* parameter values, so a rejection is
                # right as soon as NumPy rejects for *some* valuation
                from z3.z3util import get_vars
                ps = [v for v in get_vars(np_ok)
                      if v.decl().name().startswith("sp_")]
                if ps:
                    rej = z3.Exists(ps, z3.And([p_ >= 0 for p_ in ps]
                                               + [z3.Not(np_ok)]))
            h.oblige("lower.einsum.rejected=>numpy-rejects", rej,
                     props=("C03", "C02"), info=f"{type(e).__name__}: {e}")
            return
        except Exception as e:  # noqa: BLE001
            h.fail("lower.einsum.constructor-exception",
                   f"{type(e).__name__}: {e}", props=("C03", "C02"))
            return
        h.oblige("lower.einsum.accepted=>numpy-accepts", np_ok,
                 props=("C03",))
        h.assume(np_ok)
        node = decorate(node)
        arrays = ArrayModel()
        il = lower(h, node, "lower.einsum")
        if il is None:
            return
        # length of a letter: its non-literal-1 occurrences share n[ch]
        def letter_len(ch):
            occ = [(k, ax) for k, sp in enumerate(ins)
                   for ax, c in enumerate(sp) if c == ch]
            if all(x in unit for x in occ):
                return z3.IntVal(1)
            return shape_term(n[ch])

        redn = [ch for ch in letters if ch not in o]

        def spec(iv):
            var = {ch: iv[o.index(ch)] for ch in o}
            rvars = {ch: z3.Int(f"r_{ch}") for ch in redn}
            var.update(rvars)
            body = None
            for k, sp in enumerate(ins):
                idx = [z3.IntVal(0) if (k, ax) in unit else var[ch]
                       for ax, ch in enumerate(sp)]
                if h.canary == "transposed-operand" and len(idx) == 2:
                    idx = idx[::-1]
                t = A(arrays, ops[k], idx)
                body = t if body is None else body * t
            if not redn:
                return body
            return Reduction(SumReductionOperation(),
                             [(ch, z3.IntVal(0), letter_len(ch))
                              for ch in redn], body, rvars)

        check_index_lambda(h, il, node, spec, arrays,
                           clause_prefix="lower.einsum",
                           spec_shape=[letter_len(ch) for ch in o])

    def replay(self, inst, clause, model, info):
        return REPLAY_HEADER + f"""
ins, o, unit = {inst['ins']!r}, {inst['out']!r}, {{tuple(u) for u in {inst['unit']!r}}}
n = {{ch: max(0, mint(M, f"n_{{ch}}", 2)) for ch in set("".join(ins))}}
ops, data, vals = [], {{}}, []
for k, sp in enumerate(ins):
    shp = tuple(1 if (k, ax) in unit else n[ch] for ax, ch in enumerate(sp))
    ops.append(pt.make_placeholder(f"a{{k}}", shp, np.float64))
    data[f"a{{k}}"] = rnd(shp, seed=k)
    vals.append(data[f"a{{k}}"])
spec = ",".join(ins) + "->" + o
try:
    expect = np.einsum(spec, *vals)
except ValueError as e_np:
    expect = e_np
try:
    node = pt.einsum(spec, *ops)
except ValueError as e_pt:
    if isinstance(expect, ValueError):
        not_reproduced(f"both reject: NumPy '{{expect}}', pytato '{{e_pt}}'")
    reproduced(f"pt.einsum({{spec!r}}) rejects operand shapes "
               f"{{[v.shape for v in vals]}} which NumPy accepts: {{e_pt}}")
if isinstance(expect, ValueError):
    reproduced(f"pt.einsum({{spec!r}}) accepts operand shapes "
               f"{{[v.shape for v in vals]}} (result shape {{node.shape}}) which "
               f"NumPy rejects: {{expect}}")
compare(node, data, expect, exact=False)
"""

# }}}


# {{{ CSR matmul

@contract
class LowerCSRMatmul(Contract):
    name = "lower.csr_matmul"
    functions = (f"{LOWER}:ToIndexLambdaMixin.map_csr_matmul",
                 "pytato.array:sparse_matmul", "pytato.array:make_csr_matrix",
                 "pytato.array:SparseMatmul._get_shape")
    properties = ("C02", "C11", "C01")

    def instances(self, tier):
        return [dict(label=f"dense-rank={r}", rank=r) for r in ranks(tier, 1)]

    def canaries(self, tier):
        return [(dict(label="dense-rank=2", rank=2), "row-bound-off-by-one",
                 "lower.csr_matmul.value"),
                (dict(label="dense-rank=2", rank=2), "tight-bounds",
                 "lower.csr_matmul.in-bounds", ("C11",))]

    def run(self, h, inst):
        from pytato.reductions import SumReductionOperation
        r = inst["rank"]
        nrows, ncols, nnz = h.nonneg("nrows"), h.nonneg("ncols"), \
            h.nonneg("nnz")
        rest = [h.nonneg(f"m{d}") for d in range(r - 1)]
        vals = mk_placeholder(h, "vals", shape=[nnz])
        cols = mk_placeholder(h, "cols", shape=[nnz], dtype=np.int32)
        rs = mk_placeholder(h, "rs", shape=[nrows + 1], dtype=np.int32)
        x = mk_placeholder(h, "x", shape=[ncols, *rest])
        try:
            mat = h.call(pt.make_csr_matrix, (nrows, ncols), vals, cols, rs)
            node = h.call(pt.sparse_matmul, mat, x)
        except EngineSignal:
            raise
        except Exception as e:  # noqa: BLE001
            h.fail("lower.csr_matmul.constructor-exception",
                   f"{type(e).__name__}: {e}", props=("C03", "C02"))
            return
        node = decorate(node)
        arrays = ArrayModel()
        il = lower(h, node, "lower.csr_matmul")
        if il is None:
            return
        off = 1 if h.canary == "row-bound-off-by-one" else 0

        def spec(iv):
            rv = z3.Int("r_row")
            body = A(arrays, vals, [rv]) * A(
                arrays, x, [A(arrays, cols, [rv]), *iv[1:]])
            return Reduction(SumReductionOperation(),
                             [("r", A(arrays, rs, [iv[0]]),
                               A(arrays, rs, [iv[0] + 1]) + off)],
                             body, {"r": rv})

        check_index_lambda(
            h, il, node, spec, arrays, clause_prefix="lower.csr_matmul",
            spec_shape=[shape_term(nrows), *[shape_term(m) for m in rest]])

    def replay(self, inst, clause, model, info):
        return REPLAY_HEADER + f"""
r = {inst['rank']}
nrows, ncols = max(1, mint(M, "nrows", 3)), max(1, mint(M, "ncols", 4))
rest = tuple(max(0, mint(M, f"m{{d}}", 2)) for d in range(r - 1))
dense = (np.arange(nrows * ncols).reshape(nrows, ncols) % 3 == 0) * \\
    rnd((nrows, ncols))
class m:   # CSR parts of *dense*, by definition (scipy is not installed)
    data = np.array([dense[i, j] for i in range(nrows) for j in range(ncols)
                     if dense[i, j] != 0], dtype=np.float64)
    indices = np.array([j for i in range(nrows) for j in range(ncols)
                        if dense[i, j] != 0], dtype=np.int32)
    indptr = np.array([0] + [int(np.count_nonzero(dense[:i + 1]))
                             for i in range(nrows)], dtype=np.int32)
vals = pt.make_placeholder("vals", m.data.shape, np.float64)
cols = pt.make_placeholder("cols", m.indices.shape, np.int32)
rs = pt.make_placeholder("rs", m.indptr.shape, np.int32)
x = pt.make_placeholder("x", (ncols, *rest), np.float64)
data = dict(vals=m.data, cols=m.indices, rs=m.indptr, x=rnd((ncols, *rest), seed=3))
node = pt.sparse_matmul(pt.make_csr_matrix((nrows, ncols), vals, cols, rs), x)
compare(node, data, np.tensordot(dense, data["x"], axes=(1, 0)), exact=False)
"""

# }}}
