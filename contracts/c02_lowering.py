"""C02 / C11 -- lowering to IndexLambda preserves meaning; accesses in bounds.

Each contract builds the node through the *public constructor* (interpreted
from source, so exactly the user-reachable nodes are covered -- that is the
validity predicate), lowers it with the real ``to_index_lambda`` and states
NumPy's definition of the operation as the postcondition.
"""
from __future__ import annotations

import itertools

import numpy as np
import z3

import pytato as pt
from pytato.array import (AdvancedIndexInContiguousAxes,
                          AdvancedIndexInNoncontiguousAxes, Array,
                          AxisPermutation, BasicIndex, Concatenate, Einsum,
                          IndexLambda, Reshape, Roll, Stack)
from pytato.transform.lower_to_index_lambda import to_index_lambda

from pyvc.core import Contract, contract
from pyvc.den import ArrayModel, Reduction
from pyvc.ptlib import (VerifAxisTag, VerifTag, check_index_lambda,
                        mk_placeholder, shape_term)
from pyvc.sym import EngineSignal, py_floordiv, py_mod, z_of

LOWER = "pytato.transform.lower_to_index_lambda"


def decorate(node):
    """Give the node distinguishable tags/axis tags (metadata must survive)."""
    node = node.tagged(VerifTag(7))
    if node.ndim:
        node = node.with_tagged_axis(node.ndim - 1, VerifAxisTag(3))
    return node


def lower(h, node, clause):
    h.interp.native_only  # noqa: B018
    h.assert_clause_props = ("C02", "C01")
    try:
        return h.call(to_index_lambda, node)
    except EngineSignal:
        raise
    except Exception as e:  # noqa: BLE001
        h.fail(f"{clause}.no-exception",
               f"{type(e).__name__}: {e}", props=("C02", "C01"))
        return None
    finally:
        h.assert_clause_props = None


def A(arrays, arr, idx):
    rank = len(idx)
    f = arrays.fn_for(arr, rank)
    return f if rank == 0 else f(*idx)


def ranks(tier, lo=1):
    return range(lo, 5 if tier == "thorough" else 4)


@contract
class LowerRoll(Contract):
    name = "lower.roll"
    functions = (f"{LOWER}:ToIndexLambdaMixin.map_roll", "pytato.array:roll",
                 f"{LOWER}:to_index_lambda",
                 "pytato.utils:dim_to_index_lambda_components")
    properties = ("C02", "C11", "C01")

    def instances(self, tier):
        return [dict(label=f"rank={r},axis={ax}", rank=r, axis=ax)
                for r in ranks(tier) for ax in range(r)]

    def canaries(self, tier):
        return [(dict(label="rank=2,axis=1", rank=2, axis=1), "wrong-sign",
                 "lower.roll.value")]

    def run(self, h, inst):
        r, ax = inst["rank"], inst["axis"]
        a = mk_placeholder(h, "a", r)
        shift = h.int("shift")
        node = h.call(pt.roll, a, shift, ax)
        if not isinstance(node, Roll):
            return
        node = decorate(node)
        arrays = ArrayModel()
        il = lower(h, node, "lower.roll")
        if il is None:
            return
        n = shape_term(a.shape[ax])
        sh = z_of(shift)
        if h.canary == "wrong-sign":
            sh = -sh

        def spec(iv):
            idx = [py_mod(iv[d] - sh, n) if d == ax else iv[d]
                   for d in range(r)]
            return A(arrays, a, idx)

        check_index_lambda(h, il, node, spec, arrays,
                           clause_prefix="lower.roll")

    def replay(self, inst, clause, model, info):
        return REPLAY_HEADER + f"""
r, ax = {inst['rank']}, {inst['axis']}
shape = tuple(max(0, mint(M, f"a_n{{d}}", 2)) for d in range(r))
shift = mint(M, "shift", 1)
a = pt.make_placeholder("a", shape, np.float64)
node = pt.roll(a, shift, ax)
data = {{"a": rnd(shape)}}
expect = np.roll(data["a"], shift, ax)
compare(node, data, expect)
"""


REPLAY_HEADER = """\
import sys
sys.path.insert(0, "/verif")
import numpy as np
import pytato as pt
from pyvc.replaylib import M_from, mint, rnd, compare
M = M_from(MODEL)
"""
