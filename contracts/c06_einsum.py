"""C06 -- algebraic einsum rewrites never change the computed value.

Value semantics: every array node denotes an element of an abstract module
V over the scalars; ``[[.]]`` is a congruence (a node's value is a function
of its kind, its non-array parameters and its children's values).  An einsum
with one operand slot left open is a function L_ctx : V -> V that is *linear*
(axioms: additive, subtractive, homogeneous for scalar multiples and scalar
quotients -- exact arithmetic).  Nothing else is assumed: in particular
``c / x``, products of arrays, powers and function applications are
uninterpreted, so L_ctx does not commute with them.

distribute.*   contract of ``rec(x, ctx)``:  [[result]] = L_ctx([[x]])
               (L_None = id).  Proved for every map_* of the mapper given the
               same for its recursive calls, for every binary operation the
               raiser can return x operand kind x position, and for every
               answer of the (uninterpreted) distribution policy.
cache-key.*    two contexts with different surrounding operands never share a
               cache key.
no-broadcast.* rewrite_einsums_with_no_broadcasts: the rewritten einsum has
               no broadcast axes and its lowering denotes the same pointwise
               function as the original's (decided through the verified
               lowering, contracts/c02_lowering.py).
"""
from __future__ import annotations

import operator

import numpy as np
import z3

import pytato as pt
from pytato.array import Array, Einsum, IndexLambda
from pytato.transform.einsum_distributive_law import (
    DoDistribute, DoNotDistribute, EinsumDistributiveLawMapper,
    _EinsumDistributiveLawMapperContext)

from contracts.c01_builders import lit
from pyvc import graphmodel as gm
from pyvc import mapperlib as ml
from pyvc.core import Contract, contract
from pyvc.sym import EngineSignal

V = z3.DeclareSort("V")
I = z3.IntSort()
ADD = z3.Function("v_add", V, V, V)
SUB = z3.Function("v_sub", V, V, V)
SMUL = z3.Function("v_smul", I, V, V)
SDIV = z3.Function("v_sdiv", V, I, V)
RDIV = z3.Function("v_rdiv", I, V, V)


class ValSem:
    """[[.]] for the nodes that occur in these contracts."""

    def __init__(self, h):
        self.h = h
        self.values: dict[int, object] = {}
        self.keep = []

    def set(self, node, term):
        self.values[id(node)] = term
        self.keep.append(node)

    def fn(self, name, args, out=V):
        f = z3.Function(name, *[a.sort() for a in args], out)
        return f(*args)

    def scalar(self, c):
        return lit(c.item() if isinstance(c, np.generic) else c)

    def val(self, node):
        from pytato.raising import (BinaryOp, BinaryOpType,
                                    UnknownIndexLambdaExpr,
                                    index_lambda_to_high_level_op)
        k = id(node)
        if k in self.values:
            return self.values[k]
        if isinstance(node, gm.OpaqueArray):
            t = z3.Const(node._label, V)
        elif isinstance(node, Einsum):
            t = self.einsum(node.access_descriptors,
                            [self.val(a) for a in node.args])
        elif isinstance(node, IndexLambda):
            try:
                hlo = index_lambda_to_high_level_op(node)
            except (UnknownIndexLambdaExpr, NotImplementedError):
                hlo = None
            t = None
            if isinstance(hlo, BinaryOp):
                x1, x2 = hlo.x1, hlo.x2
                a1, a2 = isinstance(x1, Array), isinstance(x2, Array)
                bt = hlo.binary_op
                same = a1 and a2 and len(x1.shape) == len(x2.shape) and all(
                    p is q or bool(p == q)
                    for p, q in zip(x1.shape, x2.shape, strict=True))
                if bt == BinaryOpType.ADD and same:
                    t = ADD(self.val(x1), self.val(x2))
                elif bt == BinaryOpType.SUB and same:
                    t = SUB(self.val(x1), self.val(x2))
                elif bt == BinaryOpType.MULT and a1 != a2:
                    c, x = (x2, x1) if a1 else (x1, x2)
                    t = SMUL(self.scalar(c), self.val(x))
                elif bt == BinaryOpType.TRUEDIV and a1 and not a2:
                    t = SDIV(self.val(x1), self.scalar(x2))
                elif bt == BinaryOpType.TRUEDIV and a2 and not a1:
                    t = RDIV(self.scalar(x1), self.val(x2))
                else:
                    args = [self.val(x) if isinstance(x, Array)
                            else self.scalar(x) for x in (x1, x2)]
                    t = self.fn(f"v_bin_{bt.name}_{int(a1)}{int(a2)}", args)
            if t is None:
                names = sorted(node.bindings)
                args = [self.val(node.bindings[n]) for n in names]
                t = self.fn(f"v_il_{abs(hash((node.expr, tuple(names))))}",
                            args) if args else z3.Const(
                    f"v_il_{abs(hash(node.expr))}", V)
        else:
            b = getattr(node, "_built", None)
            kids = [c for c in ml_children(node)]
            args = [self.val(c) for c in kids]
            t = self.fn(f"v_{type(node).__name__}_{len(args)}", args) \
                if args else z3.Const(f"v_{type(node).__name__}_{id(node)}", V)
            del b
        self.values[k] = t
        self.keep.append(node)
        return t

    def einsum(self, descrs, argvals):
        name = f"v_einsum_{abs(hash(descrs))}"
        return self.fn(name, argvals)


def ml_children(node):
    import dataclasses
    out = []
    for f in dataclasses.fields(node):
        v = getattr(node, f.name)
        if isinstance(v, Array):
            out.append(v)
        elif isinstance(v, tuple):
            out.extend(x for x in v if isinstance(x, Array))
        elif dataclasses.is_dataclass(v) and not isinstance(v, type) and \
                f.name in ("matrix", "send"):
            out.extend(ml_children(v))
    return out


def linearity_instances(L, terms):
    """Ground instances of the linearity axioms of L for every sum,
    difference, scalar multiple and scalar quotient among *terms* (closed
    under sub-terms).  Ground => the VC stays quantifier-free and a failed
    obligation comes with a model."""
    seen, out, stack = set(), [], list(terms)
    while stack:
        t = stack.pop()
        if t.get_id() in seen or not z3.is_app(t):
            continue
        seen.add(t.get_id())
        stack.extend(t.children())
        if t.sort() != V:
            continue
        name = t.decl().name()
        ch = t.children()
        if name == "v_add":
            out.append(L(t) == ADD(L(ch[0]), L(ch[1])))
        elif name == "v_sub":
            out.append(L(t) == SUB(L(ch[0]), L(ch[1])))
        elif name == "v_smul":
            out.append(L(t) == SMUL(ch[0], L(ch[1])))
        elif name == "v_sdiv":
            out.append(L(t) == SDIV(L(ch[0]), ch[1]))
    return out


def mk_ctx(h, sem, nargs=2, slot=1):
    """A context with opaque surrounding operands; returns (ctx, L)."""
    from constantdict import constantdict

    from pytato.array import EinsumElementwiseAxis, _get_default_axes
    descrs = tuple((EinsumElementwiseAxis(0),) for _ in range(nargs))
    sur = {i: gm.mk_opaque_array(f"sur{i}", "concrete", rank=1)
           for i in range(nargs) if i != slot}
    ctx = _EinsumDistributiveLawMapperContext(
        descrs, constantdict(sur), constantdict(),
        axes=_get_default_axes(1), tags=frozenset())

    def L(v):
        args = [sem.val(sur[i]) if i != slot else v for i in range(nargs)]
        return sem.einsum(descrs, args)
    L.linear = True
    return ctx, L


def stub_rec(h, mapper, sem, L_of):
    """rec(x, ctx) |-> fresh image with [[image]] = L_ctx([[x]])."""
    calls = []

    def rec(x, ctx):
        calls.append((x, ctx))
        img = gm.mk_opaque_array(
            f"rec({getattr(x, '_label', type(x).__name__)},"
            f"{'ctx' if ctx is not None else 'None'})#{len(calls)}",
            "concrete", shape=x.shape, dtype=x.dtype)
        sem.set(img, L_of(ctx)(sem.val(x)))
        return img
    mapper.rec = rec
    return calls


# operand forms of an index lambda whose operands are opaque arrays
def forms():
    F = {
        "x1+x2": lambda a, b: a + b, "x1-x2": lambda a, b: a - b,
        "x1*x2": lambda a, b: a * b, "x1/x2": lambda a, b: a / b,
        "c*x": lambda a, b: 3 * a, "x*c": lambda a, b: a * 2.5,
        "x/c": lambda a, b: a / 2.5, "c/x": lambda a, b: 2.5 / a,
        "x+c": lambda a, b: a + 3, "c-x": lambda a, b: 3 - a,
        "x**2": lambda a, b: a ** 2, "c**x": lambda a, b: 2 ** a,
        "x//c": lambda a, b: a // 2, "x%c": lambda a, b: a % 2,
        "sin(x)": lambda a, b: pt.sin(a), "-x": lambda a, b: -a,
        "x1<x2": lambda a, b: pt.less(a, b),
        "where": lambda a, b: pt.where(a, a, b),
        "x1+x2(bcast)": None,
    }
    return F


@contract
class DistributeIndexLambda(Contract):
    name = "einsum.distribute.index_lambda"
    functions = ("pytato.transform.einsum_distributive_law:"
                 "EinsumDistributiveLawMapper.map_index_lambda",
                 "pytato.transform.einsum_distributive_law:"
                 "_can_hlo_be_distributed",
                 "pytato.transform.einsum_distributive_law:"
                 "_wrap_einsum_from_ctx")
    properties = ("C06",)

    def instances(self, tier):
        return [dict(label=f"{f};ctx={c}", form=f, ctx=c)
                for f in forms() for c in (True, False)]

    def canaries(self, tier):
        return [(dict(label="x1*x2;ctx=True", form="x1*x2", ctx=True),
                 "assume-bilinear-distributes", "distribute.value")]

    def run(self, h, inst):
        sem = ValSem(h)
        mapper = EinsumDistributiveLawMapper(lambda e: DoNotDistribute())
        a = gm.mk_opaque_array("x1", "concrete", rank=1)
        if inst["form"] == "x1+x2(bcast)":
            b = gm.mk_opaque_array("x2", "concrete", shape=(1,))
            expr = a + b
        else:
            b = gm.mk_opaque_array("x2", "concrete", shape=a.shape)
            expr = forms()[inst["form"]](a, b)
        ctx, L = (mk_ctx(h, sem) if inst["ctx"] else (None, lambda v: v))
        calls = stub_rec(h, mapper, sem,
                         lambda c: (L if c is not None else (lambda v: v)))
        try:
            res = h.call(mapper.map_index_lambda, expr, ctx)
        except EngineSignal:
            raise
        except Exception as e:  # noqa: BLE001
            h.fail("distribute.no-exception", f"{type(e).__name__}: {e}")
            return
        want = L(sem.val(expr))
        if h.canary == "assume-bilinear-distributes":
            want = sem.fn("v_bin_MULT_11", [L(sem.val(a)), L(sem.val(b))])
        if getattr(L, "linear", False):
            for ax in linearity_instances(L, [sem.val(res), want,
                                              sem.val(expr)]):
                h.assume(ax)
        h.oblige("distribute.value", sem.val(res) == want,
                 info=f"{inst['form']}: {len(calls)} recursive call(s), "
                      f"{sum(1 for _, c in calls if c is not None)} with ctx")

    def replay(self, inst, clause, model, info):
        return DISTR_REPLAY.format(form=inst["form"])


DISTR_REPLAY = '''
import sys
sys.path.insert(0, "/verif")
import numpy as np, pytato as pt
from pyvc.replaylib import eval_array, reproduced
from pytato.transform.einsum_distributive_law import (DoDistribute, DoNotDistribute,
    apply_distributive_property_to_einsums)
form = {form!r}
A = pt.make_placeholder("A", (3, 4)); x1 = pt.make_placeholder("x1", (4,)); x2 = pt.make_placeholder("x2", (4,))
F = {{"x1+x2": lambda a, b: a + b, "x1-x2": lambda a, b: a - b, "x1*x2": lambda a, b: a * b,
     "x1/x2": lambda a, b: a / b, "c*x": lambda a, b: 3 * a, "x*c": lambda a, b: a * 2.5,
     "x/c": lambda a, b: a / 2.5, "c/x": lambda a, b: 2.5 / a, "x+c": lambda a, b: a + 3,
     "c-x": lambda a, b: 3 - a, "x**2": lambda a, b: a ** 2, "c**x": lambda a, b: 2 ** a,
     "sin(x)": lambda a, b: pt.sin(a), "-x": lambda a, b: -a}}
if form not in F:
    print("no executable input for this form"); sys.exit(2)
expr = pt.einsum("ij,j->i", A, F[form](x1, x2))
new = apply_distributive_property_to_einsums(expr, lambda e: DoDistribute(1))
rng = np.random.default_rng(0)
data = dict(A=rng.random((3, 4)) + 1, x1=rng.random(4) + 1, x2=rng.random(4) + 1)
before, after = eval_array(expr, data), eval_array(new, data)
if not np.allclose(before, after):
    reproduced(f"einsum('ij,j->i', A, {{form}}): before {{before}} after distribution {{after}}")
print("not reproduced"); sys.exit(0)
'''


@contract
class DistributeEinsum(Contract):
    name = "einsum.distribute.einsum"
    functions = ("pytato.transform.einsum_distributive_law:"
                 "EinsumDistributiveLawMapper.map_einsum",)
    properties = ("C06",)

    def instances(self, tier):
        out = []
        for n in (1, 2, 3):
            out.append(dict(label=f"nargs={n};DoNotDistribute;ctx=False",
                            n=n, pol=None, ctx=False))
            out.append(dict(label=f"nargs={n};DoNotDistribute;ctx=True",
                            n=n, pol=None, ctx=True))
            for i in range(n):
                out.append(dict(label=f"nargs={n};DoDistribute({i});ctx=False",
                                n=n, pol=i, ctx=False))
            out.append(dict(label=f"nargs={n};DoDistribute(0);ctx=True", n=n,
                            pol=0, ctx=True))
        return out

    def run(self, h, inst):
        sem = ValSem(h)
        n, pol = inst["n"], inst["pol"]
        b = ml.build_node(Einsum, "e", dict(n_children=n, rank=1))
        expr = b.obj
        mapper = EinsumDistributiveLawMapper(
            lambda e: DoDistribute(pol) if pol is not None
            else DoNotDistribute())
        ctx, L = (mk_ctx(h, sem) if inst["ctx"] else (None, lambda v: v))

        def L_of(c):
            if c is None:
                return lambda v: v
            if c is ctx:
                return L
            # a context created by map_einsum itself
            def Lc(v):
                args = [sem.val(c.surrounding_args[i])
                        if i in c.surrounding_args else v
                        for i in range(len(c.access_descriptors))]
                return sem.einsum(c.access_descriptors, args)
            return Lc
        stub_rec(h, mapper, sem, L_of)
        try:
            res = h.call(mapper.map_einsum, expr, ctx)
        except EngineSignal:
            raise
        except RuntimeError:
            # "Cannot distribute composed einsums": explicit refusal
            h.oblige("distribute.einsum.nested-refused",
                     z3.BoolVal(pol is not None and inst["ctx"]))
            return
        except Exception as e:  # noqa: BLE001
            h.fail("distribute.einsum.no-exception",
                   f"{type(e).__name__}: {e}")
            return
        if getattr(L, "linear", False):
            for ax in linearity_instances(L, [sem.val(res), sem.val(expr)]):
                h.assume(ax)
        h.oblige("distribute.einsum.value",
                 sem.val(res) == L(sem.val(expr)))


@contract
class DistributeOtherNodes(Contract):
    name = "einsum.distribute.other"
    functions = ("pytato.transform.einsum_distributive_law:"
                 "EinsumDistributiveLawMapper.map_*",)
    properties = ("C06",)

    KINDS = ["Placeholder", "DataWrapper", "SizeParam", "Stack", "Concatenate",
             "Roll", "AxisPermutation", "Reshape", "BasicIndex",
             "AdvancedIndexInContiguousAxes",
             "AdvancedIndexInNoncontiguousAxes", "CSRMatmul"]

    def instances(self, tier):
        return [dict(label=f"{k};ctx={c}", K=k, ctx=c)
                for k in self.KINDS for c in (True, False)]

    def run(self, h, inst):
        from contracts.c13_mappers import kind_by_name
        sem = ValSem(h)
        K = kind_by_name(inst["K"])
        b = ml.build_node(K, "e", dict(n_children=2, rank=1,
                                       shape=["int"], keys=["_in0"]))
        expr = b.obj
        mapper = EinsumDistributiveLawMapper(lambda e: DoNotDistribute())
        ctx, L = (mk_ctx(h, sem) if inst["ctx"] else (None, lambda v: v))
        stub_rec(h, mapper, sem,
                 lambda c: (L if c is not None else (lambda v: v)))
        try:
            res = h.call(getattr(mapper, K._mapper_method), expr, ctx)
        except EngineSignal:
            raise
        except Exception as e:  # noqa: BLE001
            h.fail(f"distribute.other.no-exception[{inst['K']}]",
                   f"{type(e).__name__}: {e}")
            return
        # congruence: the rebuilt node has the value of the original because
        # every recursive call (ctx=None) returned a value-equal image
        if getattr(L, "linear", False):
            for ax in linearity_instances(L, [sem.val(res), sem.val(expr)]):
                h.assume(ax)
        h.oblige(f"distribute.other.value[{inst['K']}]",
                 sem.val(res) == L(sem.val(expr)))

    def equate_images(self, h, sem, expr, res):
        pass


@contract
class DistributeCacheKey(Contract):
    name = "einsum.distribute.cache-key"
    functions = ("pytato.transform.einsum_distributive_law:"
                 "EinsumDistributiveLawMapper.get_cache_key",
                 "pytato.transform.einsum_distributive_law:"
                 "_EinsumDistributiveLawMapperContext.__eq__ (dataclass)")
    properties = ("C06", "C13")

    def instances(self, tier):
        return [dict(label="two-contexts")]

    def run(self, h, inst):
        from constantdict import constantdict

        from pytato.array import EinsumElementwiseAxis, _get_default_axes
        descrs = ((EinsumElementwiseAxis(0),), (EinsumElementwiseAxis(0),))
        s1 = gm.mk_opaque_array("A", "concrete", rank=1)
        s2 = gm.mk_opaque_array("B", "concrete", rank=1)
        x = gm.mk_opaque_array("x", "concrete", rank=1)
        mk = lambda s: _EinsumDistributiveLawMapperContext(  # noqa: E731
            descrs, constantdict({0: s}), constantdict(),
            axes=_get_default_axes(1), tags=frozenset())
        mapper = EinsumDistributiveLawMapper(lambda e: DoNotDistribute())
        k1 = h.call(mapper.get_cache_key, x, mk(s1))
        k2 = h.call(mapper.get_cache_key, x, mk(s2))
        same = bool(k1 == k2)
        if same:
            # equal keys only for equal surrounding operands
            h.oblige("cache-key.distinguishes-surrounding-operands",
                     gm.R(s1._u, s2._u))
        else:
            h.oblige("cache-key.distinguishes-surrounding-operands",
                     z3.BoolVal(True))
        kn = h.call(mapper.get_cache_key, x, None)
        h.oblige("cache-key.distinguishes-no-context",
                 z3.BoolVal(not (kn == k1)))


@contract
class NoBroadcastEinsum(Contract):
    name = "einsum.no-broadcast"
    functions = ("pytato.transform.remove_broadcasts_einsum:"
                 "EinsumWithNoBroadcastsRewriter.map_einsum",
                 "pytato.transform.remove_broadcasts_einsum:"
                 "EinsumWithNoBroadcastsRewriter._squeeze_axes",
                 "pytato.transform.remove_broadcasts_einsum:"
                 "EinsumWithNoBroadcastsRewriter.get_cache_key")
    properties = ("C06",)

    def instances(self, tier):
        from contracts.c02_lowering import einsum_specs
        out = []
        for ins, o in einsum_specs("quick"):
            if len(ins) > 2 and tier != "thorough":
                continue
            lab = ",".join(ins) + "->" + o
            units = [[k, ax] for k, sp in enumerate(ins)
                     for ax, ch in enumerate(sp)]
            out.append(dict(label=lab, ins=ins, out=o, unit=[]))
            for u in units:
                out.append(dict(label=lab + f";unit={u[0]}.{u[1]}", ins=ins,
                                out=o, unit=[u]))
            if len(units) >= 2:
                out.append(dict(label=lab + ";unit=all", ins=ins, out=o,
                                unit=units))
        return out

    def canaries(self, tier):
        return [(dict(label="ij,j->i;unit=1.0", ins=["ij", "j"], out="i",
                      unit=[[1, 0]]), "expect-different-operand",
                 "no-broadcast.value")]

    def run(self, h, inst):
        from pytato.transform.lower_to_index_lambda import to_index_lambda
        from pytato.transform.remove_broadcasts_einsum import \
            EinsumWithNoBroadcastsRewriter
        from pyvc.den import ArrayModel, Den
        from pyvc.ptlib import (in_box, mk_placeholder, oblige_equal_den,
                                shape_term, size_param_term)
        ins, o = inst["ins"], inst["out"]
        unit = {tuple(u) for u in inst["unit"]}
        letters = sorted(set("".join(ins)))
        n = {ch: h.nonneg(f"n_{ch}") for ch in letters}
        ops = []
        for k, sp in enumerate(ins):
            shp = [1 if (k, ax) in unit else n[ch] for ax, ch in enumerate(sp)]
            ops.append(mk_placeholder(h, f"a{k}", shape=shp))
        try:
            expr = h.call(pt.einsum, ",".join(ins) + "->" + o, *ops)
        except EngineSignal:
            raise
        except Exception:  # noqa: BLE001
            return
        mapper = EinsumWithNoBroadcastsRewriter()

        def rec(x, axes):
            # contract of rec: the (value-equal) operand with *axes* squeezed
            return mapper._squeeze_axes(x, axes)
        mapper.rec = rec
        try:
            new = h.call(mapper.map_einsum, expr, ())
        except EngineSignal:
            raise
        except Exception as e:  # noqa: BLE001
            h.fail("no-broadcast.no-exception", f"{type(e).__name__}: {e}")
            return
        # (1) no broadcast axes are left
        from pytato.array import _get_einsum_access_descr_to_axis_len
        try:
            d2l = _get_einsum_access_descr_to_axis_len(
                new.access_descriptors, new.args)
            h.interp.getattr(new, "shape")
        except EngineSignal:
            raise
        except Exception as e:  # noqa: BLE001
            h.fail("no-broadcast.result-well-formed",
                   f"{type(e).__name__}: {e}")
            return
        for k, (arg, ds) in enumerate(zip(new.args, new.access_descriptors,
                                          strict=True)):
            for ax, d in enumerate(ds):
                h.oblige(f"no-broadcast.none-left[{k}.{ax}]",
                         shape_term(arg.shape[ax]) == shape_term(d2l[d]))
        # (2) same shape, same pointwise function (through the lowering)
        s_old, s_new = h.interp.getattr(expr, "shape"), \
            h.interp.getattr(new, "shape")
        if len(s_old) != len(s_new):
            h.fail("no-broadcast.shape-rank", f"{s_old} vs {s_new}")
            return
        for d, (p_, q_) in enumerate(zip(s_old, s_new, strict=True)):
            h.oblige(f"no-broadcast.shape[{d}]",
                     shape_term(p_) == shape_term(q_))
        arrays = ArrayModel()
        ivars = [z3.Int(f"i{d}") for d in range(len(s_old))]
        box = in_box(ivars, s_old)
        dens = []
        for node in (expr, new):
            il = to_index_lambda(node)
            D = Den(arrays, il.bindings, lambda a: a.shape,
                    size_param=size_param_term)
            dens.append(D.top(il.expr, {f"_{d}": v
                                        for d, v in enumerate(ivars)}))
        if h.canary == "expect-different-operand":
            f = arrays.fn_for(ops[0], len(ops[0].shape))
            arrays.by_id[id(ops[0])] = (z3.Function(
                "A_other", *([z3.IntSort()] * len(ops[0].shape)),
                z3.IntSort()), len(ops[0].shape))
            il = to_index_lambda(new)
            D = Den(arrays, il.bindings, lambda a: a.shape)
            dens[1] = D.top(il.expr, {f"_{d}": v
                                      for d, v in enumerate(ivars)})
            del f
        oblige_equal_den(h, "no-broadcast.value", box, dens[1], dens[0],
                         props=("C06",))

    def replay(self, inst, clause, model, info):
        return NOBC_REPLAY.format(inst=inst)


NOBC_REPLAY = '''
import sys
sys.path.insert(0, "/verif")
import numpy as np, pytato as pt
from pyvc.replaylib import M_from, mint, rnd, eval_array, reproduced
M = M_from(MODEL)
inst = {inst!r}
ins, o, unit = inst["ins"], inst["out"], {{tuple(u) for u in inst["unit"]}}
n = {{ch: max(1, mint(M, f"n_{{ch}}", 3)) for ch in set("".join(ins))}}
ops, data = [], {{}}
for k, sp in enumerate(ins):
    shp = tuple(1 if (k, ax) in unit else n[ch] for ax, ch in enumerate(sp))
    ops.append(pt.make_placeholder(f"a{{k}}", shp, np.float64)); data[f"a{{k}}"] = rnd(shp, seed=k)
expr = pt.einsum(",".join(ins) + "->" + o, *ops)
try:
    new = pt.rewrite_einsums_with_no_broadcasts(expr)
    before, after = eval_array(expr, data), eval_array(new, data)
except Exception as e:
    reproduced(f"rewrite_einsums_with_no_broadcasts raised/ill-formed: {{type(e).__name__}}: {{e}}")
if before.shape != after.shape or not np.allclose(before, after):
    reproduced(f"einsum {{ins}}->{{o}} unit={{sorted(unit)}}: before {{before.shape}} {{before.tolist()}} after {{after.shape}} {{after.tolist()}}")
print("not reproduced"); sys.exit(0)
'''
