"""Contracts for slice normalisation (serves C02, C03, C11).

``cpy_slice`` is CPython's ``PySlice_AdjustIndices`` + slice length, written
from Objects/sliceobject.c; it is validated against ``slice.indices`` /
``len(range(...))`` and NumPy slicing on a grid by contracts/specgrid.py
(an extra of C02, C03, C11, C01).

The two repository functions are verified against their bodies here and are
used *modularly* (contract instead of body) by the indexing contracts.
"""
from __future__ import annotations

import z3

from pytato.array import NormalizedSlice
from pytato.utils import _normalize_slice, _normalized_slice_len

from pyvc.core import Contract, contract
from pyvc.sym import EngineSignal, SymInt, mk_int, z_of

NONE_PATTERNS = [(a, b, c) for a in (0, 1) for b in (0, 1) for c in (0, 1)]


def cpy_slice(n, start, stop, step):
    """(s0, s1, st, L) of CPython for slice(start, stop, step) on length n.
    Arguments are z3 terms or None.  st != 0 is assumed."""
    st = z3.IntVal(1) if step is None else step
    neg = st < 0

    def adjust(v):
        return z3.If(v < 0,
                     z3.If(v + n < 0, z3.If(neg, z3.IntVal(-1), z3.IntVal(0)),
                           v + n),
                     z3.If(v >= n, z3.If(neg, n - 1, n), v))

    s0 = z3.If(neg, n - 1, z3.IntVal(0)) if start is None else adjust(start)
    s1 = z3.If(neg, z3.IntVal(-1), n) if stop is None else adjust(stop)
    L = z3.If(neg,
              z3.If(s1 < s0, (s0 - s1 - 1) / (-st) + 1, z3.IntVal(0)),
              z3.If(s0 < s1, (s1 - s0 - 1) / st + 1, z3.IntVal(0)))
    return s0, s1, st, L


def pylen(a, b, s):
    """len(range(a, b, s)) for z3 ints, s != 0."""
    return z3.If(s > 0,
                 z3.If(a < b, (b - a - 1) / s + 1, z3.IntVal(0)),
                 z3.If(b < a, (a - b - 1) / (-s) + 1, z3.IntVal(0)))


def _sym_slice(h, pat, prefix="s"):
    start = h.int(f"{prefix}_start") if pat[0] else None
    stop = h.int(f"{prefix}_stop") if pat[1] else None
    step = h.int(f"{prefix}_step") if pat[2] else None
    return start, stop, step


def zt(v):
    return None if v is None else z_of(v)


@contract
class NormalizeSlice(Contract):
    name = "utils._normalize_slice"
    functions = ("pytato.utils:_normalize_slice",)
    # (C16: the axis length is symbolic -- "the inferred shape equals the
    # concrete shape for every parameter valuation")
    properties = ("C02", "C03", "C11", "C16")

    def instances(self, tier):
        return [dict(label=f"none-pattern={''.join(map(str, p))}", pat=list(p))
                for p in NONE_PATTERNS]

    def canaries(self, tier):
        return [(dict(label="none-pattern=111", pat=[1, 1, 1]),
                 "len-off-by-one", "normalize_slice.range-length",
                 ("C02", "C03", "C11"))]

    def run(self, h, inst):
        n = h.nonneg("n")
        start, stop, step = _sym_slice(h, inst["pat"])
        try:
            ns = h.call(_normalize_slice, slice(start, stop, step), n)
        except EngineSignal:
            raise
        except ValueError:
            # NumPy: "slice step cannot be zero"
            h.oblige("normalize_slice.raises-only-for-zero-step",
                     z_of(step) == 0 if step is not None else z3.BoolVal(False))
            return
        except Exception as e:  # noqa: BLE001
            h.fail("normalize_slice.no-other-exception",
                   f"{type(e).__name__}: {e}")
            return
        if step is not None:
            h.oblige("normalize_slice.zero-step-rejected", z_of(step) != 0)
        s0, _s1, st, L = cpy_slice(z_of(n), zt(start), zt(stop), zt(step))
        if h.canary == "len-off-by-one":
            L = L + 1
        h.oblige("normalize_slice.type",
                 z3.BoolVal(isinstance(ns, NormalizedSlice)))
        a, b, s = z_of(ns.start), z_of(ns.stop), z_of(ns.step)
        h.oblige("normalize_slice.step", s == st)
        h.oblige("normalize_slice.range-length", pylen(a, b, s) == L)
        h.oblige("normalize_slice.range-start", z3.Implies(L > 0, a == s0))

    def replay(self, inst, clause, model, info):
        return f"""
import sys
sys.path.insert(0, "/verif")
from pyvc.replaylib import M_from, mint, reproduced, not_reproduced
from pytato.utils import _normalize_slice, _normalized_slice_len
M = M_from(MODEL)
pat = {inst['pat']!r}
n = max(0, mint(M, "n", 3))
start = mint(M, "s_start", 0) if pat[0] else None
stop = mint(M, "s_stop", 0) if pat[1] else None
step = mint(M, "s_step", 1) if pat[2] else None
sl = slice(start, stop, step)
try:
    expect = range(*sl.indices(n))
except ValueError as e:
    expect = e
try:
    ns = _normalize_slice(sl, n)
    got = range(ns.start, ns.stop, ns.step)
    length = _normalized_slice_len(ns)
except ValueError as e:
    got = e
if isinstance(expect, Exception) or isinstance(got, Exception):
    if isinstance(expect, Exception) != isinstance(got, Exception):
        reproduced(f"n={{n}} slice={{sl}}: python {{expect!r}} vs pytato {{got!r}}")
    not_reproduced("both reject")
if list(got) != list(expect) or length != len(expect):
    reproduced(f"n={{n}} slice={{sl}}: python range {{list(expect)}} vs "
               f"normalized {{list(got)}} (reported length {{length}})")
not_reproduced()
"""


@contract
class NormalizedSliceLen(Contract):
    name = "utils._normalized_slice_len"
    functions = ("pytato.utils:_normalized_slice_len",
                 "pytato.utils:_is_non_negative",
                 "pytato.utils:_is_non_positive")
    # (C16: the axis length is symbolic -- "the inferred shape equals the
    # concrete shape for every parameter valuation")
    properties = ("C02", "C03", "C11", "C16")

    def instances(self, tier):
        return [dict(label="ints")]

    def canaries(self, tier):
        return [(dict(label="ints"), "len-off-by-one",
                 "normalized_slice_len.value", ("C02", "C03", "C11"))]

    def run(self, h, inst):
        a, b, s = h.int("start"), h.int("stop"), h.int("step")
        h.assume(s.t != 0)
        try:
            r = h.call(_normalized_slice_len, NormalizedSlice(a, b, s))
        except EngineSignal:
            raise
        except Exception as e:  # noqa: BLE001
            h.fail("normalized_slice_len.no-exception",
                   f"{type(e).__name__}: {e}")
            return
        want = pylen(a.t, b.t, s.t)
        if h.canary == "len-off-by-one":
            want = want + 1
        h.oblige("normalized_slice_len.value", z_of(r) == want)


# {{{ modular stand-ins used by callers

def install_slice_contracts(h):
    """Callers of the two functions see their contracts, not their bodies."""

    def normalize_slice_stub(interp, fn, args, kwargs):
        slice_, n = args
        start, stop, step = slice_.start, slice_.stop, slice_.step
        for v in (start, stop, step):
            if v is not None and z_of(v) is None:
                # not an int: fall back to the body (raises ValueError etc.)
                return interp.call_repo_function(fn, args, kwargs)
        zn = z_of(n)
        if zn is None:
            return interp.call_repo_function(fn, args, kwargs)
        # requires: n >= 0  (obligation of the caller)
        h.ctx.add_obligation("requires(_normalize_slice): axis_len >= 0",
                             zn >= 0, kind="requires",
                             info=dict(props=None, info=None))
        if step is not None and bool(step == 0):
            raise ValueError("slice step cannot be zero")
        s0, _s1, st, L = cpy_slice(zn, zt(start), zt(stop), zt(step))
        a = h.ctx.fresh_int("ns_start")
        b = h.ctx.fresh_int("ns_stop")
        h.assume(pylen(a.t, b.t, st) == L)
        h.assume(z3.Implies(L > 0, a.t == s0))
        return NormalizedSlice(a, b, mk_int(st))

    def normalized_slice_len_stub(interp, fn, args, kwargs):
        (ns,) = args
        a, b, s = z_of(ns.start), z_of(ns.stop), z_of(ns.step)
        if a is None or b is None or s is None:
            return interp.call_repo_function(fn, args, kwargs)
        h.ctx.add_obligation("requires(_normalized_slice_len): step != 0",
                             s != 0, kind="requires",
                             info=dict(props=None, info=None))
        return mk_int(pylen(a, b, s))

    h.interp.contracts[_normalize_slice] = normalize_slice_stub
    h.interp.contracts[_normalized_slice_len] = normalized_slice_len_stub

# }}}
