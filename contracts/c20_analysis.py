"""C20 -- graph analyses agree with the graph and with each other.

users<->preds[K]   for a K-node v whose children are opaque arrays: the
                   multiset of children under which ListOfUsersCollector
                   records v, the set under which UsersCollector records v and
                   the list ListOfDirectPredecessorsGetter returns for v are
                   the same collection (converse relations, with multiplicity
                   where a list is promised).
count.*            NodeCountMapper / NodeMultiplicityMapper / CallSiteCount
                   post_visit add exactly one for the right nodes.
materialized.*     MaterializedNodeCollector.post_visit adds exactly inputs,
                   receives, sent data, loopy/call bindings and results,
                   CSR matmuls and ImplStored nodes; outputs iff requested.
topo.*             TopoSortMapper.post_visit appends arrays only.
(child coverage, post-visit order and memoisation of the traversals are the
shared contracts of contracts/c13_mappers.py and c13_caches.py.)
"""
from __future__ import annotations

from collections import Counter

import z3

from pytato.array import Array
from pytato.function import FunctionDefinition

from contracts.c13_mappers import BASE_CFG, kind_by_name, kinds, method_name
from pyvc import graphmodel as gm
from pyvc import mapperlib as ml
from pyvc.core import Contract, contract
from pyvc.sym import EngineSignal


def run_real(h, Mn, b, K):
    """Run the real M.map_K with the recursion cut off; return the mapper."""
    M = ml.mapper_by_name(Mn)
    mapper = ml.instantiate(M) if Mn != "ListOfDirectPredecessorsGetter" \
        else M(include_functions=False)
    rec = ml.Recorder()
    rec.token = lambda x: None
    ml.stub_mapper(mapper, rec, "none")
    # dispatch exactly as Mapper.rec does (incl. the fallback through the
    # node class's MRO), then the per-node method with recursion cut off
    from pytato.transform import Mapper
    if K is FunctionDefinition:
        res = h.call(getattr(mapper, method_name(K)), b.obj)
    else:
        res = h.call(Mapper.rec, mapper, b.obj)
    return mapper, res


def assume_distinct(h, b):
    """A duplicate-free graph: distinct children are unequal."""
    kids = [c for c in b.children(with_functions=False)
            if isinstance(c, gm._OpaqueMixin)]
    for i, a in enumerate(kids):
        for c in kids[:i]:
            h.assume(z3.Not(gm.R(a._u, c._u)))
            h.assume(z3.Not(gm.R(c._u, a._u)))


def idc(xs):
    return Counter(id(x) for x in xs)


@contract
class UsersVsPreds(Contract):
    name = "analysis.users-preds"
    functions = ("pytato.analysis:ListOfUsersCollector.map_*",
                 "pytato.analysis:ListOfDirectPredecessorsGetter.map_*",
                 "pytato.transform:UsersCollector.map_*",
                 "pytato.transform:UsersCollector.rec_idx_or_size_tuple")
    properties = ("C20",)

    def instances(self, tier):
        out = []
        for K in kinds():
            if K is FunctionDefinition:
                continue
            for shp in ("int-shapes", "symbolic-shapes"):
                out.append(dict(label=f"{K.__name__};{shp}", K=K.__name__,
                                shp=shp))
        return out

    def canaries(self, tier):
        return [(dict(label="Roll;int-shapes", K="Roll", shp="int-shapes"),
                 "phantom-pred", "users<->preds.list[Roll")]

    def run(self, h, inst):
        Kn = inst["K"]
        K = kind_by_name(Kn)
        cfg = dict(BASE_CFG)
        b = ml.build_node(K, "e", cfg)
        kids = [c for c in b.children(with_functions=False)
                if isinstance(c, gm._OpaqueMixin)]
        for i, a in enumerate(kids):
            for c in kids[:i]:
                # a duplicate-free graph: distinct children are unequal
                h.assume(z3.Not(gm.R(a._u, c._u)))
                h.assume(z3.Not(gm.R(c._u, a._u)))
        if inst["shp"] == "symbolic-shapes":
            # give every opaque child an array-valued leading axis length
            import pytato as pt
            n = pt.make_size_param("n")
            for c in b.children(with_functions=False):
                if isinstance(c, gm.OpaqueArray) and len(c.shape) >= 1:
                    object.__setattr__(c, "shape", (n, *c.shape[1:]))
        v = b.obj
        try:
            lu, _ = run_real(h, "ListOfUsersCollector", b, K)
            uc, _ = run_real(h, "UsersCollector", b, K)
            _pg, preds = run_real(h, "ListOfDirectPredecessorsGetter", b, K)
        except EngineSignal:
            raise
        except Exception as e:  # noqa: BLE001
            h.fail(f"users<->preds.no-exception[{Kn};{inst['shp']}]",
                   f"{type(e).__name__}: {e}")
            return
        LU = Counter()
        objs = {}
        for child, users in lu.array_to_users.items():
            k = sum(1 for u in users if u is v)
            if k:
                LU[id(child)] += k
                objs[id(child)] = child
        U = set()
        for child, users in uc.node_to_users.items():
            if any(u is v for u in users):
                U.add(id(child))
                objs[id(child)] = child
        P = idc(preds)
        for p in preds:
            objs[id(p)] = p
        if h.canary == "phantom-pred":
            P[0] += 1
        tag = f"{Kn};{inst['shp']}"

        def names(ids):
            return sorted(getattr(objs.get(i), "_label",
                                  type(objs.get(i)).__name__) for i in ids)
        h.oblige(f"users<->preds.list[{tag}]", z3.BoolVal(LU == P),
                 info=dict(users=names(LU.elements()),
                           preds=names(P.elements())))
        h.oblige(f"users<->preds.set[{tag}]", z3.BoolVal(U == set(P)),
                 info=dict(users=names(U), preds=names(set(P))))

    def replay(self, inst, clause, model, info):
        return USERS_REPLAY.format(K=inst["K"], shp=inst["shp"])


USERS_REPLAY = '''
import sys
sys.path.insert(0, "/verif")
from pyvc.replay_nodes import sample_node, symbolic_sample_node
from pyvc.replaylib import reproduced, not_reproduced
import pytato as pt
from pytato.analysis import DirectPredecessorsGetter, get_list_of_users, ListOfDirectPredecessorsGetter
from pytato.transform import get_users
K, shp = {K!r}, {shp!r}
nodes = list(sample_node(K)) if shp == "int-shapes" else list(symbolic_sample_node(K))
for v in nodes:
    lst = get_list_of_users(v)
    st = get_users(v)
    preds = ListOfDirectPredecessorsGetter()(v)
    from collections import Counter
    P = Counter(id(p) for p in preds)
    LU = Counter()
    for child, users in lst.items():
        k = sum(1 for u in users if u is v)
        if k: LU[id(child)] += k
    U = {{id(c) for c, users in st.items() if any(u is v for u in users)}}
    if LU != P or U != set(P):
        def nm(ids, pool):
            out = []
            for i in ids:
                for o in pool:
                    if id(o) == i: out.append(type(o).__name__ + ":" + repr(o)[:40])
            return out
        pool = list(preds) + list(lst.keys()) + list(st.keys())
        reproduced(f"{{K}} node: direct predecessors {{nm(P.elements(), pool)}} vs list-of-users "
                   f"children {{nm(LU.elements(), pool)}} vs users children {{nm(U, pool)}}")
not_reproduced("relations agree on the sampled real nodes")
'''


@contract
class Counters(Contract):
    name = "analysis.counters"
    functions = ("pytato.analysis:NodeCountMapper.post_visit",
                 "pytato.analysis:NodeCountMapper.get_cache_key",
                 "pytato.analysis:NodeMultiplicityMapper.post_visit",
                 "pytato.analysis:CallSiteCountMapper.post_visit",
                 "pytato.transform:TopoSortMapper.post_visit",
                 "pytato.analysis:get_num_nodes",
                 "pytato.analysis:get_node_type_counts")
    properties = ("C20",)

    def instances(self, tier):
        return [dict(label=K.__name__, K=K.__name__) for K in kinds()]

    def run(self, h, inst):
        from pytato.analysis import (CallSiteCountMapper, NodeCountMapper,
                                     NodeMultiplicityMapper)
        from pytato.array import DictOfNamedArrays
        from pytato.function import Call
        from pytato.transform import TopoSortMapper
        Kn = inst["K"]
        K = kind_by_name(Kn)
        v = ml.build_node(K, "e", BASE_CFG).obj
        for dups in (False, True):
            m = NodeCountMapper(count_duplicates=dups)
            h.call(m.post_visit, v)
            want = {} if isinstance(v, DictOfNamedArrays) else {type(v): 1}
            h.oblige(f"count.type-count-adds-one[{Kn};dups={dups}]",
                     z3.BoolVal(dict(m.expr_type_counts) == want))
            key = h.call(m.get_cache_key, v) if K is not FunctionDefinition \
                else h.call(m.get_function_definition_cache_key, v)
            h.oblige(f"count.key-is-id-iff-duplicates[{Kn};dups={dups}]",
                     z3.BoolVal((key == id(v)) if dups else (key is v)))
        mm = NodeMultiplicityMapper()
        # "number of distinct objects when duplicates are counted": the
        # multiplicity mapper visits per object, whatever the kind
        mkey = h.call(mm.get_cache_key, v) if K is not FunctionDefinition \
            else h.call(mm.get_function_definition_cache_key, v)
        h.oblige(f"count.multiplicity-key-is-the-object's-identity[{Kn}]",
                 z3.BoolVal(mkey == id(v) and not (mkey is v)))
        h.call(mm.post_visit, v)
        want = {} if isinstance(v, DictOfNamedArrays) else {id(v): 1}
        h.oblige(f"count.multiplicity-adds-one[{Kn}]", z3.BoolVal(
            {id(k): c for k, c in mm.expr_multiplicity_counts.items()}
            == want))
        cs = CallSiteCountMapper()
        h.call(cs.post_visit, v)
        h.oblige(f"count.call-sites[{Kn}]",
                 z3.BoolVal(cs.count == (1 if isinstance(v, Call) else 0)))
        ts = TopoSortMapper()
        h.call(ts.post_visit, v)
        h.oblige(f"topo.appends-arrays-only[{Kn}]", z3.BoolVal(
            [id(x) for x in ts.topological_order]
            == ([id(v)] if isinstance(v, Array) else [])))


@contract
class Materialized(Contract):
    name = "analysis.materialized"
    functions = ("pytato.analysis:MaterializedNodeCollector.post_visit",
                 "pytato.analysis:MaterializedNodeCollector.__call__",
                 "pytato.analysis:collect_materialized_nodes")
    properties = ("C20",)

    def instances(self, tier):
        out = []
        for K in kinds():
            if K is FunctionDefinition:
                continue
            for stored in (False, True):
                out.append(dict(label=f"{K.__name__};stored={stored}",
                                K=K.__name__, stored=stored))
        out += [dict(label=f"outputs;include={i};{k}", K=k, outputs=i)
                for i in (True, False) for k in ("Roll", "DictOfNamedArrays")]
        return out

    def canaries(self, tier):
        return [(dict(label="Roll;stored=False", K="Roll", stored=False),
                 "roll-is-materialized", "materialized.exactly[Roll")]

    def run(self, h, inst):
        from pytato.analysis import MaterializedNodeCollector
        from pytato.array import (CSRMatmul, DictOfNamedArrays,
                                  InputArgumentBase)
        from pytato.distributed.nodes import (DistributedRecv,
                                              DistributedSendRefHolder)
        from pytato.function import Call, NamedCallResult
        from pytato.loopy import LoopyCall, LoopyCallResult
        from pytato.tags import ImplStored
        Kn = inst["K"]
        K = kind_by_name(Kn)
        b = ml.build_node(K, "e", BASE_CFG)
        assume_distinct(h, b)
        v = b.obj
        if "outputs" in inst:
            m = MaterializedNodeCollector(include_outputs=inst["outputs"])
            rec = ml.Recorder()
            ml.stub_mapper(m, rec, "none")
            h.call(m, v)
            got = {id(x) for x in m.materialized_nodes}
            outs = {id(x) for x in v._data.values()} if isinstance(
                v, DictOfNamedArrays) else {id(v)}
            h.oblige(f"materialized.outputs-iff-requested[{Kn};"
                     f"{inst['outputs']}]",
                     z3.BoolVal(got == (outs if inst["outputs"] else set())))
            return
        if inst["stored"]:
            if not isinstance(v, Array) or isinstance(
                    v, (NamedCallResult, LoopyCallResult,
                        DistributedSendRefHolder)):
                h.oblige(f"materialized.n/a[{Kn}]", z3.BoolVal(True))
                return
            object.__setattr__(v, "tags", frozenset({ImplStored()}))
        m = MaterializedNodeCollector()
        h.call(m.post_visit, v)
        got = {id(x) for x in m.materialized_nodes}
        want = set()
        if isinstance(v, (InputArgumentBase, DistributedRecv, CSRMatmul,
                          LoopyCallResult, NamedCallResult)) or (
                isinstance(v, Array) and inst["stored"]):
            want = {id(v)}
        elif isinstance(v, DistributedSendRefHolder):
            want = {id(v.send.data)}
        elif isinstance(v, (LoopyCall, Call)):
            want = {id(x) for x in v.bindings.values() if isinstance(x, Array)}
        if h.canary == "roll-is-materialized":
            want = {id(v)}
        h.oblige(f"materialized.exactly[{Kn};stored={inst['stored']}]",
                 z3.BoolVal(got == want))


# {{{ tag counts

def _tag_classes():
    from dataclasses import dataclass

    from pytools.tag import Tag

    @dataclass(frozen=True)
    class TagA(Tag):
        k: int = 0

    @dataclass(frozen=True)
    class TagB(Tag):
        k: int = 0

    @dataclass(frozen=True)
    class TagC(Tag):
        k: int = 0
    return TagA, TagB, TagC


TagA, TagB, TagC = _tag_classes()

#: tag sets a node may carry -- two tags of one (non-unique) type included
NODE_TAGS = {
    "none": (),
    "A": (("A", 1),),
    "AA": (("A", 1), ("A", 2)),
    "AB": (("A", 1), ("B", 1)),
    "AAB": (("A", 1), ("A", 2), ("B", 1)),
    "AABB": (("A", 1), ("A", 2), ("B", 1), ("B", 2)),
}
QUERIES = ["", "A", "B", "AB", "ABC", "C"]


def _mk(tags):
    cls = dict(A=TagA, B=TagB, C=TagC)
    return frozenset(cls[c](k) for c, k in tags)


@contract
class TagCounts(Contract):
    """``get_num_tags_of_type(g, T)`` = number of distinct nodes of g whose
    tags include a tag of *every* type in T (the property's "number of nodes
    carrying the tags"), however many tags of one type a node carries."""
    name = "analysis.tag-count"
    functions = ("pytato.analysis:TagCountMapper.rec",
                 "pytato.analysis:TagCountMapper.combine",
                 "pytato.analysis:TagCountMapper.map_size_param",
                 "pytato.analysis:get_num_tags_of_type")
    properties = ("C20",)

    def instances(self, tier):
        out = [dict(label=f"leaf;tags={t};query={q or '-'}", case="leaf",
                    tags=t, query=q) for t in NODE_TAGS for q in QUERIES]
        out += [dict(label=f"graph;query={q or '-'}", case="graph", query=q)
                for q in QUERIES]
        return out

    def canaries(self, tier):
        return [(dict(label="leaf;tags=AA;query=A", case="leaf", tags="AA",
                      query="A"), "count-tags-not-nodes",
                 "tagcount.node-counted-iff-it-carries-every-type")]

    def run(self, h, inst):
        import numpy as np

        import pytato as pt
        from pytato.analysis import TagCountMapper, get_num_tags_of_type
        cls = dict(A=TagA, B=TagB, C=TagC)
        query = frozenset(cls[c] for c in inst["query"])

        def carries(tags):
            return query <= {type(t) for t in tags}
        if inst["case"] == "leaf":
            tags = _mk(NODE_TAGS[inst["tags"]])
            x = pt.make_placeholder("x", (3,), np.float64, tags=tags)
            m = TagCountMapper(query)
            got = h.call(m.rec, x)
            want = 1 if carries(tags) else 0
            if h.canary == "count-tags-not-nodes":
                want = sum(1 for t in tags if type(t) in query)
            h.oblige("tagcount.node-counted-iff-it-carries-every-type",
                     z3.BoolVal(got == want), info=f"got {got}, want {want}")
            return
        n = pt.make_size_param("n")
        x = pt.make_placeholder("x", (n,), np.float64,
                                tags=_mk(NODE_TAGS["AA"]))
        y = (x + x).tagged(_mk(NODE_TAGS["A"]))
        z = (y * x).tagged(_mk(NODE_TAGS["AAB"]))
        w = (z + 1).tagged(_mk((("B", 7),)))
        g = pt.make_dict_of_named_arrays({"z": z, "w": w, "y": y})
        nodes = {id(v): v for v in (n, x, y, z, w)}
        want = sum(1 for v in nodes.values() if carries(v.tags))
        try:
            got = h.call(get_num_tags_of_type, g, query)
        except EngineSignal:
            raise
        except Exception as e:  # noqa: BLE001
            h.fail("tagcount.no-exception", f"{type(e).__name__}: {e}")
            return
        h.oblige("tagcount.graph-count-is-the-number-of-carrying-nodes",
                 z3.BoolVal(got == want), info=f"got {got}, want {want}")

    def replay(self, inst, clause, model, info):
        return TAGCOUNT_REPLAY.format(inst=inst)


TAGCOUNT_REPLAY = '''
import sys
sys.path.insert(0, "/verif")
sys.path.append("/verif/.deps")
import numpy as np
import pytato as pt
from pytato.analysis import get_num_tags_of_type
from contracts.c20_analysis import TagA, TagB, TagC, NODE_TAGS, _mk
from pyvc.replaylib import reproduced, not_reproduced
inst = {inst!r}
cls = dict(A=TagA, B=TagB, C=TagC)
query = frozenset(cls[c] for c in inst["query"])
carries = lambda tags: query <= {{type(t) for t in tags}}
if inst["case"] == "leaf":
    tags = _mk(NODE_TAGS[inst["tags"]])
    g = pt.make_placeholder("x", (3,), np.float64, tags=tags)
    want = 1 if carries(tags) else 0
    what = f"a placeholder tagged {{sorted(map(repr, tags))}}"
else:
    n = pt.make_size_param("n")
    x = pt.make_placeholder("x", (n,), np.float64, tags=_mk(NODE_TAGS["AA"]))
    y = (x + x).tagged(_mk(NODE_TAGS["A"]))
    z = (y * x).tagged(_mk(NODE_TAGS["AAB"]))
    w = (z + 1).tagged(_mk((("B", 7),)))
    g = pt.make_dict_of_named_arrays({{"z": z, "w": w, "y": y}})
    want = sum(1 for v in (n, x, y, z, w) if carries(v.tags))
    what = "the 5-node graph x{{A,A}}, y=x+x{{A}}, z=y*x{{A,A,B}}, w=z+1{{B}}, n"
try:
    got = get_num_tags_of_type(g, query)
except Exception as e:
    reproduced(f"get_num_tags_of_type raises {{type(e).__name__}}: {{e}}")
if got != want:
    reproduced(f"get_num_tags_of_type({{what}}, {{sorted(c.__name__ for c in query)}}) "
               f"= {{got}}; nodes carrying every requested type: {{want}}")
not_reproduced(f"count {{got}} as expected")
'''

# }}}
