"""C18 -- persistent hash keys identify a computation faithfully; and the
data-wrapper de-duplication key of C05.

Information-flow contracts over a *symbolic ndarray*: an ``np.ndarray``
subclass instance whose observable attributes are opaque symbolic values:

  contents   logical contents (what ``tobytes()`` / ``.data.tobytes()`` in C
             order yield)              -- determined by the array's values
  layout     what layout-dependent reads yield (``tobytes('A'|'F'|'K')``,
             strides)
  shape, dtype, address

key.*      PytatoKeyBuilder.update_for_ndarray: the stream fed to the hash
           determines contents, shape and dtype (equal streams => all three
           equal), and is the same for two arrays that differ only in layout
           or address; nothing derived from id()/hash() is fed.
redn.*     reduction operations feed their type.
fields.*   no node dataclass excludes a field other than non_equality_tags
           from comparison/hash/init (the generic field walk of the key
           builder covers exactly the fields equality covers).
dedup.*    DataWrapperDeduplicator: equal de-duplication keys => same
           address, shape, strides and dtype (C05).
"""
from __future__ import annotations

import dataclasses

import numpy as np
import z3

from pyvc import graphmodel as gm
from pyvc.core import Contract, contract
from pyvc.graphmodel import SymVal
from pyvc.sym import EngineSignal, mk_bool


class _Mem:
    def __init__(self, owner):
        self.owner = owner

    def tobytes(self, order="C"):
        return self.owner.tobytes(order)


class SymNd(np.ndarray):
    """ndarray whose observations are opaque symbolic values."""

    def _sym(self):
        return self.__dict__["_symv"]

    @property
    def shape(self):
        return self._sym()["shape"]

    @property
    def dtype(self):
        return self._sym()["dtype"]

    @property
    def strides(self):
        return self._sym()["layout"]

    @property
    def data(self):
        return _Mem(self)

    @property
    def __array_interface__(self):
        return {"data": self._sym()["address"], "strides": self.strides,
                "shape": self.shape, "typestr": self.dtype}

    def tobytes(self, order="C"):
        if order in (None, "C"):
            return self._sym()["contents"]
        # layout-dependent read: a different observation
        return SymLayoutBytes(self._sym()["contents"], self._sym()["layout"])

    def __hash__(self):
        return 0


class SymLayoutBytes:
    def __init__(self, contents, layout):
        self.contents, self.layout = contents, layout

    def __eq__(self, o):
        if isinstance(o, SymLayoutBytes):
            return mk_bool(z3.And(self.contents.u == o.contents.u,
                                  self.layout.u == o.layout.u))
        return False

    def __hash__(self):
        return 0


def mk_symnd(label):
    a = np.zeros(1).view(SymNd)
    a.__dict__["_symv"] = {k: SymVal(f"{label}.{k}") for k in
                           ("contents", "layout", "shape", "dtype", "address")}
    return a


def stream_equal(s1, s2):
    """Symbolic equality of two recorded streams (python bool; forks)."""
    return len(s1) == len(s2) and all(bool(x == y) for x, y in zip(
        s1, s2, strict=True))


def flatten(x):
    if isinstance(x, (tuple, list)):
        out = []
        for y in x:
            out.extend(flatten(y))
        return out
    return [x]


@contract
class NdarrayKey(Contract):
    name = "keys.ndarray"
    functions = ("pytato.analysis:PytatoKeyBuilder.update_for_ndarray",)
    properties = ("C18",)

    def instances(self, tier):
        return [dict(label="two-arrays")]

    def canaries(self, tier):
        return [(dict(label="two-arrays"), "also-determines-address",
                 "key.stream-determines")]

    def run(self, h, inst):
        from pytato.analysis import PytatoKeyBuilder
        a, b = mk_symnd("a"), mk_symnd("b")
        streams = []
        for arr in (a, b):
            kb = PytatoKeyBuilder()
            fed = []
            kb.rec = lambda kh, v, fed=fed: fed.extend(flatten(v))
            try:
                h.call(kb.update_for_ndarray, "KH", arr)
            except EngineSignal:
                raise
            except Exception as e:  # noqa: BLE001
                h.fail("key.no-exception", f"{type(e).__name__}: {e}")
                return
            streams.append(fed)
        sa, sb = a._sym(), b._sym()
        eq = stream_equal(*streams)
        want = ["contents", "shape", "dtype"]
        if h.canary == "also-determines-address":
            want.append("address")
        if eq:
            # injective in everything that affects the computation
            for k in want:
                h.oblige(f"key.stream-determines[{k}]", sa[k].u == sb[k].u)
        else:
            # stable: the same logical array gives the same stream whatever
            # its memory layout / address
            h.oblige("key.stream-independent-of-layout-and-address",
                     z3.Not(z3.And([sa[k].u == sb[k].u
                                    for k in ("contents", "shape", "dtype")])))
        h.oblige("key.nothing-but-observations-of-the-array-is-fed",
                 z3.BoolVal(all(isinstance(v, (SymVal, SymLayoutBytes))
                                for s in streams for v in s)),
                 info=[type(v).__name__ for v in streams[0]])

    def replay(self, inst, clause, model, info):
        return KEY_REPLAY


KEY_REPLAY = '''
import sys
sys.path.insert(0, "/verif")
import numpy as np, pytato as pt
from pytato.analysis import PytatoKeyBuilder
from pyvc.replaylib import reproduced
kb = PytatoKeyBuilder()
def key(a): return kb(pt.make_data_wrapper(a))
pairs = {
  "dtype with identical bytes": (np.zeros(3, np.int64), np.zeros(3, np.float64), False),
  "shape with identical bytes": (np.zeros((2, 3)), np.zeros((3, 2)), False),
  "one element": (np.arange(6.0), np.arange(6.0) + (np.arange(6) == 4), False),
  "layout only (F vs C order)": (np.asfortranarray(np.arange(6.0).reshape(2, 3)),
                                 np.ascontiguousarray(np.arange(6.0).reshape(2, 3)), True),
  "transposed square contents": (np.asfortranarray(np.arange(4.0).reshape(2, 2)),
                                 np.ascontiguousarray(np.arange(4.0).reshape(2, 2).T), False),
  "separately stored equal data": (np.arange(5.0), np.arange(5.0).copy(), True),
}
for what, (a, b, same) in pairs.items():
    if (key(a) == key(b)) != same:
        reproduced(f"wrapped data differing in {what}: keys {'collide' if not same else 'differ'}")
print("not reproduced"); sys.exit(0)
'''


@contract
class ReductionKey(Contract):
    name = "keys.reduction-op"
    functions = ("pytato.reductions:_StatelessReductionOperation."
                 "update_persistent_hash",
                 "pytato.reductions:_StatelessReductionOperation.__eq__",
                 "pytato.reductions:_StatelessReductionOperation.__hash__")
    properties = ("C18", "C04")

    def instances(self, tier):
        return [dict(label="all-pairs")]

    def run(self, h, inst):
        from pytato import reductions as R
        ops = [R.SumReductionOperation, R.ProductReductionOperation,
               R.MaxReductionOperation, R.MinReductionOperation,
               R.AllReductionOperation, R.AnyReductionOperation]
        fed = {}
        for c in ops:
            seen = []

            class KB:
                def rec(self, kh, v, seen=seen):
                    seen.append(v)
            h.call(c().update_persistent_hash, "KH", KB())
            fed[c] = seen
        for c1 in ops:
            for c2 in ops:
                same = c1 is c2
                h.oblige(f"redn.key-determines-operation[{c1.__name__},"
                         f"{c2.__name__}]",
                         z3.BoolVal((fed[c1] == fed[c2]) == same))
                e = h.call(c1().__eq__, c2())
                h.oblige(f"redn.eq-iff-same-type[{c1.__name__},"
                         f"{c2.__name__}]", z3.BoolVal(bool(e) == same))
            h.oblige(f"redn.fed-value-is-process-stable[{c1.__name__}]",
                     z3.BoolVal(all(isinstance(v, (type, str))
                                    for v in fed[c1])))


@contract
class FieldDeclarations(Contract):
    name = "keys.fields"
    functions = ("pytato.array:*node dataclasses* (field declarations)",)
    properties = ("C18", "C04")

    def instances(self, tier):
        from contracts.c04_equality import eq_classes
        from pytato.array import CSRMatrix
        from pytato.distributed.nodes import DistributedSend
        return [dict(label=c.__name__, cls=c.__name__)
                for c in [*eq_classes(), CSRMatrix, DistributedSend]]

    def run(self, h, inst):
        from contracts.c04_equality import _cls_any
        cls = _cls_any(inst["cls"])
        K = inst["cls"]
        for f in dataclasses.fields(cls):
            if f.name == "non_equality_tags":
                h.oblige(f"fields.non-equality-tags-excluded-from-hash[{K}]",
                         z3.BoolVal(f.hash is False))
                continue
            h.oblige(f"fields.participates[{K}.{f.name}]",
                     z3.BoolVal(f.compare is True and f.hash is not False
                                and f.init is True))
        # a bespoke key method replaces pytools' generic walk over the
        # fields: what it feeds must still determine every field
        owner = next((b for b in cls.__mro__
                      if b.__module__.startswith("pytato")
                      and "update_persistent_hash" in vars(b)), None)
        if owner is None:
            h.oblige(f"fields.keyed-by-generic-field-walk[{K}]",
                     z3.BoolVal(True))
            return
        b1 = gm.build(cls, "k1", "sym", None)
        b2 = gm.build(cls, "k2", "sym", None)
        for c in gm.congruence_assumptions(b1, b2):
            h.assume(c)
        streams = []
        for b in (b1, b2):
            fed = []

            class KB:
                def rec(self, kh, v, fed=fed):
                    fed.extend(flatten(v))
            try:
                h.call(owner.update_persistent_hash, b.obj, "KH", KB())
            except EngineSignal:
                raise
            except Exception as e:  # noqa: BLE001
                h.fail(f"fields.custom-key.no-exception[{K}]",
                       f"{type(e).__name__}: {e}")
                return
            streams.append(fed)
        s1, s2 = streams
        if len(s1) != len(s2):
            same = z3.BoolVal(False)
        else:
            same = z3.And([gm._rel_entry(x, y) for x, y in zip(
                s1, s2, strict=True)] + [z3.BoolVal(True)])
        for f, formula in gm.field_relations(b1, b2).items():
            if f == "non_equality_tags":
                continue
            h.oblige(f"fields.custom-key-determines[{K}.{f}]",
                     z3.Implies(same, formula))
        h.oblige(f"fields.custom-key-equal-for-equal-fields[{K}]",
                 z3.Implies(z3.And([v for f, v in gm.field_relations(
                     b1, b2).items() if f != "non_equality_tags"]
                     + [z3.BoolVal(True)]), same))

    def replay(self, inst, clause, model, info):
        import re
        m = re.match(r"fields\.custom-key-determines\[(\w+)\.([\w.]+)\]",
                     clause)
        if not m:
            return None
        return FIELD_REPLAY.format(cls=m.group(1), field=m.group(2))


FIELD_REPLAY = '''
import sys
sys.path.insert(0, "/verif")
from pyvc.replay_nodes import sample_node, variants
from pyvc.replaylib import reproduced, not_reproduced
from pytato.analysis import PytatoKeyBuilder
cls, field = {cls!r}, {field!r}
kb = PytatoKeyBuilder()
for base in sample_node(cls):
    for other in variants(base, field):
        if base != other and kb(base) == kb(other):
            reproduced(f"two {{cls}} nodes differing only in '{{field}}' are "
                       f"unequal but get the same persistent key:\\n"
                       f"  {{base!r}}\\n  {{other!r}}")
not_reproduced("no sampled pair differing only in that field shares a key")
'''


@contract
class DataDedupKey(Contract):
    name = "keys.data-dedup"
    functions = ("pytato.transform:DataWrapperDeduplicator."
                 "_get_data_dedup_cache_key",
                 "pytato.transform:DataWrapperDeduplicator.map_data_wrapper")
    properties = ("C05",)

    def instances(self, tier):
        return [dict(label="two-arrays")]

    def canaries(self, tier):
        return [(dict(label="two-arrays"), "also-determines-contents",
                 "dedup.equal-keys=>same-memory")]

    def run(self, h, inst):
        from pytato.transform import DataWrapperDeduplicator
        a, b = mk_symnd("a"), mk_symnd("b")
        m = DataWrapperDeduplicator()
        ka = h.call(m._get_data_dedup_cache_key, a)
        kb = h.call(m._get_data_dedup_cache_key, b)
        sa, sb = a._sym(), b._sym()
        eq = bool(ka == kb)
        want = ["address", "shape", "layout", "dtype"]
        if h.canary == "also-determines-contents":
            want.append("contents")
        if eq:
            # merged wrappers really view the same memory the same way
            for k in want:
                h.oblige(f"dedup.equal-keys=>same-memory[{k}]",
                         sa[k].u == sb[k].u)
        else:
            h.oblige("dedup.keys-differ-only-if-something-differs",
                     z3.Not(z3.And([sa[k].u == sb[k].u for k in
                                    ("address", "shape", "layout", "dtype")])))


# {{{ native key pairs (bounded stand-in for the external KeyBuilder half)

KEY_CLASSES = ["Placeholder", "SizeParam", "DataWrapper", "IndexLambda",
               "Stack", "Concatenate", "Roll", "AxisPermutation", "Reshape",
               "BasicIndex", "AdvancedIndexInContiguousAxes",
               "AdvancedIndexInNoncontiguousAxes", "Einsum", "CSRMatmul",
               "DictOfNamedArrays", "NamedArray", "DistributedRecv",
               "DistributedSendRefHolder", "NamedCallResult", "Call",
               "FunctionDefinition"]


def native_key_pairs(tier, seed):
    """Real PytatoKeyBuilder (pytools' KeyBuilder underneath -- the external
    half that the deductive part only *assumes* injective) on real sample
    nodes of every class and on single-field variants, under two histories:
    a fresh builder, and a builder that has keyed the nodes' children before
    (the builder caches digests on the objects it has seen).
      unequal nodes  => different keys   (both histories)
      an equal copy  => the same key
    Bounded: the nodes are samples.  Labelled as such in the evidence."""
    import dataclasses as dc

    from pytato.analysis import PytatoKeyBuilder
    from pytato.array import Array
    from pyvc.replay_nodes import sample_node, variants
    failures, n = [], 0

    def children(x):
        out = []
        if not dc.is_dataclass(x):
            return out
        for f in dc.fields(x):
            try:
                v = getattr(x, f.name)
            except Exception:  # noqa: BLE001
                continue
            vs = v if isinstance(v, (tuple, list)) else (
                list(v.values()) if hasattr(v, "values") else [v])
            out += [c for c in vs if isinstance(c, Array)]
        return out
    for cls in KEY_CLASSES:
        for bi, base in enumerate(sample_node(cls)):
            fields = [f.name for f in dc.fields(base)
                      if f.name != "non_equality_tags"]
            nested = []
            for f in fields:
                v = getattr(base, f)
                if dc.is_dataclass(v) and not isinstance(v, Array) and \
                        type(v).__module__.startswith("pytato"):
                    nested += [f"{f}.{g.name}" for g in dc.fields(v)
                               if g.name != "non_equality_tags"]
            try:
                try:
                    same = dc.replace(base)
                except TypeError:
                    same = base      # (class with a constructor of its own)
                k0 = PytatoKeyBuilder()(base)
                n += 1
                if PytatoKeyBuilder()(same) != k0:
                    failures.append(dict(
                        key=f"{cls}#{bi}|equal-copy",
                        what=f"an equal copy of a {cls} gets another key"))
            except Exception as e:  # noqa: BLE001
                failures.append(dict(key=f"{cls}#{bi}|keyable",
                                     what=f"{type(e).__name__}: {e}"))
                continue
            # "the same ... for every structurally equal graph": the entries
            # of a mapping field inserted in the opposite order
            from collections.abc import Mapping
            for f in fields:
                v = getattr(base, f)
                if not isinstance(v, Mapping) or len(v) < 2 or \
                        dc.is_dataclass(v):
                    continue
                rev = type(v)(list(v.items())[::-1])
                try:
                    other = dc.replace(base, **{f: rev})
                except TypeError:
                    try:
                        other = type(base)(rev, tags=base.tags)
                    except Exception:  # noqa: BLE001
                        continue
                n += 1
                try:
                    differs = other == base and \
                        PytatoKeyBuilder()(other) != k0
                except Exception:  # noqa: BLE001
                    # (a rebuilt sample that cannot be compared or keyed --
                    # e.g. a call whose results refer to the original)
                    continue
                if differs:
                    failures.append(dict(
                        key=f"{cls}.{f}#{bi}|entries-in-opposite-order",
                        what=f"two equal {cls} nodes whose '{f}' holds the "
                             f"same entries inserted in opposite order "
                             f"({list(v)}) get different persistent keys",
                        replay_src=NATIVE_PERMUTED_REPLAY.format(cls=cls,
                                                                 field=f)))
            for field in [*fields, *nested]:
                for vi, other in enumerate(variants(base, field)):
                    if not (base != other):
                        continue
                    for hist in ("fresh", "children-first"):
                        kb = PytatoKeyBuilder()
                        if hist == "children-first":
                            for c in [*children(base), *children(other)]:
                                kb(c)
                        n += 1
                        try:
                            collide = kb(base) == kb(other)
                        except Exception as e:  # noqa: BLE001
                            failures.append(dict(
                                key=f"{cls}.{field}#{vi}|{hist}|keyable",
                                what=f"{type(e).__name__}: {e}"))
                            continue
                        if collide:
                            failures.append(dict(
                                key=f"{cls}.{field}#{vi}|{hist}",
                                what=f"two {cls} nodes differing only in "
                                     f"'{field}' compare unequal but get the "
                                     f"same persistent key (history: {hist})",
                                replay_src=NATIVE_PAIR_REPLAY.format(
                                    cls=cls, field=field, hist=hist)))
    return dict(name="native-key-pairs", kind="bounded", evaluations=n,
                failures=failures,
                note="real PytatoKeyBuilder on sample nodes x single-field "
                     "variants x {fresh builder, children keyed first}")


NATIVE_PERMUTED_REPLAY = '''
import sys
sys.path.insert(0, "/verif")
import dataclasses as dc
from collections.abc import Mapping
from pyvc.replay_nodes import sample_node
from pyvc.replaylib import reproduced, not_reproduced
from pytato.analysis import PytatoKeyBuilder
cls, field = {cls!r}, {field!r}
for base in sample_node(cls):
    v = getattr(base, field)
    if not isinstance(v, Mapping) or len(v) < 2 or dc.is_dataclass(v):
        continue
    rev = type(v)(list(v.items())[::-1])
    try:
        other = dc.replace(base, **{{field: rev}})
    except TypeError:
        other = type(base)(rev, tags=base.tags)
    if other == base and PytatoKeyBuilder()(other) != PytatoKeyBuilder()(base):
        reproduced(f"two equal {{cls}} nodes whose '{{field}}' holds the same entries "
                   f"inserted in opposite order ({{list(v)}} / {{list(rev)}}) get "
                   f"different persistent keys")
not_reproduced("equal nodes, equal keys")
'''


NATIVE_PAIR_REPLAY = '''
import sys
sys.path.insert(0, "/verif")
import dataclasses as dc
from pyvc.replay_nodes import sample_node, variants
from pyvc.replaylib import reproduced, not_reproduced
from pytato.analysis import PytatoKeyBuilder
from pytato.array import Array
cls, field, hist = {cls!r}, {field!r}, {hist!r}
def children(x):
    out = []
    for f in dc.fields(x):
        v = getattr(x, f.name)
        vs = v if isinstance(v, (tuple, list)) else (list(v.values()) if hasattr(v, "values") else [v])
        out += [c for c in vs if isinstance(c, Array)]
    return out
for base in sample_node(cls):
    for other in variants(base, field):
        if not (base != other):
            continue
        kb = PytatoKeyBuilder()
        if hist == "children-first":
            for c in [*children(base), *children(other)]:
                kb(c)
        if kb(base) == kb(other):
            reproduced(f"two {{cls}} nodes differing only in '{{field}}' are unequal but "
                       f"share a persistent key (history: {{hist}}):\\\\n  {{base!r:.200}}\\\\n  {{other!r:.200}}")
not_reproduced("no sampled pair shares a key")
'''

# }}}
