#!/venv/bin/python
"""tools/mutate.py -- self-assessment by mutation of the functions under
contract (development tool, not part of the registered checks).

For every contract and every repository function it lists (exact
"module:qualname" entries), single AST-level mutants of that function are
written into a *scratch copy* of the repository (never /repo), and the
contract is run against the copy (VERIF_REPO).  Mutants for which the check
still exits 0 are survivors: either equivalent mutants or gaps of the
contract.  Output: one JSON line per mutant in the given log.

  tools/mutate.py <scratch-copy> <log.jsonl> [--contracts a,b] [--max-per-fn N]
"""
from __future__ import annotations

import ast
import importlib
import json
import os
import subprocess
import sys
import time

sys.path.insert(0, "/verif")
sys.path.append("/verif/.deps")

CMP = {ast.Lt: "<=", ast.LtE: "<", ast.Gt: ">=", ast.GtE: ">", ast.Eq: "!=",
       ast.NotEq: "=="}
BIN = {ast.Add: "-", ast.Sub: "+"}


def mutants_of(src, fn_node):
    """Yield (description, new_source) for single mutations inside fn_node."""
    lines = src.splitlines(keepends=True)
    offs = [0]
    for ln in lines:
        offs.append(offs[-1] + len(ln))

    def pos(lineno, col):
        # col is in utf8 bytes; sources here are ascii in code positions
        return offs[lineno - 1] + col

    def seg(node):
        return pos(node.lineno, node.col_offset), pos(node.end_lineno,
                                                      node.end_col_offset)

    def replace(a, b, text):
        return src[:a] + text + src[b:]
    for node in ast.walk(fn_node):
        if isinstance(node, ast.Compare) and len(node.ops) == 1 and \
                type(node.ops[0]) in CMP:
            l_end = seg(node.left)[1]
            r_start = seg(node.comparators[0])[0]
            yield (f"L{node.lineno}: compare -> {CMP[type(node.ops[0])]}",
                   replace(l_end, r_start, f" {CMP[type(node.ops[0])]} "))
        elif isinstance(node, ast.BinOp) and type(node.op) in BIN:
            l_end = seg(node.left)[1]
            r_start = seg(node.right)[0]
            between = src[l_end:r_start]
            if "\n" in between:
                continue
            yield (f"L{node.lineno}: binop -> {BIN[type(node.op)]}",
                   replace(l_end, r_start, f" {BIN[type(node.op)]} "))
        elif isinstance(node, ast.Constant) and type(node.value) is int \
                and node.value in (0, 1, 2, -1):
            a, b = seg(node)
            yield (f"L{node.lineno}: const {node.value} -> {node.value + 1}",
                   replace(a, b, str(node.value + 1)))
        elif isinstance(node, ast.BoolOp) and len(node.values) == 2:
            l_end = seg(node.values[0])[1]
            r_start = seg(node.values[1])[0]
            between = src[l_end:r_start]
            new = " or " if isinstance(node.op, ast.And) else " and "
            if between.strip() in ("and", "or"):
                yield (f"L{node.lineno}: boolop ->{new}",
                       replace(l_end, r_start, between.replace(
                           between.strip(), new.strip())))
        elif isinstance(node, ast.UnaryOp) and isinstance(node.op, ast.Not):
            a, _ = seg(node)
            oa, _ = seg(node.operand)
            yield (f"L{node.lineno}: drop not", replace(a, oa, ""))
        elif isinstance(node, ast.Call):
            if len(node.keywords) >= 2:
                for kw in node.keywords[-1:]:
                    if kw.arg is None:
                        continue
                    prev = node.keywords[-2]
                    a = seg(prev.value)[1]
                    b = seg(kw.value)[1]
                    yield (f"L{node.lineno}: drop keyword {kw.arg}",
                           replace(a, b, ""))
            if len(node.args) >= 2 and all(isinstance(x, (ast.Name,
                                                           ast.Attribute))
                                           for x in node.args[:2]) and \
                    not node.keywords or False:
                if len(node.args) >= 2 and all(
                        isinstance(x, (ast.Name, ast.Attribute))
                        for x in node.args[:2]):
                    a0, b0 = seg(node.args[0])
                    a1, b1 = seg(node.args[1])
                    t0, t1 = src[a0:b0], src[a1:b1]
                    if t0 != t1:
                        yield (f"L{node.lineno}: swap args {t0},{t1}",
                               src[:a0] + t1 + src[b0:a1] + t0 + src[b1:])
            if isinstance(node.func, ast.Name) and node.func.id == "sorted" \
                    and len(node.args) == 1 and not node.keywords:
                a, b = seg(node)
                ia, ib = seg(node.args[0])
                yield (f"L{node.lineno}: sorted(x) -> list(x)",
                       replace(a, b, "list(" + src[ia:ib] + ")"))
        elif isinstance(node, ast.Subscript) and isinstance(node.slice,
                                                            ast.Slice):
            sl = node.slice
            if sl.lower is not None and sl.upper is None and sl.step is None:
                a, b = seg(sl.lower)
                yield (f"L{node.lineno}: slice lower dropped",
                       replace(a, b, ""))


def find_fn(tree, qualname):
    parts = qualname.split(".")
    body = tree.body
    node = None
    for p in parts:
        node = next((n for n in body if isinstance(
            n, (ast.FunctionDef, ast.ClassDef)) and n.name == p), None)
        if node is None:
            return None
        body = node.body
    return node if isinstance(node, ast.FunctionDef) else None


def main():
    scratch, log = sys.argv[1], sys.argv[2]
    only = None
    max_per_fn = 12
    for i, a in enumerate(sys.argv):
        if a == "--contracts":
            only = set(sys.argv[i + 1].split(","))
        if a == "--max-per-fn":
            max_per_fn = int(sys.argv[i + 1])
    from pyvc import core, registry_load  # noqa: F401
    todo = []
    for c in core.REGISTRY.values():
        if only and c.name not in only:
            continue
        for f in c.functions:
            if ":" not in f or "*" in f or "[" in f or " " in f:
                continue
            mod, qn = f.split(":", 1)
            if not mod.startswith("pytato"):
                continue
            todo.append((c.name, c.properties[0], mod, qn))
    seen_fn = set()
    with open(log, "a") as out:
        for cname, prop, mod, qn in todo:
            path = os.path.join(scratch, *mod.split(".")) + ".py"
            if not os.path.exists(path):
                path = os.path.join(scratch, *mod.split("."), "__init__.py")
            if not os.path.exists(path):
                continue
            src = open(path).read()
            fn = find_fn(ast.parse(src), qn)
            if fn is None:
                continue
            ms = list(mutants_of(src, fn))
            # spread over the function
            step = max(1, len(ms) // max_per_fn)
            ms = ms[::step][:max_per_fn]
            for desc, new in ms:
                key = (path, desc)
                if (cname, key) in seen_fn:
                    continue
                seen_fn.add((cname, key))
                try:
                    ast.parse(new)
                except SyntaxError:
                    continue
                open(path, "w").write(new)
                t0 = time.time()
                try:
                    p = subprocess.run(
                        ["/verif/check", prop, "--only", cname,
                         "--no-evidence", "--jobs", "4"],
                        env=dict(os.environ, VERIF_REPO=scratch),
                        capture_output=True, text=True, timeout=900)
                    rc = p.returncode
                    tail = p.stdout.strip().splitlines()[-1:] if p.stdout \
                        else []
                except subprocess.TimeoutExpired:
                    rc, tail = -1, ["timeout"]
                finally:
                    open(path, "w").write(src)
                out.write(json.dumps(dict(
                    contract=cname, prop=prop, function=f"{mod}:{qn}",
                    mutant=desc, rc=rc, seconds=round(time.time() - t0, 1),
                    tail=tail)) + "\n")
                out.flush()


if __name__ == "__main__":
    main()
