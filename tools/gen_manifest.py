#!/venv/bin/python
"""Regenerate MANIFEST.json from contracts/meta.py (claimed properties) and
tools/not_applicable.json."""
import json
import os
import sys

HERE = os.path.dirname(os.path.dirname(os.path.abspath(__file__)))
sys.path.insert(0, HERE)
sys.path.append(os.path.join(HERE, ".deps"))
from contracts import meta  # noqa: E402

BASELINE = ("cd /repo && /venv/bin/python -m pytest -ra -q -p no:cacheprovider "
            "--timeout=900 --continue-on-collection-errors")

with open(os.path.join(HERE, "tools", "not_applicable.json")) as f:
    NA = json.load(f)

all_ids = [json.loads(l)["id"] for l in open(os.path.join(HERE, "properties.jsonl"))]
checks = []
for pid in all_ids:
    m = meta.PROPERTIES.get(pid)
    if m is None:
        continue
    checks.append(dict(
        property_id=pid,
        quick_cmd=f"./check {pid} --tier quick",
        thorough_cmd=f"./check {pid} --tier thorough",
        evidence_file=f"/verif/evidence/{pid}.json",
        replay_cmd_template="./check --replay {path}",
        engine="pyvc",
        level_claimed=dict(category=m["level"], text=m["level_text"],
                           design_ref=m.get("design_ref", "DESIGN.md §6")),
        level_note=m["level_note"],
        technique=m["technique"]))
na = [dict(property_id=p, reason=NA[p]) for p in all_ids
      if p not in meta.PROPERTIES]
missing = [p for p in all_ids if p not in meta.PROPERTIES and p not in NA]
assert not missing, missing
man = dict(
    version=1,
    setup_cmd="./check --setup",
    hooks=dict(guard="INDUCER_PYTATO_VERIF",
               enable="unused: contracts are sidecar files and the source is "
                      "read from disk; no hooks in /repo",
               baseline_off_cmd=BASELINE, source_commits=[], add_only=True),
    engines=[dict(name="pyvc", path="/verif/pyvc",
                  serves_properties=[c["property_id"] for c in checks],
                  kind_free_text="contract-based deductive verifier built "
                  "here: symbolic AST interpreter of the real source + "
                  "sidecar contracts + per-path VCs discharged by z3/cvc5")],
    checks=checks,
    not_applicable=[dict(property_id=p, reason=NA[p]) for p in all_ids
                    if p not in meta.PROPERTIES],
    notes="See DESIGN.md. Exit codes: 0 held, 1 violation, 2 undecided, "
          "3 checker fault.")
with open(os.path.join(HERE, "MANIFEST.json"), "w") as f:
    json.dump(man, f, indent=1)
    f.write("\n")
try:
    import jsonschema
    jsonschema.validate(man, json.load(open("/root/.vp/MANIFEST.schema.json")))
    print("MANIFEST.json valid;", len(checks), "checks,", len(na), "not applicable")
except ImportError:
    print("written (jsonschema unavailable)")
