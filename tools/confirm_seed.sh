#!/bin/bash
# tools/confirm_seed.sh <srcdir> <A|B> <seed-id> <property> 
# Confirms a seeded change in a scratch worktree of /repo HEAD and, if it
# holds up (applies, 80 baseline tests pass, demo exits 1 with / 0 without),
# stores it under /verif/seeded/<seed-id>/.
set -u
src="$1"; x="$2"; sid="$3"; prop="$4"
wt=$(mktemp -d /tmp/confirm_XXXXXX)
rmdir "$wt"
git -C /repo worktree add -q --detach "$wt" HEAD || exit 9
cleanup() { git -C /repo worktree remove --force "$wt" >/dev/null 2>&1; rm -rf "$wt"; }
trap cleanup EXIT
cd "$wt"
cp "$src/demo_$x.py" "$wt/_demo.py"
PYTHONPATH="$wt" /venv/bin/python _demo.py >/tmp/confirm_$sid.base.out 2>&1; base=$?
git apply "$src/patch_$x.diff" || { echo "$sid: patch does not apply"; exit 1; }
tests=$(PYTHONPATH="$wt" timeout 1200 /venv/bin/python -m pytest -q -p no:cacheprovider --timeout=900 --continue-on-collection-errors test/test_pytato.py test/test_linalg.py 2>&1 | tail -1)
PYTHONPATH="$wt" /venv/bin/python _demo.py >/tmp/confirm_$sid.with.out 2>&1; with=$?
echo "$sid: base-demo-exit=$base with-demo-exit=$with tests: $tests"
ok=0
if [ "$base" = 0 ] && [ "$with" = 1 ] && echo "$tests" | grep -q "80 passed"; then ok=1; fi
if [ $ok = 1 ]; then
  d=/verif/seeded/$sid; mkdir -p "$d"
  cp "$src/patch_$x.diff" "$d/patch.diff"; cp "$src/demo_$x.py" "$d/demo.py"
  desc=$(awk -v x="$x" 'BEGIN{IGNORECASE=1} $0 ~ "^#+ .*change " x {f=1} f{print} ' "$src/notes.md" | head -40 | /venv/bin/python -c "import sys,json; print(json.dumps(sys.stdin.read()[:3000]))")
  cat > "$d/meta.json" <<EOM
{
 "seed_id": "$sid",
 "property": "$prop",
 "source": "independent sub-agent given only the property text and a scratch worktree",
 "notes_excerpt": $desc,
 "confirmed": {
  "tree": "$(git -C /repo rev-parse --short HEAD)",
  "baseline_tests_with_change": "$tests",
  "demo_exit_without_change": $base,
  "demo_exit_with_change": $with,
  "commands": ["git apply patch.diff", "PYTHONPATH=<wt> /venv/bin/python -m pytest -q -p no:cacheprovider --timeout=900 --continue-on-collection-errors test/test_pytato.py test/test_linalg.py", "PYTHONPATH=<wt> /venv/bin/python demo.py"]
 }
}
EOM
  echo "$sid: stored"
else
  echo "$sid: NOT confirmed (see /tmp/confirm_$sid.*.out)"
fi
