#!/venv/bin/python
"""tools/retriage.py -- second pass over the survivors of tools/mutate.py
(development tool, not part of the registered checks).

A survivor of the first pass escaped *one contract*.  That alone says little:
the baseline tests may kill it (then it is not a change "that still passes the
existing tests"), or another contract / another property's check may.  This
pass re-creates every surviving mutant in a scratch copy and runs

  1. the two baseline test files (the 80 pinned tests),
  2. every registered quick check whose property can be affected by the file
     the mutant sits in (FILE_PROPS below),

and writes one JSON line per mutant: tests_passed, {prop: exit code}.  What is
left -- passes the tests, every related check exits 0 -- is triaged by hand as
equivalent / outside every property / gap (DESIGN.md 12.5).

  tools/retriage.py <scratch-copy> <in.jsonl> <out.jsonl> <k> <n>
      (worker k of n: takes every n-th distinct survivor)
"""
from __future__ import annotations

import ast
import json
import os
import re
import subprocess
import sys
import time

sys.path.insert(0, "/verif")
sys.path.insert(0, "/verif/tools")
from mutate import find_fn, mutants_of  # noqa: E402

FILE_PROPS = [
    ("pytato/array.py", "C01 C02 C03 C11 C16 C19 C14 C12 C05 C13"),
    ("pytato/utils.py", "C01 C02 C03 C11 C16 C19 C14"),
    ("pytato/reductions.py", "C01 C03 C16 C19 C11"),
    ("pytato/pad.py", "C01 C03 C11"),
    ("pytato/cmath.py", "C01 C03 C19 C14"),
    ("pytato/equality.py", "C04 C13 C20 C05"),
    ("pytato/function.py", "C12 C05 C13"),
    ("pytato/raising.py", "C19 C06 C14"),
    ("pytato/transform/einsum_distributive_law.py", "C06"),
    ("pytato/transform/lower_to_index_lambda.py", "C02 C01 C11 C16 C07"),
    ("pytato/transform/calls.py", "C12 C05"),
    ("pytato/transform/materialize.py", "C05 C07 C13"),
    ("pytato/transform/", "C05 C13 C20 C06 C12"),
    ("pytato/analysis/", "C20 C13 C05"),
    ("pytato/codegen.py", "C15 C01 C07 C05 C17 C14"),
    ("pytato/target/loopy/", "C01 C07 C11 C15 C17 C16"),
    ("pytato/target/python/", "C14 C15 C17"),
    ("pytato/distributed/", "C08 C09 C10 C17"),
]


def props_for(relpath):
    for pre, props in FILE_PROPS:
        if relpath.startswith(pre):
            return props.split()
    return []


def main():
    scratch, inlog, outlog, k, n = sys.argv[1:6]
    k, n = int(k), int(n)
    seen, todo = set(), []
    for ln in open(inlog):
        r = json.loads(ln)
        if r["rc"] != 0:
            continue
        key = (r["function"], r["mutant"])
        if key in seen:
            continue
        seen.add(key)
        todo.append(r)
    todo = todo[k::n]
    done = set()
    if os.path.exists(outlog):
        for ln in open(outlog):
            r = json.loads(ln)
            done.add((r["function"], r["mutant"]))
    with open(outlog, "a") as out:
        for r in todo:
            if (r["function"], r["mutant"]) in done:
                continue
            mod, qn = r["function"].split(":", 1)
            rel = os.path.join(*mod.split(".")) + ".py"
            path = os.path.join(scratch, rel)
            if not os.path.exists(path):
                rel = os.path.join(*mod.split("."), "__init__.py")
                path = os.path.join(scratch, rel)
            src = open(path).read()
            fn = find_fn(ast.parse(src), qn)
            new = None
            if fn is not None:
                for desc, cand in mutants_of(src, fn):
                    if desc == r["mutant"]:
                        new = cand
                        break
            rec = dict(function=r["function"], mutant=r["mutant"],
                       first_contract=r["contract"])
            if new is None:
                rec["status"] = "mutant-not-reproducible"
                out.write(json.dumps(rec) + "\n")
                out.flush()
                continue
            open(path, "w").write(new)
            t0 = time.time()
            try:
                p = subprocess.run(
                    ["/venv/bin/python", "-m", "pytest", "-q", "-p",
                     "no:cacheprovider", "--timeout=900", "-n", "3",
                     "--continue-on-collection-errors", "test/test_pytato.py",
                     "test/test_linalg.py"], cwd=scratch,
                    env=dict(os.environ, PYTHONPATH=scratch),
                    capture_output=True, text=True, timeout=1500)
                m = re.search(r"(\d+) passed", p.stdout)
                rec["tests_passed"] = int(m.group(1)) if m else 0
                rec["checks"] = {}
                if rec["tests_passed"] >= 80:
                    for prop in props_for(rel):
                        try:
                            q = subprocess.run(
                                [os.environ.get("RETRIAGE_CHECK", "/verif/check"), prop, "--no-evidence",
                                 "--jobs", "4"],
                                env=dict(os.environ, VERIF_REPO=scratch),
                                capture_output=True, text=True, timeout=1500)
                            rec["checks"][prop] = q.returncode
                            if q.returncode != 0:
                                vio = [x for x in q.stdout.splitlines()
                                       if x.startswith(("VIOLATION",
                                                        "CHECKER", "UNDEC"))]
                                rec.setdefault("first_report", {})[prop] = \
                                    vio[:1]
                                break   # killed: no need for the others
                        except subprocess.TimeoutExpired:
                            rec["checks"][prop] = -1
            except subprocess.TimeoutExpired:
                rec["tests_passed"] = -1
            finally:
                open(path, "w").write(src)
            rec["seconds"] = round(time.time() - t0, 1)
            out.write(json.dumps(rec) + "\n")
            out.flush()


if __name__ == "__main__":
    main()
