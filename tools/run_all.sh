#!/bin/bash
# tools/run_all.sh [quick|thorough] [--no-evidence]
# Run every registered check of the given tier against /repo's working tree
# and print one summary line per property; exit 1 if any check did not exit 0.
# (Contracts are shared between properties -- C16 re-runs C01/C02 contracts
# with parametric shapes -- so every contract change is followed by this.)
tier="${1:-quick}"; shift
cd /verif || exit 9
bad=0
for p in C01 C02 C03 C04 C05 C06 C07 C08 C09 C10 C11 C12 C13 C14 C15 C16 C17 C18 C19 C20; do
  out=$(./check "$p" --tier "$tier" "$@" 2>&1); rc=$?
  echo "$out" | grep "^$p \[" || echo "$p: no summary line (rc=$rc)"
  if [ $rc -ne 0 ]; then bad=1; echo "$out" | grep "^VIOLATION\|^UNDECIDED\|^CHECKER" | head -5; fi
done
exit $bad
