#!/bin/bash
# tools/try_seed.sh <patch.diff> <prop> [<prop> ...]
# Apply a seeded change to /repo's working tree, run the quick checks for the
# listed properties without touching evidence, undo the change.
set -u
patch="$1"; shift
cd /repo || exit 9
if ! git diff --quiet; then echo "/repo working tree not clean"; exit 9; fi
git apply "$patch" || { echo "patch does not apply"; exit 9; }
trap 'git -C /repo checkout -- . ' EXIT
cd /verif
for p in "$@"; do
  echo "=== $p with $(basename $(dirname $patch))/$(basename $patch)"
  ./check "$p" --tier "${TIER:-quick}" --no-evidence 2>&1 | grep -v "^  obligation\|^  replay" | awk '/^VIOLATION/{v++; if (v<=3) print; next} {print}' | tail -${LINES_OUT:-12}
  echo "exit=${PIPESTATUS[0]}"
done
