/-
Appendix A.1 of DESIGN.md, machine-checked: a memoised traversal of a finite
DAG runs the per-node method exactly once on every reachable node and never
elsewhere, returns for every node the value of the plain (unmemoised)
recursion, and leaves every reachable node cached.

What is modelled: exactly the two facts that the pyvc contracts establish
about the real code --
  * memoisation contract of `rec`:  hit => stored value returned, state
    unchanged;  miss => the method runs once, then the result is stored;
  * child coverage of every `map_K`:  the method calls `rec` on exactly the
    declared children (in some order) and its result is a function `f` of the
    node and the children's results.
Everything else (what `f` is, what the nodes are) is abstract.
-/
import Mathlib.Logic.Function.Basic
import Mathlib.Logic.Relation
import Mathlib.Tactic

set_option linter.unusedSectionVars false

namespace Memo

structure Graph (V : Type) where
  ch : V → List V
  rank : V → Nat
  dag : ∀ v c, c ∈ ch v → rank c < rank v

structure St (V R : Type) where
  cache : V → Option R
  runs : V → Nat
  /-- the nodes in the order in which their method *completed* (post-visit) -/
  order : List V

variable {V R : Type} [DecidableEq V]

/-- threading the state through a list of calls -/
def mapSt (g : V → St V R → R × St V R) : List V → St V R → List R × St V R
  | [], s => ([], s)
  | c :: cs, s =>
    let p := g c s
    let q := mapSt g cs p.2
    (p.1 :: q.1, q.2)

/-- the memoised recursion, with fuel -/
def recN (G : Graph V) (f : V → List R → R) : Nat → V → St V R → R × St V R
  | 0, v, s => (f v [], s)
  | n + 1, v, s =>
    match s.cache v with
    | some r => (r, s)
    | none =>
      let q := mapSt (recN G f n) (G.ch v) s
      let r := f v q.1
      (r, { cache := Function.update q.2.cache v (some r),
            runs := Function.update q.2.runs v (q.2.runs v + 1),
            order := q.2.order ++ [v] })

/-- the plain recursion, with fuel -/
def denN (G : Graph V) (f : V → List R → R) : Nat → V → R
  | 0, v => f v []
  | n + 1, v => f v ((G.ch v).map (denN G f n))

/-- with enough fuel the plain recursion does not depend on the fuel -/
theorem denN_stable (G : Graph V) (f : V → List R → R) :
    ∀ n m v, G.rank v < n → G.rank v < m → denN G f n v = denN G f m v := by
  intro n
  induction n with
  | zero => intro m v h; exact absurd h (Nat.not_lt_zero _)
  | succ n ih =>
    intro m v hn hm
    cases m with
    | zero => exact absurd hm (Nat.not_lt_zero _)
    | succ m =>
      simp only [denN]
      congr 1
      apply List.map_congr_left
      intro c hc
      have hr := G.dag v c hc
      exact ih m c (by omega) (by omega)

/-- the meaning of a node -/
def den (G : Graph V) (f : V → List R → R) (v : V) : R :=
  denN G f (G.rank v + 1) v

theorem den_eq (G : Graph V) (f : V → List R → R) (v : V) :
    den G f v = f v ((G.ch v).map (den G f)) := by
  show denN G f (G.rank v + 1) v = f v ((G.ch v).map (den G f))
  rw [denN]
  congr 1
  apply List.map_congr_left
  intro c hc
  have hr := G.dag v c hc
  show denN G f (G.rank v) c = denN G f (G.rank c + 1) c
  exact denN_stable G f _ _ c hr (Nat.lt_succ_self _)

/-- every node of the list is preceded by all its children -/
def Topo (G : Graph V) (l : List V) : Prop :=
  ∀ l1 v l2, l = l1 ++ v :: l2 → ∀ c ∈ G.ch v, c ∈ l1

theorem Topo.snoc (G : Graph V) {l : List V} {v : V} (h : Topo G l)
    (hv : ∀ c ∈ G.ch v, c ∈ l) : Topo G (l ++ [v]) := by
  intro l1 w l2 heq c hc
  rcases List.eq_nil_or_concat l2 with h2 | ⟨l2', x, h2⟩
  · subst h2
    have := List.append_inj' heq (by simp)
    obtain ⟨h1, h3⟩ := this
    have hw : v = w := by simpa using h3
    subst hw; subst h1
    exact hv c hc
  · subst h2
    have heq' : l ++ [v] = (l1 ++ w :: l2') ++ [x] := by
      rw [heq]; simp [List.concat_eq_append]
    have := List.append_inj' heq' (by simp)
    exact h l1 w l2' this.1 c hc

/-- invariant of the state -/
def Inv (G : Graph V) (f : V → List R → R) (s : St V R) : Prop :=
  (∀ v, (∀ r, s.cache v = some r →
          r = den G f v ∧ s.runs v = 1 ∧ ∀ c ∈ G.ch v, s.cache c = some (den G f c))
      ∧ (s.cache v = none → s.runs v = 0))
  ∧ (∀ v, v ∈ s.order ↔ s.cache v ≠ none)
  ∧ Topo G s.order

/-- the cache only grows -/
def Mono (s s' : St V R) : Prop :=
  ∀ u r, s.cache u = some r → s'.cache u = some r

theorem Mono.refl (s : St V R) : Mono s s := fun _ _ h => h

theorem Mono.trans {s1 s2 s3 : St V R} (h1 : Mono s1 s2) (h2 : Mono s2 s3) :
    Mono s1 s3 := fun u r h => h2 u r (h1 u r h)

/-- every cached node satisfies `P` -/
def Within (P : V → Prop) (s : St V R) : Prop :=
  ∀ v r, s.cache v = some r → P v

/-- what one call establishes -/
def Good (G : Graph V) (f : V → List R → R) (P : V → Prop)
    (v : V) (s : St V R) (p : R × St V R) : Prop :=
  p.1 = den G f v ∧ Inv G f p.2 ∧ Mono s p.2 ∧ p.2.cache v = some (den G f v)
    ∧ Within P p.2
    ∧ (∀ u, s.cache u = none → p.2.cache u ≠ none → G.rank u ≤ G.rank v)

theorem mapSt_good (G : Graph V) (f : V → List R → R) (P : V → Prop)
    (g : V → St V R → R × St V R) :
    ∀ (cs : List V) (s : St V R),
      (∀ c ∈ cs, ∀ s, Inv G f s → Within P s → Good G f P c s (g c s)) →
      Inv G f s → Within P s →
      (mapSt g cs s).1 = cs.map (den G f) ∧ Inv G f (mapSt g cs s).2
        ∧ Mono s (mapSt g cs s).2
        ∧ (∀ c ∈ cs, (mapSt g cs s).2.cache c = some (den G f c))
        ∧ Within P (mapSt g cs s).2
        ∧ (∀ u, s.cache u = none → (mapSt g cs s).2.cache u ≠ none →
              ∃ c ∈ cs, G.rank u ≤ G.rank c) := by
  intro cs
  induction cs with
  | nil =>
    intro s _ hI hW
    refine ⟨rfl, hI, Mono.refl s, (by intro c hc; cases hc), hW, ?_⟩
    intro u hn hs
    exact absurd hn hs
  | cons c cs ih =>
    intro s hg hI hW
    have h1 := hg c (List.mem_cons_self) s hI hW
    obtain ⟨e1, i1, m1, c1, w1, b1⟩ := h1
    have h2 := ih (g c s).2 (fun c' hc' => hg c' (List.mem_cons_of_mem _ hc')) i1 w1
    obtain ⟨e2, i2, m2, c2, w2, b2⟩ := h2
    refine ⟨?_, i2, m1.trans m2, ?_, w2, ?_⟩
    · simp only [mapSt, List.map_cons, e1, e2]
    · intro c' hc'
      rcases List.mem_cons.mp hc' with h | h
      · subst h; exact m2 _ _ c1
      · exact c2 c' h
    · intro u hn hs
      by_cases hmid : (g c s).2.cache u = none
      · obtain ⟨c', hc', hr⟩ := b2 u hmid hs
        exact ⟨c', List.mem_cons_of_mem _ hc', hr⟩
      · exact ⟨c, List.mem_cons_self, b1 u hn hmid⟩

theorem recN_good (G : Graph V) (f : V → List R → R) (P : V → Prop)
    (hP : ∀ v c, P v → c ∈ G.ch v → P c) :
    ∀ n v s, G.rank v < n → P v → Inv G f s → Within P s →
      Good G f P v s (recN G f n v s) := by
  intro n
  induction n with
  | zero => intro v s h; exact absurd h (Nat.not_lt_zero _)
  | succ n ih =>
    intro v s hr hPv hI hW
    unfold recN
    cases hc : s.cache v with
    | some r =>
      simp only
      have := (hI.1 v).1 r hc
      exact ⟨this.1, hI, Mono.refl s, by rw [hc, this.1], hW,
        fun u hn hs => absurd hn hs⟩
    | none =>
      simp only
      have hch : ∀ c ∈ G.ch v, ∀ s, Inv G f s → Within P s →
          Good G f P c s (recN G f n c s) := by
        intro c hcm s' hI' hW'
        have := G.dag v c hcm
        exact ih c s' (by omega) (hP v c hPv hcm) hI' hW'
      have key := mapSt_good G f P (recN G f n) (G.ch v) s hch hI hW
      generalize mapSt (recN G f n) (G.ch v) s = q at key ⊢
      obtain ⟨e, i, m, cc, w, b⟩ := key
      have hres : f v q.1 = den G f v := by rw [den_eq, e]
      -- v is still uncached after its children: they only add nodes of
      -- smaller rank
      have hvnone : q.2.cache v = none := by
        by_contra hne
        obtain ⟨c, hcm, hr'⟩ := b v hc hne
        have := G.dag v c hcm
        omega
      have hruns0 : q.2.cache v = none → q.2.runs v = 0 := (i.1 v).2
      refine ⟨hres, ?_, ?_, ?_, ?_, ?_⟩
      · -- invariant after the update
        refine ⟨?_, ?_, ?_⟩
        rotate_left
        · -- the order lists exactly the cached nodes
          intro u
          by_cases huv : u = v
          · subst huv
            simp [Function.update_self]
          · simp only [Function.update_of_ne huv, List.mem_append, List.mem_singleton, huv,
              or_false]
            exact i.2.1 u
        · -- post-visit order: children first
          apply Topo.snoc G i.2.2
          intro c hcm
          exact (i.2.1 c).2 (by rw [cc c hcm]; exact Option.some_ne_none _)
        intro u
        by_cases huv : u = v
        · subst huv
          constructor
          · intro r hr'
            simp only [Function.update_self] at hr'
            have : r = f u q.1 := by injection hr' with h; exact h.symm
            refine ⟨by rw [this, hres], ?_, ?_⟩
            · simp only [Function.update_self]
              rw [hruns0 hvnone]
            · intro c hcm
              have hcu : c ≠ u := by
                intro h; have := G.dag u c hcm; rw [h] at this; omega
              simp only [Function.update_of_ne hcu]
              exact cc c hcm
          · intro hnone
            simp only [Function.update_self] at hnone
            cases hnone
        · constructor
          · intro r hr'
            simp only [Function.update_of_ne huv] at hr'
            obtain ⟨a, b, c'⟩ := (i.1 u).1 r hr'
            refine ⟨a, by simp only [Function.update_of_ne huv]; exact b, ?_⟩
            intro c hcm
            by_cases hcv : c = v
            · subst hcv
              simp only [Function.update_self]
              rw [hres]
            · simp only [Function.update_of_ne hcv]
              exact c' c hcm
          · intro hnone
            simp only [Function.update_of_ne huv] at hnone ⊢
            exact (i.1 u).2 hnone
      · intro u r hu
        by_cases huv : u = v
        · subst huv; rw [hc] at hu; cases hu
        · simp only [Function.update_of_ne huv]
          exact m u r hu
      · simp only [Function.update_self, hres]
      · intro u r hu
        by_cases huv : u = v
        · subst huv; exact hPv
        · simp only [Function.update_of_ne huv] at hu
          exact w u r hu
      · intro u hn hs
        by_cases huv : u = v
        · subst huv; exact Nat.le_refl _
        · simp only [Function.update_of_ne huv] at hs
          obtain ⟨c, hcm, hr'⟩ := b u hn hs
          have := G.dag v c hcm
          omega

/-- the state before the traversal -/
def empty : St V R := ⟨fun _ => none, fun _ => 0, []⟩

theorem inv_empty (G : Graph V) (f : V → List R → R) : Inv G f (empty : St V R) := by
  refine ⟨?_, ?_, ?_⟩
  · intro v
    constructor
    · intro r h; cases h
    · intro _; rfl
  · intro v; simp [empty]
  · intro l1 v l2 h; simp [empty] at h

/-- reachability along declared children -/
def Reach (G : Graph V) (root v : V) : Prop :=
  Relation.ReflTransGen (fun a b => b ∈ G.ch a) root v

/-- **A.1 / A.5**: after the memoised traversal from `root`, started on the
empty cache,
  (1) the result is the value of the plain recursion,
  (2) the method has run at most once on every node,
  (3) exactly once on every node reachable from `root`, whose result is cached,
  (4) and never on any other node;
  (5) the post-visit order lists exactly the reachable nodes and
  (6) is topological: every node comes after all its children. -/
theorem traversal (G : Graph V) (f : V → List R → R) (root : V) :
    let p := recN G f (G.rank root + 1) root (empty : St V R)
    p.1 = den G f root
    ∧ (∀ v, p.2.runs v ≤ 1)
    ∧ (∀ v, Reach G root v → p.2.runs v = 1 ∧ p.2.cache v = some (den G f v))
    ∧ (∀ v, ¬ Reach G root v → p.2.runs v = 0 ∧ p.2.cache v = none)
    ∧ (∀ v, v ∈ p.2.order ↔ Reach G root v)
    ∧ Topo G p.2.order := by
  intro p
  have hP : ∀ v c, Reach G root v → c ∈ G.ch v → Reach G root c :=
    fun v c hv hc => Relation.ReflTransGen.tail hv hc
  have hW0 : Within (Reach G root) (empty : St V R) := by
    intro v r h; cases h
  obtain ⟨e, i, _, cr, w, _⟩ :=
    recN_good G f (Reach G root) hP (G.rank root + 1) root empty
      (Nat.lt_succ_self _) Relation.ReflTransGen.refl (inv_empty G f) hW0
  have hcached : ∀ v, Reach G root v → p.2.cache v = some (den G f v) := by
    intro v hv
    induction hv with
    | refl => exact cr
    | tail _ hbc ih => exact ((i.1 _).1 _ ih).2.2 _ hbc
  refine ⟨e, ?_, ?_, ?_, ?_, i.2.2⟩
  rotate_right
  · intro v
    rw [i.2.1 v]
    constructor
    · intro hne
      obtain ⟨r, hr⟩ := Option.ne_none_iff_exists'.mp hne
      exact w v r hr
    · intro hv
      rw [hcached v hv]; exact Option.some_ne_none _
  · intro v
    cases h : p.2.cache v with
    | none => rw [(i.1 v).2 h]; exact Nat.zero_le _
    | some r => rw [((i.1 v).1 r h).2.1]
  · intro v hv
    exact ⟨((i.1 v).1 _ (hcached v hv)).2.1, hcached v hv⟩
  · intro v hv
    have hnone : p.2.cache v = none := by
      cases h : p.2.cache v with
      | none => rfl
      | some r => exact absurd (w v r h) hv
    exact ⟨(i.1 v).2 hnone, hnone⟩

/-- a later call on a cached node is a hit: the stored value, state unchanged
(what makes every later `rec(v)` return the same result -- sharing) -/
theorem hit (G : Graph V) (f : V → List R → R) (n : Nat) (v : V) (s : St V R) (r : R)
    (h : s.cache v = some r) : recN G f (n + 1) v s = (r, s) := by
  simp only [recN, h]

/-- **A.5** (counting): the number of method runs over any finite set of
nodes that contains no unreachable node equals the number of reachable nodes
in it -- each contributes exactly one.  (NodeCountMapper adds 1 per run.) -/
theorem runs_sum (G : Graph V) (f : V → List R → R) (root : V) (l : List V)
    (hl : ∀ v ∈ l, Reach G root v) :
    ((l.map (recN G f (G.rank root + 1) root (empty : St V R)).2.runs).sum) = l.length := by
  have h := (traversal G f root).2.2.1
  induction l with
  | nil => rfl
  | cons a l ih =>
    simp only [List.map_cons, List.sum_cons, List.length_cons]
    rw [(h a (hl a List.mem_cons_self)).1, ih (fun v hv => hl v (List.mem_cons_of_mem _ hv))]
    omega

/-- **A.4 / A.6** (value preservation by induction over the DAG).
`meaning` gives every node its meaning from the meanings of its children
(`g`); `sem` gives a *result* its meaning.  If every method satisfies its
per-node contract -- the meaning of `f v rs` is `g v` applied to the meanings
of the children's results -- then the result computed for every node means
what the node means.  (With `traversal`: so does what the memoised mapper
returns and caches.) -/
theorem preserved {M : Type} (G : Graph V) (f : V → List R → R)
    (g : V → List M → M) (meaning : V → M) (sem : R → M)
    (hmeaning : ∀ v, meaning v = g v ((G.ch v).map meaning))
    (hcontract : ∀ v rs, sem (f v rs) = g v (rs.map sem)) :
    ∀ v, sem (den G f v) = meaning v := by
  have key : ∀ n v, G.rank v < n → sem (den G f v) = meaning v := by
    intro n
    induction n with
    | zero => intro v h; exact absurd h (Nat.not_lt_zero _)
    | succ n ih =>
      intro v hr
      rw [den_eq, hcontract, hmeaning v, List.map_map]
      congr 1
      apply List.map_congr_left
      intro c hc
      have := G.dag v c hc
      exact ih c (by omega)
  intro v
  exact key (G.rank v + 1) v (Nat.lt_succ_self _)

/-- ... and therefore the memoised traversal returns a result that means what
the root means. -/
theorem traversal_preserves {M : Type} (G : Graph V) (f : V → List R → R)
    (g : V → List M → M) (meaning : V → M) (sem : R → M)
    (hmeaning : ∀ v, meaning v = g v ((G.ch v).map meaning))
    (hcontract : ∀ v rs, sem (f v rs) = g v (rs.map sem)) (root : V) :
    sem (recN G f (G.rank root + 1) root (empty : St V R)).1 = meaning root := by
  rw [(traversal G f root).1]
  exact preserved G f g meaning sem hmeaning hcontract root

/-! ### A.3: structural equality is an equivalence, a congruence, and
consistent with hashing

Model of what the C04 contracts establish per node class: `EqualityComparer`
returns true on two nodes iff their non-child fields (`lab`) are equal and
their declared children are pairwise equal (same number, same order).  -/

/-- pointwise comparison of two child lists -/
def all2 (r : V → V → Bool) : List V → List V → Bool
  | [], [] => true
  | a :: as, b :: bs => r a b && all2 r as bs
  | _, _ => false

/-- the comparer, with fuel -/
def eqN {L : Type} [DecidableEq L] (G : Graph V) (lab : V → L) : Nat → V → V → Bool
  | 0, _, _ => true
  | n + 1, a, b => decide (lab a = lab b) && all2 (eqN G lab n) (G.ch a) (G.ch b)

theorem all2_refl (r : V → V → Bool) (l : List V) (h : ∀ a ∈ l, r a a = true) :
    all2 r l l = true := by
  induction l with
  | nil => rfl
  | cons a l ih =>
    simp only [all2, Bool.and_eq_true]
    exact ⟨h a List.mem_cons_self, ih (fun x hx => h x (List.mem_cons_of_mem _ hx))⟩

theorem all2_symm (r : V → V → Bool) :
    ∀ (l1 l2 : List V), (∀ a ∈ l1, ∀ b, r a b = true → r b a = true) →
      all2 r l1 l2 = true → all2 r l2 l1 = true := by
  intro l1
  induction l1 with
  | nil => intro l2 _ h; cases l2 with
    | nil => rfl
    | cons b bs => simp [all2] at h
  | cons a l1 ih =>
    intro l2 hs h
    cases l2 with
    | nil => simp [all2] at h
    | cons b bs =>
      simp only [all2, Bool.and_eq_true] at h ⊢
      exact ⟨hs a List.mem_cons_self b h.1,
        ih bs (fun x hx => hs x (List.mem_cons_of_mem _ hx)) h.2⟩

theorem all2_trans (r : V → V → Bool) :
    ∀ (l1 l2 l3 : List V),
      (∀ a ∈ l1, ∀ b c, r a b = true → r b c = true → r a c = true) →
      all2 r l1 l2 = true → all2 r l2 l3 = true → all2 r l1 l3 = true := by
  intro l1
  induction l1 with
  | nil =>
    intro l2 l3 _ h12 h23
    cases l2 with
    | nil => exact h23
    | cons b bs => simp [all2] at h12
  | cons a l1 ih =>
    intro l2 l3 ht h12 h23
    cases l2 with
    | nil => simp [all2] at h12
    | cons b bs =>
      cases l3 with
      | nil => simp [all2] at h23
      | cons c cs =>
        simp only [all2, Bool.and_eq_true] at h12 h23 ⊢
        exact ⟨ht a List.mem_cons_self b c h12.1 h23.1,
          ih bs cs (fun x hx => ht x (List.mem_cons_of_mem _ hx)) h12.2 h23.2⟩

theorem eqN_refl {L : Type} [DecidableEq L] (G : Graph V) (lab : V → L) :
    ∀ n a, eqN G lab n a a = true := by
  intro n
  induction n with
  | zero => intro a; rfl
  | succ n ih =>
    intro a
    simp only [eqN, Bool.and_eq_true, decide_eq_true_eq, true_and]
    exact all2_refl _ _ (fun c _ => ih c)

theorem eqN_symm {L : Type} [DecidableEq L] (G : Graph V) (lab : V → L) :
    ∀ n a b, eqN G lab n a b = true → eqN G lab n b a = true := by
  intro n
  induction n with
  | zero => intro a b _; rfl
  | succ n ih =>
    intro a b h
    simp only [eqN, Bool.and_eq_true, decide_eq_true_eq] at h ⊢
    exact ⟨h.1.symm, all2_symm _ _ _ (fun x _ y hxy => ih x y hxy) h.2⟩

theorem eqN_trans {L : Type} [DecidableEq L] (G : Graph V) (lab : V → L) :
    ∀ n a b c, eqN G lab n a b = true → eqN G lab n b c = true →
      eqN G lab n a c = true := by
  intro n
  induction n with
  | zero => intro a b c _ _; rfl
  | succ n ih =>
    intro a b c h1 h2
    simp only [eqN, Bool.and_eq_true, decide_eq_true_eq] at h1 h2 ⊢
    exact ⟨h1.1.trans h2.1,
      all2_trans _ _ _ _ (fun x _ y z hxy hyz => ih x y z hxy hyz) h1.2 h2.2⟩

/-- with enough fuel, children compared equal have equal values under *every*
function computed from the non-child fields and the children's values --
meaning (soundness / congruence: equal nodes denote the same) and hash
(consistency: equal nodes hash equal) alike -/
theorem all2_map_eq {M : Type} (r : V → V → Bool) (d : V → M) :
    ∀ (l1 l2 : List V), (∀ a ∈ l1, ∀ b, r a b = true → d a = d b) →
      all2 r l1 l2 = true → l1.map d = l2.map d := by
  intro l1
  induction l1 with
  | nil => intro l2 _ h; cases l2 with
    | nil => rfl
    | cons b bs => simp [all2] at h
  | cons a l1 ih =>
    intro l2 hd h
    cases l2 with
    | nil => simp [all2] at h
    | cons b bs =>
      simp only [all2, Bool.and_eq_true] at h
      simp only [List.map_cons]
      rw [hd a List.mem_cons_self b h.1,
        ih bs (fun x hx => hd x (List.mem_cons_of_mem _ hx)) h.2]

theorem eqN_congr {L M : Type} [DecidableEq L] (G : Graph V) (lab : V → L)
    (g : L → List M → M) :
    ∀ n a b, G.rank a < n → eqN G lab n a b = true →
      den G (fun v rs => g (lab v) rs) a = den G (fun v rs => g (lab v) rs) b := by
  intro n
  induction n with
  | zero => intro a b h; exact absurd h (Nat.not_lt_zero _)
  | succ n ih =>
    intro a b hr h
    simp only [eqN, Bool.and_eq_true, decide_eq_true_eq] at h
    rw [den_eq, den_eq, h.1]
    congr 1
    apply all2_map_eq (eqN G lab n) _ _ _ _ h.2
    intro x hx y hxy
    have := G.dag a x hx
    exact ih x y (by omega) hxy

end Memo

#print axioms Memo.eqN_congr
#print axioms Memo.eqN_trans
#print axioms Memo.traversal_preserves
#print axioms Memo.traversal
#print axioms Memo.runs_sum
